"""C11 — check selection, config inheritance, exit status and formats agree.

Lean (Verif/C11):
  Model/Lemmas/Theorems   config.mergeLists/Merge/parseConfigs/mergeConfigs/normalizeList/Load, the
                          command-line merge, lintcmd.filterAnalyzerNames (Unicode tables on a probed
                          alphabet), success, counting/exit part of printDiagnostics
  Format/FormatTheorems   rich problems, classify/shownProblems, the four formatters as abstract
                          renderings, stats, exit code 2 paths; *_extract, formats_agree,
                          formats_same_problems, severity_spec, sarif_suppression_spec, ...
  Package/PackageTheorems config.Dir + Analyzer.Run + runner merge over arbitrary directory trees,
                          success + filterIgnored (directive problems depend on the selection);
                          package_selection, conf_scope, lintPackage_full_spec, ...

Tie X (no new hook; go:linkname + the exported C10 wrapper), every stream compared with the model
(c11driver) and with an independent Python evaluation of the documented algebra (the oracle):
  chars    the Unicode tables of the model against the Go library on the whole alphabet
  sel      in-process: the real filterAnalyzerNames (+ makeCaseFoldedStrings) on every generated list
  tree     in-process: the real config.Analyzer.Run / Dir / Load + Merge + filterAnalyzerNames per
           package of generated directory trees (cached files, files in several directories)
  lintpkg  in-process: the real filterAnalyzerNames -> success -> filterIgnored
  load     in-process: the real config.Load on directory chains (incl. the normalizeList panic)
  merge    in-process: the real lintcmd.Command (`-merge`) on gob-crafted results with end positions,
           related information, build names, -debug.no-compile-errors, unusable formats (exit 2):
           exit status, printed set, and all four renderings field by field against the model's
           rendering and against each other
  cli      the real staticcheck binary on a fixed "one problem per check" module under generated
           -checks/-fail/-show-ignored and nested staticcheck.conf trees x -f text|stylish|json|sarif;
           the model renders the reference problems restricted to the documented selection
  corpus   fixed modules (ignored-only, directives, broken conf, compile error, related information,
           test variants, useless directive of an unselected check, exit code 2 paths)
  binmerge `staticcheck -merge` of the real binary
"""
import json
import os
import re
import shutil
import threading
import unicodedata
import urllib.parse
from concurrent.futures import ThreadPoolExecutor

import vlib

MODULES = ["Verif.C11.Theorems", "Verif.C11.FormatTheorems", "Verif.C11.PackageTheorems"]
THEOREMS = [
    "Verif.C11.selection_spec",
    "Verif.C11.lastMatch_iff",
    "Verif.C11.all_names_everything",
    "Verif.C11.cat_glob_exact",
    "Verif.C11.prefix_glob",
    "Verif.C11.exact_name",
    "Verif.C11.negation",
    "Verif.C11.case_insensitive",
    "Verif.C11.mergeLists_eq_splice",
    "Verif.C11.merge_assoc",
    "Verif.C11.inherit_splice",
    "Verif.C11.cmdline_is_innermost",
    "Verif.C11.unset_inherits",
    "Verif.C11.effective_selection",
    "Verif.C11.no_unresolved_inherit",
    "Verif.C11.printed_eq_restrict",
    "Verif.C11.printed_spec",
    "Verif.C11.lintPackage_spec",
    "Verif.C11.exit_spec",
    "Verif.C11.exit_zero_or_one",
    "Verif.C11.sarif_exits_zero",
    "Verif.C11.shown_spec",
    # formatters (FormatTheorems.lean)
    "Verif.C11.shown_problems_spec",
    "Verif.C11.severity_spec",
    "Verif.C11.ignored_only_with_show_ignored",
    "Verif.C11.text_extract",
    "Verif.C11.stylish_extract",
    "Verif.C11.json_extract",
    "Verif.C11.json_severity_spec",
    "Verif.C11.sarif_extract",
    "Verif.C11.sarif_related_ids",
    "Verif.C11.sarif_suppression_spec",
    "Verif.C11.sarif_rules_sorted",
    "Verif.C11.formats_agree",
    "Verif.C11.formats_same_problems",
    "Verif.C11.stylish_stats_spec",
    "Verif.C11.exit_from_counts",
    "Verif.C11.exit_code_spec",
    # per-package configuration and directive problems (PackageTheorems.lean)
    "Verif.C11.tree_config_is_fold",
    "Verif.C11.package_selection",
    "Verif.C11.conf_scope",
    "Verif.C11.inner_conf_overrides",
    "Verif.C11.variants_same_config",
    "Verif.C11.only_cached_default",
    "Verif.C11.lintPackage_full_spec",
    "Verif.C11.unselected_directive_silent",
    "Verif.C11.printed_restricted_full",
]
FORMATS = ["text", "stylish", "json", "sarif"]
SPECIAL = ("staticcheck", "compile", "config")
CORPUS = os.path.join(vlib.VERIF, "corpus", "C11")
PKGS = ["", "a", "a/b"]          # packages of the fixture, relative to the module root


# =========================================================================== oracle
# The documented algebra, evaluated independently of the Lean model
# (website/content/docs/configuration/{_index,options}.md, comments of filterAnalyzerNames).

# --- the alphabet: ASCII plus the non-ASCII characters of the tables of Model.lean. The three
# implementations of "is a number" / "lower case" (Go library, Lean tables, this oracle) are
# compared on every character of the alphabet at the start of every run (phase chars).
NUMBER_CHARS = "\u0663\u00b2\u00bd\u2167\u2177\uff15\u09ea\u3007"
LOWER_PAIRS = {"\u00c9": "\u00e9", "\u00c4": "\u00e4", "\u03a3": "\u03c3", "\u0130": "i", "\u212a": "k",
               "\u01c5": "\u01c6", "\u2167": "\u2177", "\uff21": "\uff41", "\u1e9e": "\u00df"}
PLAIN_CHARS = "\u00e9\u00e4\u03c3\u03c2\u0131\u01c6\uff41\u00df\u4e2d\u0390\u0149"
ALPHABET = [chr(i) for i in range(0x20, 0x7f)] + sorted(set(NUMBER_CHARS) | set(LOWER_PAIRS) | set(LOWER_PAIRS.values()) | set(PLAIN_CHARS))
ALPHABET_SET = frozenset(ALPHABET)


def o_isnum(c):
    """unicode.IsNumber = general category N* (Nd, Nl, No)."""
    return unicodedata.category(c).startswith("N")


def o_lower_char(c):
    """unicode.ToLower: the simple (one code point) lower case mapping."""
    x = c.lower()
    return x[0] if x else c


def o_lower(s):
    return "".join(o_lower_char(c) for c in s)


def o_category(name):
    for i, c in enumerate(name):
        if o_isnum(c):
            return name[:i]
    return name


def o_names(body, name, known):
    """does list entry `body` (no leading '-', lower case) name check `name`?"""
    if body in ("*", "all"):
        return name in known
    if body.endswith("*"):
        pre = body[:-1]
        if name not in known:
            return False
        if not any(o_isnum(c) for c in pre):
            return o_category(name) == pre          # S* names S1000, not SA1000
        return name.startswith(pre)
    return name == body


def o_allowed(sel, name, known_lower):
    """last entry naming `name` decides; nothing names it => not allowed."""
    name = o_lower(name)
    verdict = False
    for e in sel:
        e = o_lower(e)
        on = True
        if len(e) > 1 and e[0] == "-":
            on, e = False, e[1:]
        if o_names(e, name, known_lower):
            verdict = on
    return verdict


def o_splice(parent, l):
    out = []
    for e in l:
        if e == "inherit":
            out += parent
        else:
            out.append(e)
    return out


def o_resolve(dflt, levels_innermost_first, cmd):
    """outermost file first; unset / missing inherits; the command line is innermost."""
    cur = dflt
    for lv in reversed(levels_innermost_first):
        if lv["kind"] == "set":
            cur = o_splice(cur or [], lv["checks"])
    if cmd is not None:
        cur = o_splice(cur or [], cmd)
    return cur


def o_exit(fmt, live, fail, known_lower):
    """live: categories of the printed problems that are not ignored."""
    if fmt == "sarif":
        return 0
    for cat in live:
        if o_lower(cat) in SPECIAL or o_allowed(fail, cat, known_lower):
            return 1
    return 0


def flag_list(val):
    """lintcmd's `list` flag: None = flag not given."""
    if val is None:
        return None
    if val == "":
        return []
    return [e.strip() for e in val.split(",")]


# =========================================================================== model protocol

def xn(s):
    return "x" + s.encode().hex()


def xl(l):
    return "L:" + ",".join(xn(s) for s in l)


def xc(c):
    return "N" if c is None else xl(c)


def xlevel(lv):
    k = lv["kind"]
    if k in ("absent", "dir"):
        return "A"
    if k in ("empty", "other"):
        return "CN"
    if k == "set":
        return "C" + xl(lv["checks"])
    raise vlib.HarnessError("bad level kind %r" % k)


def un_xc(tok):
    if tok == "N":
        return None
    if not tok.startswith("L:"):
        raise vlib.HarnessError("bad model output " + tok)
    body = tok[2:]
    if body == "":
        return []
    return [bytes.fromhex(t[1:]).decode() for t in body.split(",")]


# =========================================================================== output parsers
# every format is parsed back to a sorted list of (file, line, col, code, message)

def canon_file(f, cwd):
    if f in ("", "-"):
        return ""
    return os.path.normpath(os.path.join(cwd, f))


TEXT_TAIL = re.compile(r" \((\S+)\)$")


def parse_text(out, cwd):
    res = []
    pending = None
    for line in out.split("\n"):
        if line.startswith("\t"):          # related information
            continue
        if pending is None and line == "":
            continue
        pending = line if pending is None else pending + "\n" + line
        if not TEXT_TAIL.search(line):
            continue                       # message continues on the next line
        rec, pending = pending, None
        m = re.match(r"^(.*?):(\d+):(\d+): (.*) \((\S+)\)$", rec, re.S)
        if m and "\n" not in m.group(1):
            res.append((canon_file(m.group(1), cwd), int(m.group(2)), int(m.group(3)), m.group(5), m.group(4)))
            continue
        m = re.match(r"^(.*?): (.*) \((\S+)\)$", rec, re.S)
        if not m:
            raise ValueError("text line not understood: %r" % rec)
        res.append((canon_file(m.group(1), cwd), 0, 0, m.group(3), m.group(2)))
    if pending is not None:
        raise ValueError("text output ends inside a problem: %r" % pending)
    return sorted(res)


def parse_stylish(out, cwd):
    res = []
    cur_file = None
    prev = "blank"
    for line in out.split("\n"):
        if line.startswith(" ✖"):
            prev = "stats"
            continue
        if line == "":
            prev = "blank"
            continue
        m = re.match(r"^  \((\d+), (\d+)\)\s+(\S+)\s+(.*)$", line)
        if m and cur_file is not None:
            res.append([cur_file, int(m.group(1)), int(m.group(2)), m.group(3), m.group(4)])
            prev = "diag"
            continue
        if line.startswith("    ("):       # related information
            continue
        if prev == "diag":                 # continuation of a multi-line message
            res[-1][4] += "\n" + line
            continue
        cur_file = canon_file(line, cwd)
        prev = "header"
    return sorted(tuple(r) for r in res)


def parse_json(out, cwd):
    res = []
    sev = {}
    for line in out.split("\n"):
        if not line.strip():
            continue
        j = json.loads(line)
        loc = j["location"]
        t = (canon_file(loc["file"], cwd), loc["line"], loc["column"], j["code"], j["message"])
        res.append(t)
        sev[t] = j.get("severity", "")
    return sorted(res), sev


def parse_sarif(out, cwd):
    j = json.loads(out)
    res = []
    for r in j["runs"][0].get("results") or []:
        pl = r["locations"][0]["physicalLocation"]
        al = pl.get("artifactLocation", {})
        uri = al.get("uri", "")
        if uri.startswith("file://"):
            f = urllib.parse.unquote(urllib.parse.urlparse(uri).path)
        else:
            f = urllib.parse.unquote(uri)
        reg = pl.get("region", {})
        msg = r["message"]["text"]
        k = msg.find("\n\t[")               # related information appended to the text
        if k >= 0 and r.get("relatedLocations"):
            msg = msg[:k]
        res.append((canon_file(f, cwd), reg.get("startLine", 0), reg.get("startColumn", 0), r["ruleId"], msg))
    return sorted(res)


def parse_output(fmt, out, cwd):
    """-> (sorted tuples, json severities or None)"""
    if fmt == "text":
        return parse_text(out, cwd), None
    if fmt == "stylish":
        return parse_stylish(out, cwd), None
    if fmt == "json":
        return parse_json(out, cwd)
    if fmt == "sarif":
        return parse_sarif(out, cwd), None
    raise vlib.HarnessError("format " + fmt)



# =========================================================================== structured parsers
# Every format is also parsed into the *abstract rendering* of Verif/C11/Format.lean, written
# exactly as c11driver writes it (showRendering): a list of item strings. Names are "x"+hex.

def hx(s):
    return "x" + s.encode().hex()


def short_path(path, cwd):
    """mirror of lintcmd.shortPath: relative to cwd if that is shorter (filepath.Rel fails for
    relative or empty paths, which are then kept)."""
    if path == "" or not cwd or not os.path.isabs(path):
        return path
    rel = os.path.relpath(path, cwd)
    return rel if len(rel) < len(path) else path


def split_pos(body):
    """`<relativePositionString>: <message>` -> (canonical PosStr, message)"""
    m = re.match(r"^(\d+):(\d+): (.*)$", body, re.S)
    if m:
        return "l:%d:%d" % (int(m.group(1)), int(m.group(2))), m.group(3)
    m = re.match(r"^(.*?):(\d+):(\d+): (.*)$", body, re.S)
    if m and "\n" not in m.group(1):
        return "q:%s:%d:%d" % (hx(m.group(1)), int(m.group(2)), int(m.group(3))), m.group(4)
    if body.startswith("-: "):
        return "-", body[3:]
    m = re.match(r"^(.*?): (.*)$", body, re.S)
    if not m:
        raise ValueError("text line without position: %r" % body)
    return "f:" + hx(m.group(1)), m.group(2)


def struct_text(out, has_build=False):
    items = []
    pending = None
    for line in out.split("\n"):
        if pending is None and line.startswith("\t"):
            pos, msg = split_pos(line[1:])
            items.append("R~%s~%s" % (pos, hx(msg)))
            continue
        if pending is None and line == "":
            continue
        pending = line if pending is None else pending + "\n" + line
        if not TEXT_TAIL.search(line):
            continue
        rec, pending = pending, None
        m = re.match(r"^(.*) \((\S+)\)$", rec, re.S)
        pos, msg = split_pos(m.group(1))
        build = ""
        if has_build:
            mb = re.match(r"^(.*) \[([^\]\s]+)\]$", msg, re.S)
            if mb:
                msg, build = mb.group(1), mb.group(2)
        items.append("P~%s~%s~%s~%s" % (pos, hx(msg), hx(build), hx(m.group(2))))
    if pending is not None:
        raise ValueError("text output ends inside a problem: %r" % pending)
    return items


STYLISH_STATS = re.compile(r"^ ✖ (\d+) problems \((\d+) errors, (\d+) warnings, (\d+) ignored\)$")


def struct_stylish(out):
    """-> (items, stats or None); blank lines are kept only where a header follows."""
    raw = []
    stats = None
    prev = "blank"
    for line in out.split("\n"):
        m = STYLISH_STATS.match(line)
        if m:
            stats = tuple(int(x) for x in m.groups())
            prev = "stats"
            continue
        if line == "":
            raw.append(["B"])
            prev = "blank"
            continue
        m = re.match(r"^  \((\d+), (\d+)\)\s+(\S+)\s+(.*)$", line)
        if m:
            raw.append(["W", int(m.group(1)), int(m.group(2)), m.group(3), m.group(4)])
            prev = "row"
            continue
        m = re.match(r"^    \((\d+), (\d+)\)\s+(.*)$", line)
        if m:
            raw.append(["L", int(m.group(1)), int(m.group(2)), m.group(3)])
            prev = "row"
            continue
        if prev == "row":                  # continuation of a multi-line message
            raw[-1][-1] += "\n" + line
            continue
        raw.append(["H", line])
        prev = "header"
    items = []
    for i, r in enumerate(raw):
        if r[0] == "B":
            if i + 1 < len(raw) and raw[i + 1][0] == "H" and items:
                items.append("B")
        elif r[0] == "H":
            items.append("H~" + hx(r[1]))
        elif r[0] == "W":
            items.append("W~%d~%d~%s~%s" % (r[1], r[2], hx(r[3]), hx(r[4])))
        else:
            items.append("L~%d~%d~%s" % (r[1], r[2], hx(r[3])))
    return items, stats


def struct_json(out):
    items = []
    objs = []
    for line in out.split("\n"):
        if not line.strip():
            continue
        j = json.loads(line)
        objs.append(j)
        loc, end = j["location"], j["end"]
        rels = ";".join("%s:%d:%d:%s:%d:%d:%s" % (hx(r["location"]["file"]), r["location"]["line"], r["location"]["column"],
                                                 hx(r["end"]["file"]), r["end"]["line"], r["end"]["column"], hx(r["message"]))
                        for r in j.get("related") or [])
        items.append("O~%s~%s~%s~%d~%d~%s~%d~%d~%s~%s" % (hx(j["code"]), hx(j.get("severity", "")), hx(loc["file"]), loc["line"], loc["column"],
                                                          hx(end["file"]), end["line"], end["column"], hx(j["message"]), rels))
    return items, objs


def sarif_aloc(al):
    uri = al.get("uri", "")
    if uri.startswith("file://"):
        path = urllib.parse.unquote(urllib.parse.urlparse(uri).path)
    else:
        path = urllib.parse.unquote(uri)
    return path, 1 if al.get("uriBaseId") == "%SRCROOT%" else 0


def sarif_region(reg):
    return (reg.get("startLine", 0), reg.get("startColumn", 0), reg.get("endLine", 0), reg.get("endColumn", 0))


def struct_sarif(out):
    j = json.loads(out)
    if len(j["runs"]) != 1:
        raise ValueError("SARIF log with %d runs" % len(j["runs"]))
    run = j["runs"][0]
    rules = [r["id"] for r in run["tool"]["driver"].get("rules") or []]
    items = ["U~" + ",".join(hx(r) for r in rules)]
    for r in run.get("results") or []:
        if len(r["locations"]) != 1:
            raise ValueError("SARIF result with %d locations" % len(r["locations"]))
        pl = r["locations"][0]["physicalLocation"]
        path, base = sarif_aloc(pl.get("artifactLocation", {}))
        reg = sarif_region(pl.get("region", {}))
        rels = []
        for rl in r.get("relatedLocations") or []:
            rpl = rl["physicalLocation"]
            rpath, rbase = sarif_aloc(rpl.get("artifactLocation", {}))
            rels.append("%d:%s:%s:%d:%d:%d:%d:%d" % ((rl.get("id", 0), hx(rl["message"]["text"]), hx(rpath), rbase) + sarif_region(rpl.get("region", {}))))
        if "suppressions" not in r or r["suppressions"] is None:
            supp = "?"
        elif not r["suppressions"]:
            supp = "-"
        else:
            supp = ",".join(hx(x.get("kind", "")) for x in r["suppressions"])
        items.append("X~%s~%s~%s~%d~%d~%d~%d~%d~%s~%s" % ((hx(r["ruleId"]), hx(r["message"]["text"]), hx(path), base) + reg + (supp, ";".join(rels))))
    return items


def struct_output(fmt, out, has_build=False):
    """-> (items, stylish stats or None, json objects or None)"""
    if fmt == "text":
        return struct_text(out, has_build), None, None
    if fmt == "stylish":
        it, st = struct_stylish(out)
        return it, st, None
    if fmt == "json":
        it, objs = struct_json(out)
        return it, None, objs
    if fmt == "sarif":
        return struct_sarif(out), None, None
    raise vlib.HarnessError("format " + fmt)


def unhx(t):
    return bytes.fromhex(t[1:]).decode()


def flatten_items(fmt, items):
    """order-insensitive view of a rendering: one string per problem (with what belongs to it)"""
    out = []
    if fmt == "text":
        for it in items:
            if it.startswith("R~") and out:
                out[-1] += "|" + it
            else:
                out.append(it)
    elif fmt == "stylish":
        cur = ""
        for it in items:
            if it == "B":
                continue
            if it.startswith("H~"):
                cur = it
            elif it.startswith("L~") and out:
                out[-1] += "|" + it
            else:
                out.append(cur + "|" + it)
    else:
        out = list(items)
    return sorted(out)


def compare_rendering(fmt, real_items, model_items):
    if real_items == model_items:
        return "equal", None
    fr, fm = flatten_items(fmt, real_items), flatten_items(fmt, model_items)
    if fr == fm:
        return "order", None
    only_r = [x for x in fr if x not in fm]
    only_m = [x for x in fm if x not in fr]
    return "differ", {"only_in_real_output": only_r[:4], "only_in_model_rendering": only_m[:4]}


def describe_item(it):
    """an item string with the hex names decoded (for replay files)"""
    def dec(tok):
        if re.fullmatch(r"x([0-9a-f]{2})*", tok):
            try:
                return repr(unhx(tok))
            except (ValueError, UnicodeDecodeError):
                return tok
        return tok
    return re.sub(r"x(?:[0-9a-f]{2})*", lambda m: dec(m.group(0)), it)


def fields_by_problem(fmt, items, cwd):
    """per problem key (short file, line, col, code, message): the fields this format shows"""
    res = {}
    if fmt == "text":
        cur = None
        for it in items:
            f = it.split("~")
            pos = f[1].split(":")
            if pos[0] == "-":
                loc = ("", 0, 0)
            elif pos[0] == "f":
                loc = (unhx(pos[1]), 0, 0)
            elif pos[0] == "l":
                loc = ("", int(pos[1]), int(pos[2]))
            else:
                loc = (unhx(pos[1]), int(pos[2]), int(pos[3]))
            if f[0] == "P":
                cur = (loc[0], loc[1], loc[2], unhx(f[4]), unhx(f[2]))
                res[cur] = {"related": []}
            elif cur is not None:
                res[cur]["related"].append((loc[1], loc[2], unhx(f[2])))
    elif fmt == "stylish":
        cur, hdr = None, ""
        for it in items:
            f = it.split("~")
            if f[0] == "H":
                hdr = unhx(f[1])
                hdr = "" if hdr == "-" else short_path(hdr, cwd)
            elif f[0] == "W":
                cur = (hdr, int(f[1]), int(f[2]), unhx(f[3]), unhx(f[4]))
                res[cur] = {"related": []}
            elif f[0] == "L" and cur is not None:
                res[cur]["related"].append((int(f[1]), int(f[2]), unhx(f[3])))
    elif fmt == "json":
        for it in items:
            f = it.split("~")
            key = (short_path(unhx(f[3]), cwd), int(f[4]), int(f[5]), unhx(f[1]), unhx(f[9]))
            rel = []
            for r in [x for x in f[10].split(";") if x]:
                g = r.split(":")
                rel.append((int(g[1]), int(g[2]), unhx(g[6])))
            res[key] = {"related": rel, "end": (int(f[7]), int(f[8])), "ignored": unhx(f[2]) == "ignored", "severity": unhx(f[2])}
    elif fmt == "sarif":
        for it in items[1:]:
            f = it.split("~")
            rel = []
            suffix = ""
            for r in [x for x in f[10].split(";") if x]:
                g = r.split(":")
                rel.append((int(g[4]), int(g[5]), unhx(g[1])))
                suffix += "\n\t[%s](%s)" % (unhx(g[1]), g[0])
            text = unhx(f[2])
            msg = text[:len(text) - len(suffix)] if suffix and text.endswith(suffix) else text
            key = (unhx(f[3]), int(f[5]), int(f[6]), unhx(f[1]), msg)
            res[key] = {"related": rel, "end": (int(f[7]), int(f[8])), "ignored": f[9] == hx("inSource")}
    return res


def cross_format(struct, cwd, show_ignored):
    """the formats clause evaluated field by field on the real outputs alone: the four
    renderings of one run must describe the same problems with the same related information,
    JSON and SARIF the same end positions and the same ignored/suppressed problems, and the
    stylish summary must count what JSON shows. -> list of discrepancies (strings)"""
    bad = []
    per = {f: fields_by_problem(f, struct[f][0], cwd) for f in FORMATS if f in struct}
    if "json" not in per:
        return bad
    hub = per["json"]
    for f in ("text", "stylish", "sarif"):
        if f not in per:
            continue
        if sorted(per[f]) != sorted(hub):
            bad.append("%s and json show different problems: only %s %s, only json %s" % (
                f, f, sorted(set(per[f]) - set(hub))[:3], sorted(set(hub) - set(per[f]))[:3]))
            continue
        for k, v in per[f].items():
            if v["related"] != hub[k]["related"]:
                bad.append("%s: related information of %s differs between %s %s and json %s" % (k[3], k[:3], f, v["related"], hub[k]["related"]))
            if "end" in v and v["end"] != hub[k]["end"]:
                bad.append("%s: end position of %s differs between %s %s and json %s" % (k[3], k[:3], f, v["end"], hub[k]["end"]))
            if "ignored" in v and v["ignored"] != hub[k]["ignored"]:
                bad.append("%s at %s: sarif suppressed=%s but json severity %s" % (k[3], k[:3], v["ignored"], hub[k]["severity"]))
    if not show_ignored and any(v["ignored"] for v in hub.values()):
        bad.append("an ignored problem is shown without -show-ignored")
    if "stylish" in struct and struct["stylish"][1] is not None:
        total, ne, nw, ni = struct["stylish"][1]
        je = sum(1 for v in hub.values() if v["severity"] == "error")
        jw = sum(1 for v in hub.values() if v["severity"] == "warning")
        ji = sum(1 for v in hub.values() if v["severity"] == "ignored")
        if (ne, nw) != (je, jw) or (show_ignored and ni != ji) or total < ne + nw + ni:
            bad.append("stylish summary (%d problems, %d errors, %d warnings, %d ignored) but json shows %d errors, %d warnings, %d ignored"
                       % (total, ne, nw, ni, je, jw, ji))
    elif "stylish" in struct:
        bad.append("stylish output without summary line")
    return bad


# --- model side: problems on the wire of the `fmt` op of c11driver

def xprob(d):
    rel = ";".join("%s:%d:%d:%s:%d:%d:%s" % (hx(r["file"]), r["line"], r["col"], hx(r["efile"]), r["eline"], r["ecol"], hx(r["msg"]))
                   for r in d.get("related") or [])
    return "/".join([hx(d["cat"]), "1" if d["ignored"] else "0", hx(d["file"]), str(d["line"]), str(d["col"]),
                     hx(d["efile"]), str(d["eline"]), str(d["ecol"]), hx(d["msg"]), hx(d.get("build", "")), rel])


def fmt_line(fmt, show_ignored, no_compile, analyzers, fail, cwd, probs):
    files = set()
    for d in probs:
        files.add(d["file"])
        for r in d.get("related") or []:
            files.add(r["file"])
    tbl = ",".join("%s=%s" % (hx(f), hx(short_path(f, cwd))) for f in sorted(files))
    return "fmt %s %d %d %s %s S:%s P:%s" % (fmt, 1 if show_ignored else 0, 1 if no_compile else 0, xl(analyzers), xl(fail), tbl,
                                             ",".join(xprob(d) for d in probs))


def prob_of_json(j):
    """a problem of the model from an object of the real -f json output"""
    loc, end = j["location"], j["end"]
    return {"cat": j["code"], "ignored": j.get("severity") == "ignored", "file": loc["file"], "line": loc["line"], "col": loc["column"],
            "efile": end["file"], "eline": end["line"], "ecol": end["column"], "msg": j["message"], "build": "",
            "related": [{"file": r["location"]["file"], "line": r["location"]["line"], "col": r["location"]["column"],
                         "efile": r["end"]["file"], "eline": r["end"]["line"], "ecol": r["end"]["column"], "msg": r["message"]}
                        for r in j.get("related") or []]}


def parse_fmt_model(line):
    """output of the `fmt` op -> (exit, (total, errors, warnings, ignored), items)"""
    t = line.split(" ")
    if len(t) != 6:
        raise vlib.HarnessError("bad fmt output of the model: " + line[:200])
    items = [] if t[5] == "-" else t[5].split("|")
    return int(t[0]), (int(t[1]), int(t[2]), int(t[3]), int(t[4])), items


def positions_wellformed(objs):
    """hypothesis `Problem.wf` of formats_agree, probed on real JSON objects: a position
    without line has no column; no file is called `-`."""
    for j in objs:
        ps = [j["location"]] + [r["location"] for r in j.get("related") or []]
        for p in ps:
            if p["line"] == 0 and p["column"] != 0:
                return False
        if j["location"]["file"] == "-":
            return False
    return True

# =========================================================================== generators

REAL_CATS_HINT = ["S", "SA", "ST", "U", "QF"]


def flip_case(rng, s):
    r = rng.below(100)
    if r < 75:
        return s
    if r < 85:
        return s.lower()
    if r < 92:
        return s.upper()
    return s.swapcase()


FOLD_CLASSES = {}
for _c in ALPHABET:
    FOLD_CLASSES.setdefault(o_lower_char(_c), []).append(_c)


def alpha_flip(rng, s):
    """change the case of some characters, staying inside the alphabet (all variants of a
    character that have the same lower case: k K KELVIN SIGN, i I I-WITH-DOT, ...)"""
    if rng.below(100) < 70:
        return s
    return "".join(rng.choice(FOLD_CLASSES[o_lower_char(c)]) if rng.chance(1, 2) else c for c in s)


UNI_POOL = ["SA\u0663", "S\u00c91", "\u212a9", "\u0130X1", "Q\u00b2", "R\u2167x", "\u00e9t\u00e91", "S\uff15", "\u4e2d1", "SA1000", "S1000",
            "s\u00e92", "IX1", "\u03a3\u03c31", "\u01c51", "\uff21\uff411", "S\u09ea0", "T\u30071", "\u1e9e1", "SA\u00bd", "K9", "\u03c21",
            "\u0131x1", "\u00df1", "SA\u2177", "\u00c4\u00e4", "Q2", "S\u00b2"]


def gen_uni_universe(rng):
    n = 3 + rng.below(9)
    names, seen = [], set()
    for c in rng.shuffle(UNI_POOL):
        if o_lower(c) in seen:
            continue
        seen.add(o_lower(c))
        names.append(c)
        if len(names) == n:
            break
    return names


def gen_entry(rng, names, inherit_ok, hist, flip=None):
    flip_fn = flip or flip_case
    cats = sorted({o_category(n) for n in names} | {"S", "SA"})
    r = rng.below(100)
    if r < 12:
        body, kind = "all", "all"
    elif r < 16:
        body, kind = "*", "all"
    elif r < 33:
        body, kind = rng.choice(cats) + "*", "catglob"
    elif r < 38:
        body, kind = rng.choice(["T", "SB", "Q", "X", "SAA", "s", "all"]) + "*", "catglob-odd"
    elif r < 56:
        n = rng.choice(names)
        ds = [i for i, c in enumerate(n) if o_isnum(c)]
        if ds:
            cut = ds[0] + 1 + rng.below(len(n) - ds[0])
            body, kind = n[:cut] + "*", "prefixglob"
        else:
            body, kind = n + "*", "catglob"
    elif r < 80:
        body, kind = rng.choice(names), "exact"
    elif r < 88:
        body, kind = rng.choice(["XX999", "foo", "S9999", "SA", "S", "1000", "compile", "staticcheck", "config", "U1", "Inherit"]), "unknown"
    elif r < 92:
        body, kind = rng.choice(["", "-", "**", "S**", "*S", "a*l", "all*", "-*", "S1*0"]), "odd"
    else:
        body, kind = ("inherit", "inherit") if inherit_ok else ("all", "all")
    if kind != "inherit" or rng.chance(1, 10):
        body = flip_fn(rng, body)
    neg = rng.chance(35, 100)
    if neg:
        body = "-" + body
    hist[kind + ("-neg" if neg else "")] = hist.get(kind + ("-neg" if neg else ""), 0) + 1
    return body


def gen_list(rng, names, inherit_ok, hist, maxlen=6, flip=None):
    n = rng.choice([0, 1, 1, 2, 2, 3, 3, 4, 5, maxlen])
    l = [gen_entry(rng, names, inherit_ok, hist, flip) for _ in range(n)]
    if inherit_ok and l and rng.chance(1, 3):
        l[0] = "inherit"
    if len(l) >= 2 and rng.chance(1, 6):      # adjacent duplicate (normalizeList)
        i = rng.below(len(l) - 1)
        l[i + 1] = l[i]
    return l


def cmdline_value(l):
    """a list as the value of -checks= / -fail=; entries never contain commas."""
    return ",".join(l)


def gen_levels(rng, names, hist, n):
    levels = []
    for _ in range(n):
        r = rng.below(100)
        if r < 35:
            lv = {"kind": "absent"}
        elif r < 42:
            lv = {"kind": "empty"}
        elif r < 50:
            lv = {"kind": "other"}
        elif r < 53:
            lv = {"kind": "dir"}
        else:
            lv = {"kind": "set", "checks": gen_list(rng, names, True, hist)}
        hist["level-" + lv["kind"]] = hist.get("level-" + lv["kind"], 0) + 1
        levels.append(lv)
    return levels


FAKE_POOL = ["S1000", "S1001", "S1002", "S1016", "SA1000", "SA1001", "SA1019", "SA2000", "SA4000", "SA4006",
             "SA40061", "ST1000", "ST1003", "U1000", "QF1001", "QF1010", "S10", "SA", "X", "Sa1000x", "S1000A",
             "T1", "s2000", "SAB1", "S2", "A0"]


def gen_universe(rng):
    n = 3 + rng.below(10)
    names = []
    seen = set()
    for c in rng.shuffle(FAKE_POOL):
        if c.lower() in seen:
            continue
        seen.add(c.lower())
        names.append(c)
        if len(names) == n:
            break
    return names


WORDS = ["should omit comparison", "identical expressions", "x is unused", "don't use Yoda conditions",
         "value \"q\" <never> used & lost", "func (T).M is odd", "empty branch (really)", "a: b: c", "100% sure"]


# =========================================================================== helpers

class Collector:
    def __init__(self):
        self.oracle = {}     # class -> list of failing cases (property fails on the real code)
        self.model = {}      # class -> list (model differs from the implementation)
        self.internal = []   # model differs from the oracle (our own machinery is inconsistent)

    def oracle_fail(self, cls, obj):
        self.oracle.setdefault(cls, []).append(obj)

    def model_diff(self, cls, obj):
        self.model.setdefault(cls, []).append(obj)


def probe_lines(probe, mode, arg, cases, timeout=1800, extra=None):
    inp = "".join(json.dumps(c) + "\n" for c in cases)
    cmd = [probe, mode] + ([arg] if arg else []) + (extra or [])
    rc, so, se = vlib.run(cmd, env=vlib.go_env(), input=inp, timeout=timeout)
    if rc != 0:
        raise vlib.HarnessError("c11probe %s failed (%d): %s" % (mode, rc, se[-2000:]))
    out = [json.loads(l) for l in so.splitlines() if l.strip()]
    if len(out) != len(cases):
        raise vlib.HarnessError("c11probe %s: %d results for %d cases; stderr: %s" % (mode, len(out), len(cases), se[-1000:]))
    return out


def chunks(xs, n):
    k = max(1, (len(xs) + n - 1) // n)
    return [xs[i:i + k] for i in range(0, len(xs), k)]



# =========================================================================== phase 0: the alphabet

def phase_chars(ctx, probe, cov):
    """hypothesis of the model (probed): on every character of the alphabet `isNumber` /
    `toLowerChar` of Model.lean are unicode.IsNumber / unicode.ToLower of the Go library (and
    of the oracle). A difference is a defect of the machinery or of its environment (a new
    Unicode version), not of /repo."""
    cps = [ord(c) for c in ALPHABET]
    rc, so, se = vlib.run([probe, "chars"], env=vlib.go_env(), input=" ".join(str(c) for c in cps) + "\n", timeout=600)
    if rc != 0:
        raise vlib.HarnessError("c11probe chars failed: " + se[-1000:])
    go = so.split()
    lean = vlib.run_model(ctx, "C11", ["chars " + " ".join(str(c) for c in cps)])[0].split()
    if len(go) != len(cps) or len(lean) != len(cps):
        raise vlib.HarnessError("chars: %d/%d answers for %d characters" % (len(go), len(lean), len(cps)))
    for c, g, l in zip(ALPHABET, go, lean):
        o = "%d:%d" % (1 if o_isnum(c) else 0, ord(o_lower_char(c)))
        if not (g == l == o):
            raise vlib.HarnessError("U+%04X: Go library says %s, Lean tables say %s, oracle says %s (isNumber:lower)" % (ord(c), g, l, o))
    cov["chars"] = {"alphabet": len(cps), "non_ascii": len([c for c in cps if c > 127]),
                    "numbers": len([c for c in ALPHABET if o_isnum(c)]), "with_lower_case": len([c for c in ALPHABET if o_lower_char(c) != c])}
    return len(cps)


def in_alphabet(*lists):
    for l in lists:
        for s in l or []:
            if not set(s) <= ALPHABET_SET:
                return False
    return True


# =========================================================================== phase S: the real filterAnalyzerNames

def entry_bodies(sel):
    out = set()
    for e in sel:
        e = o_lower(e)
        if len(e) > 1 and e[0] == "-":
            e = e[1:]
        out.add(e)
    return out


def o_true_set(all_names, sel):
    known = frozenset(o_lower(n) for n in all_names)
    return sorted(k for k in known | entry_bodies(sel) if o_allowed(sel, k, known))


def phase_sel(ctx, probe, real_names, default_checks, col, cov, replay_cases=None):
    """the real lintcmd.filterAnalyzerNames (with the real makeCaseFoldedStrings), called
    in-process through go:linkname, on every generated list: the set of keys it maps to true
    against `selmap` of the model and against the oracle."""
    rng = vlib.SplitMix(ctx.seed).fork("C11/sel")
    hist = {}
    if replay_cases is not None:
        cases = replay_cases
    else:
        cases = [
            {"all": ["S1000", "SA1000", "ST1000"], "sel": ["S*"]},
            {"all": ["S1000", "SA1000", "ST1000"], "sel": ["all", "-S*"]},
            {"all": ["S1000", "SA1000", "SA1001", "SA2000"], "sel": ["SA1*", "-sa1000", "SA1000"]},
            {"all": real_names, "sel": list(default_checks)},
            {"all": real_names, "sel": ["inherit", "-ST*", "st1000", "*", "-*"]},
            {"all": ["SA٣", "SÉ1", "K9", "İX1"], "sel": ["sa*", "sé*", "K*", "ix1"]},
            {"all": ["Q²", "RⅧx", "S½"], "sel": ["q*", "r*", "-s*", "Rⅷ*"]},
            {"all": ["S1000"], "sel": ["-", "", "--", "-*", "S1000"]},
        ]
        n = 12000 if ctx.quick else 150000
        for _ in range(n):
            r = rng.below(100)
            flip = None
            if r < 10:
                names, kind = real_names, "real"
            elif r < 60:
                names, kind = gen_universe(rng), "fake-ascii"
            else:
                names, kind = gen_uni_universe(rng), "non-ascii"
                flip = alpha_flip
            hist["universe-" + kind] = hist.get("universe-" + kind, 0) + 1
            cases.append({"all": names, "sel": gen_list(rng, names, False, hist, maxlen=8, flip=flip)})
        for i, c in enumerate(cases):
            c["id"] = i
    for c in cases:
        if not in_alphabet(c["all"], c["sel"]):
            raise vlib.HarnessError("generated a name outside the alphabet: %r" % c)
    parts = chunks(cases, min(8, vlib.NCPU))
    with ThreadPoolExecutor(max_workers=len(parts)) as ex:
        results = [r for part in ex.map(lambda p: probe_lines(probe, "sel", None, p), parts) for r in part]
    lines = ["selmap %s %s" % (xl(c["all"]), xl(c["sel"])) for c in cases]
    model = vlib.run_model(ctx, "C11", lines)
    nontrivial = set()
    nonascii_cases = 0
    for c, r, m, line in zip(cases, results, model, lines):
        if m == "bad-op":
            raise vlib.HarnessError("model rejected: " + line[:300])
        mtrue = sorted(un_xc(m))
        impl = sorted(r["true"])
        spec = o_true_set(c["all"], c["sel"])
        ascii_case = all(ord(ch) < 128 for s in c["all"] + c["sel"] for ch in s)
        nonascii_cases += 0 if ascii_case else 1
        if mtrue != spec:
            col.internal.append({"phase": "sel", "case": c, "model_true": mtrue, "oracle_true": spec})
        if impl != spec:
            rec = {"phase": "sel", "case": {"all": c["all"], "sel": c["sel"]}, "impl_true": impl, "documented_true": spec,
                   "selected_differently": sorted(set(impl) ^ set(spec))[:20],
                   "what": "filterAnalyzerNames(%r) over %d analyzers selects %s differently from the documented algebra"
                           % (c["sel"], len(c["all"]), sorted(set(impl) ^ set(spec))[:8])}
            if ascii_case:
                col.oracle_fail("sel-selection", rec)
            else:
                col.model_diff("sel-nonascii", rec)
        known = frozenset(o_lower(n) for n in c["all"])
        t = sum(1 for k in known if k in spec)
        if 0 < t < len(known) and len(c["sel"]) >= 2:
            nontrivial.add(line)
    cov["sel"] = {"cases": len(cases), "nontrivial": len(nontrivial), "non_ascii_cases": nonascii_cases, "histogram": hist,
                  "sample": [{"input": {"all": cases[i]["all"][:12], "sel": cases[i]["sel"]}, "impl_true": results[i]["true"][:12]} for i in (1, 5, len(cases) - 1)]}
    return len(cases), len(nontrivial)


# =========================================================================== phase T: directory trees and packages

COMPONENTS = ["mod", "a", "b", "c", "int", "x"]


def gen_tree_case(rng, real_names, default_checks, hist):
    dirs = {()}
    for _ in range(1 + rng.below(3)):
        pth = [rng.choice(COMPONENTS) for _ in range(1 + rng.below(4))]
        for i in range(1, len(pth) + 1):
            dirs.add(tuple(pth[:i]))
    dirs = sorted(dirs)
    real = rng.chance(3, 10)
    names = real_names if real else gen_universe(rng)
    confs = []
    for d in dirs:
        r = rng.below(100)
        if r < 42:
            continue
        if r < 49:
            lv = {"kind": "empty"}
        elif r < 56:
            lv = {"kind": "other"}
        elif r < 59:
            lv = {"kind": "dir"}
        else:
            lv = {"kind": "set", "checks": gen_list(rng, names, True, hist)}
        hist["level-" + lv["kind"]] = hist.get("level-" + lv["kind"], 0) + 1
        confs.append(dict(lv, dir=list(d)))
    pkgs = []
    for _ in range(1 + rng.below(4)):
        d = list(rng.choice(dirs))
        if rng.chance(1, 5):
            d = d + [rng.choice(["leaf", "sub"])]            # a directory without configuration of its own
        files = []
        if rng.chance(3, 10):
            files += [{"dir": [], "cache": True} for _ in range(1 + rng.below(2))]
        if rng.chance(8, 100):
            files = files or [{"dir": [], "cache": True}]
            shape = "only-cached"
        else:
            files += [{"dir": d, "cache": False} for _ in range(1 + rng.below(3))]
            shape = "plain" if len(files) == sum(1 for f in files if not f["cache"]) else "cached-first"
            if rng.chance(15, 100):
                files.append({"dir": list(rng.choice(dirs)), "cache": False})
                shape = "several-dirs"
            if rng.chance(1, 5):
                files.append({"dir": [], "cache": True})
        hist["pkg-" + shape] = hist.get("pkg-" + shape, 0) + 1
        pkgs.append({"files": files})
    r = rng.below(100)
    if r < 60:
        dflt = list(default_checks) if real else ["all"] + ["-" + n for n in names[:2]]
    elif r < 85:
        dflt = gen_list(rng, names, False, hist)
    elif r < 95:
        dflt = None
    else:
        dflt = ["all"]
    r = rng.below(100)
    if r < 30:
        cmd = ["inherit"]
    elif r < 40:
        cmd = None
    else:
        cmd = gen_list(rng, names, True, hist)
    return {"all": names, "dflt": dflt, "cmd": cmd, "confs": confs, "pkgs": pkgs}


def xdir(d):
    return "D:" + ",".join(xn(c) for c in d)


def o_config_dir(files):
    for f in files:
        if not f["cache"]:
            return f["dir"]
    return None


def o_tree_effective(case, files):
    """documented: the files from the outermost directory down to the package directory, then -checks"""
    d = o_config_dir(files)
    cur = case["dflt"]
    if d is not None:
        conf = {tuple(c["dir"]): c for c in case["confs"]}
        for i in range(0, len(d) + 1):
            c = conf.get(tuple(d[:i]))
            if c is not None and c["kind"] == "set":
                cur = o_splice(cur or [], c["checks"])
    if case["cmd"] is not None:
        cur = o_splice(cur or [], case["cmd"])
    return cur


def phase_tree(ctx, probe, real_names, default_checks, col, cov, replay_cases=None):
    """per-package configuration lookup on generated directory trees: the real config.Analyzer
    (dirAST, Dir, Load) + Config.Merge + filterAnalyzerNames per package, against `pkg` of the
    model (packageEffective / packageAllowed) and the documented top-down fold."""
    rng = vlib.SplitMix(ctx.seed).fork("C11/tree")
    hist = {}
    if replay_cases is not None:
        cases = replay_cases
    else:
        cases = [
            {"all": ["S1000", "SA1000"], "dflt": ["all"], "cmd": ["inherit"],
             "confs": [{"dir": ["mod"], "kind": "set", "checks": ["SA*"]}, {"dir": ["mod", "a"], "kind": "set", "checks": ["inherit", "-SA1000", "S1000"]},
                       {"dir": ["mod", "b"], "kind": "set", "checks": []}],
             "pkgs": [{"files": [{"dir": [], "cache": True}, {"dir": ["mod", "a"], "cache": False}]}, {"files": [{"dir": ["mod", "b"], "cache": False}]},
                      {"files": [{"dir": ["mod", "c", "leaf"], "cache": False}]}, {"files": [{"dir": [], "cache": True}]},
                      {"files": [{"dir": ["mod", "a"], "cache": False}, {"dir": ["mod", "b"], "cache": False}]}]},
        ]
        n = 1200 if ctx.quick else 15000
        for _ in range(n):
            cases.append(gen_tree_case(rng, real_names, default_checks, hist))
        for i, c in enumerate(cases):
            c["id"] = i
    base = os.path.dirname(ctx.path("tree", "x"))
    no_conf_above(base)
    parts = chunks(cases, min(8, vlib.NCPU))

    def runpart(arg):
        k, part = arg
        return probe_lines(probe, "tree", os.path.join(base, "w%d" % k), part)

    with ThreadPoolExecutor(max_workers=len(parts)) as ex:
        results = [r for part in ex.map(runpart, list(enumerate(parts))) for r in part]
    lines, owner = [], []
    for ci, c in enumerate(cases):
        confs = " ".join("%s %s" % (xdir(cf["dir"]), xlevel(cf)) for cf in c["confs"])
        for pi, p in enumerate(c["pkgs"]):
            files = " ".join("%s %d" % (xdir(f["dir"]), 1 if f["cache"] else 0) for f in p["files"])
            lines.append(("pkg %s %s %s %d %s %d %s" % (xl(c["all"]), xc(c["dflt"]), xc(c["cmd"]), len(c["confs"]), confs, len(p["files"]), files)).replace("  ", " ").rstrip())
            owner.append((ci, pi))
    model = vlib.run_model(ctx, "C11", lines)
    nontrivial = set()
    list_mismatch = 0
    npk = 0
    for (ci, pi), m, line in zip(owner, model, lines):
        c, r = cases[ci], results[ci]["pkgs"][pi]
        files = c["pkgs"][pi]["files"]
        if m == "bad-op":
            raise vlib.HarnessError("model rejected: " + line[:300])
        npk += 1
        meff, mbits = m.split(" ")
        meff = un_xc(meff)
        err = r.get("err", "")
        rec = {"phase": "tree", "case": c, "package": pi, "files": files, "impl": r}
        if err:
            col.oracle_fail("tree-error", dict(rec, what="config.Analyzer failed on a generated tree: " + err))
            continue
        odir = o_config_dir(files)
        if (r["dir"] or None) != (None if odir is None else ("/".join(odir) or ".")):
            col.oracle_fail("tree-config-dir", dict(rec, documented_dir=odir,
                            what="config.Dir chose %r for a package whose first file outside the build cache is in %r" % (r["dir"], odir)))
            continue
        spec = o_tree_effective(c, files)
        known = frozenset(o_lower(n) for n in c["all"])
        sel_impl = [n for n in c["all"] if o_lower(n) in set(r["sel"])]
        sel_spec = [n for n in c["all"] if o_allowed(spec or [], n, known)]
        sel_model = [n for n, b in zip(c["all"], mbits[1:]) if b == "1"]
        if sel_model != sel_spec:
            col.internal.append({"phase": "tree", "case": c, "package": pi, "model_selected": sel_model, "oracle_selected": sel_spec})
        if sel_impl != sel_spec:
            col.oracle_fail("tree-selection", dict(rec, documented_effective_checks=spec, checks_selected_differently=sorted(set(sel_impl) ^ set(sel_spec))[:20],
                            what="package %d (config directory %r): effective list %r selects %s differently from the files applied outermost-first + -checks (%r)"
                                 % (pi, r["dir"], r["eff"], sorted(set(sel_impl) ^ set(sel_spec))[:6], spec)))
        if r["eff"] != meff:
            list_mismatch += 1
        d = odir or []
        chain = [cf for cf in c["confs"] if cf["kind"] == "set" and cf["dir"] == d[:len(cf["dir"])]]
        others = [cf for cf in c["confs"] if cf["kind"] == "set" and cf["dir"] != d[:len(cf["dir"])]]
        if odir is not None and ((len(chain) >= 2) or (chain and others)):
            nontrivial.add(line)
    cov["tree"] = {"cases": len(cases), "packages": npk, "nontrivial": len(nontrivial), "exact_list_differences_not_affecting_selection": list_mismatch,
                   "histogram": hist, "sample": [{"input": {k: v for k, v in cases[0].items() if k != "all"}, "impl": results[0]}]}
    return npk, len(nontrivial)


# =========================================================================== phase P: success + filterIgnored of one package

def o_lint_package(c):
    """documented: problems of allowed checks; ignored iff a directive names the check at that
    line / in that file; a directive without reason is a `compile` problem; a line directive that
    matched nothing is a `staticcheck` problem only if it names an allowed check (not U1000)."""
    known = frozenset(o_lower(n) for n in c["all"])

    def allowed(name):
        return o_allowed(c["sel"], name, known)
    kept = [d for d in c["diags"] if allowed(d["cat"])]

    def matches(g, d):
        if g["kind"] == "l":
            return d["file"] == g["file"] and d["line"] == g["line"] and o_lower(d["cat"]) in [o_lower(x) for x in g["checks"]]
        if g["kind"] == "f":
            return d["file"] == g["file"] and o_lower(d["cat"]) in [o_lower(x) for x in g["checks"]]
        return False
    out = [(d["cat"], any(matches(g, d) for g in c["dirs"]), d["file"], d["line"], d["col"]) for d in kept]
    out += [("compile", False, g["file"], g["line"], g["col"]) for g in c["dirs"] if g["kind"] == "m"]
    for g in c["dirs"]:
        if g["kind"] == "l" and not any(matches(g, d) for d in kept) and any(o_lower(x) != "u1000" and allowed(x) for x in g["checks"]):
            out.append(("staticcheck", False, g["dfile"], g["dline"], g["dcol"]))
    return sorted(out)


def phase_lintpkg(ctx, probe, col, cov, replay_cases=None):
    """the per-package part of linter.lint: the real filterAnalyzerNames -> the real success +
    filterIgnored (exported wrapper of C10) against lintPackageP of the model: the directive
    problems depend on the selection."""
    rng = vlib.SplitMix(ctx.seed).fork("C11/lintpkg")
    hist = {}
    if replay_cases is not None:
        cases = replay_cases
    else:
        cases = []
        n = 3000 if ctx.quick else 40000
        for _ in range(n):
            names = gen_universe(rng)
            if rng.chance(1, 2) and "U1000" not in names:
                names = names + ["U1000"]
            sel = gen_list(rng, names, False, hist, maxlen=5)
            diags = []
            for i in range(rng.below(7)):
                diags.append({"file": "/src/f%d.go" % rng.below(2), "line": 2 + 2 * rng.below(4), "col": 1 + i, "cat": flip_case(rng, rng.choice(names)),
                              "msg": "problem %d" % i, "sev": 0})
            dirs = []
            for i in range(rng.below(5)):
                r = rng.below(100)
                kind = "l" if r < 60 else "f" if r < 75 else "m" if r < 90 else "u"
                checks = [flip_case(rng, rng.choice(names + ["U1000", "ZZ9"])) for _ in range(1 + rng.below(2))]
                if diags and rng.chance(6, 10):
                    d = rng.choice(diags)
                    if rng.chance(2, 3):
                        checks[0] = flip_case(rng, d["cat"])
                    f, ln = d["file"], d["line"]
                else:
                    f, ln = "/src/f%d.go" % rng.below(2), 2 + 2 * rng.below(4)
                dirs.append({"kind": kind, "checks": checks, "file": f, "line": ln, "col": 1, "dfile": f, "dline": ln - 1, "dcol": 2 + i})
                hist["directive-" + kind] = hist.get("directive-" + kind, 0) + 1
            cases.append({"all": names, "sel": sel, "diags": diags, "dirs": dirs})
        for i, c in enumerate(cases):
            c["id"] = i
    parts = chunks(cases, min(8, vlib.NCPU))
    with ThreadPoolExecutor(max_workers=len(parts)) as ex:
        results = [r for part in ex.map(lambda p: probe_lines(probe, "lintpkg", None, p), parts) for r in part]
    lines = []
    for c in cases:
        probs = [{"cat": d["cat"], "ignored": False, "file": d["file"], "line": d["line"], "col": d["col"], "efile": d["file"], "eline": d["line"],
                  "ecol": d["col"], "msg": d["msg"]} for d in c["diags"]]
        dirs = ",".join("%s/%s/%s/%d/%d/%s/%d/%d" % (g["kind"], ";".join(xn(x) for x in g["checks"]), xn(g["file"]), g["line"], g["col"],
                                                   xn(g["dfile"]), g["dline"], g["dcol"]) for g in c["dirs"])
        lines.append("lintpkg %s %s P:%s G:%s P:" % (xl(c["all"]), xl(c["sel"]), ",".join(xprob(d) for d in probs), dirs))
    model = vlib.run_model(ctx, "C11", lines)
    nontrivial = set()
    for c, r, m, line in zip(cases, results, model, lines):
        if m == "bad-op":
            raise vlib.HarnessError("model rejected: " + line[:300])
        if r.get("err"):
            raise vlib.HarnessError("filterIgnored failed: " + r["err"])
        impl = sorted((d["cat"], d["ignored"], d["file"], d["line"], d["col"]) for d in r["out"])
        mod = []
        if m != "-":
            for it in m.split(","):
                f = it.split("/")
                mod.append((unhx(f[0]), f[1] == "1", unhx(f[2]), int(f[3]), int(f[4])))
        mod = sorted(mod)
        spec = o_lint_package(c)
        if mod != spec:
            col.internal.append({"phase": "lintpkg", "case": c, "model": mod, "oracle": spec})
        if impl != spec:
            missing = sorted(set(spec) - set(impl))
            extra = sorted(set(impl) - set(spec))
            col.oracle_fail("lintpkg-reported", {"phase": "lintpkg", "case": {k: v for k, v in c.items() if k != "id"}, "impl_reported": impl,
                            "documented_reported": spec, "missing": missing, "unexpected": extra,
                            "what": "success + filterIgnored with the list %r report %s in addition to / %s instead of all problems restricted to the selection (+ directive problems of selected checks)"
                                    % (c["sel"], [(t[0], t[3]) for t in extra][:5], [(t[0], t[3]) for t in missing][:5])})
        known = frozenset(o_lower(n) for n in c["all"])
        lines_dirs = [g for g in c["dirs"] if g["kind"] == "l"]
        silent = [g for g in lines_dirs if not any(o_lower(x) != "u1000" and o_allowed(c["sel"], x, known) for x in g["checks"])]
        if any(t[0] == "staticcheck" for t in spec) or (silent and len(silent) < len(lines_dirs)):
            nontrivial.add(line)
    cov["lintpkg"] = {"cases": len(cases), "nontrivial": len(nontrivial), "histogram": hist,
                      "sample": [{"input": {k: v for k, v in cases[i].items() if k != "id"}, "impl": results[i]["out"]} for i in (0, len(cases) - 1)][:2]}
    return len(cases), len(nontrivial)

# =========================================================================== phase A: config.Load

def phase_load(ctx, probe, real_names, default_checks, col, cov, replay_cases=None):
    rng = vlib.SplitMix(ctx.seed).fork("C11/load")
    hist = {}
    cases = []
    if replay_cases is not None:
        cases = replay_cases
    else:
        fixed = [
            {"dflt": default_checks, "cmd": ["inherit"], "levels": []},
            {"dflt": default_checks, "cmd": None, "levels": [{"kind": "set", "checks": ["inherit", "ST1000"]}]},
            {"dflt": default_checks, "cmd": ["inherit", "-S*"], "levels": [{"kind": "set", "checks": []}, {"kind": "set", "checks": ["SA*"]}]},
            {"dflt": ["all"], "cmd": ["inherit"], "levels": [{"kind": "set", "checks": ["inherit", "inherit", "-SA1*", "-SA1*"]}, {"kind": "absent"}, {"kind": "other"}, {"kind": "set", "checks": ["S*", "inherit"]}]},
            {"dflt": ["all"], "cmd": ["INHERIT", "-inherit"], "levels": [{"kind": "dir"}, {"kind": "set", "checks": ["-all", "Inherit"]}]},
            {"dflt": None, "cmd": ["inherit", "S1000"], "levels": [{"kind": "empty"}]},
            {"dflt": ["all", "inherit"], "cmd": None, "levels": [{"kind": "absent"}]},
        ]
        n = 600 if ctx.quick else 20000
        for c in fixed:
            cases.append(dict(c))
        for _ in range(n):
            r = rng.below(100)
            if r < 70:
                dflt = list(default_checks)
            elif r < 90:
                dflt = gen_list(rng, real_names, False, hist)
            elif r < 95:
                dflt = None
            else:
                dflt = gen_list(rng, real_names, True, hist)
            r = rng.below(100)
            if r < 30:
                cmd = ["inherit"]
            elif r < 40:
                cmd = None
            else:
                cmd = gen_list(rng, real_names, True, hist)
            cases.append({"dflt": dflt, "cmd": cmd, "levels": gen_levels(rng, real_names, hist, rng.below(6))})
        for i, c in enumerate(cases):
            c["id"] = i
    base = ctx.path("load", "x")
    base = os.path.dirname(base)
    parts = chunks(cases, min(8, vlib.NCPU))
    with ThreadPoolExecutor(max_workers=len(parts)) as ex:
        results = [r for part in ex.map(lambda p: probe_lines(probe, "load", base, p), parts) for r in part]
    lines = ["load %s %s %s" % (xc(c["dflt"]), xc(c["cmd"]), " ".join(xlevel(l) for l in c["levels"])) for c in cases]
    model = vlib.run_model(ctx, "C11", [l.rstrip() for l in lines])
    known = frozenset(n.lower() for n in real_names)
    probes = real_names + ["foo", "XX999", "inherit", "compile"]
    nontrivial = set()
    list_mismatch = 0
    for c, r, m, line in zip(cases, results, model, lines):
        if m == "bad-op":
            raise vlib.HarnessError("model rejected: " + line)
        mload, meff, mpanic = m.split(" ")
        mload, meff = un_xc(mload), un_xc(meff)
        err = r.get("err", "")
        if err.startswith("error"):
            raise vlib.HarnessError("config.Load failed on a generated tree: %s (%s)" % (err, json.dumps(c)))
        panicked = err.startswith("panic")
        if panicked or mpanic == "1":
            if panicked != (mpanic == "1"):
                col.model_diff("load-panic", {"phase": "load", "case": c, "impl": r, "model": m})
            continue
        eff = r["eff"]
        if eff != meff or r["load"] != mload:
            list_mismatch += 1
        # the observable: which checks the effective list allows
        a_impl = [o_allowed(eff or [], k, known) for k in probes]
        a_model = [o_allowed(meff or [], k, known) for k in probes]
        spec = o_resolve(c["dflt"], c["levels"], c["cmd"])
        a_spec = [o_allowed(spec or [], k, known) for k in real_names]
        if a_impl[:len(real_names)] != a_spec:
            bad = [k for k, x, y in zip(real_names, a_impl, a_spec) if x != y]
            col.oracle_fail("load-selection", {
                "phase": "load", "case": c, "impl_effective_checks": eff, "documented_effective_checks": spec,
                "checks_selected_differently": bad[:20],
                "what": "the list config.Load + Config.Merge compute selects other checks than the documented inheritance algebra"})
        elif a_impl != a_model:
            col.model_diff("load-selection", {"phase": "load", "case": c, "impl": r, "model_eff": meff})
        if a_model[:len(real_names)] != a_spec:
            col.internal.append({"phase": "load", "case": c, "model_eff": meff, "oracle_eff": spec})
        nset = sum(1 for l in c["levels"] if l["kind"] == "set")
        ninh = sum(1 for l in c["levels"] if l["kind"] == "set" and "inherit" in l["checks"])
        if nset >= 2 or ninh >= 1:
            nontrivial.add(line)
    cov["load"] = {"cases": len(cases), "nontrivial": len(nontrivial), "exact_list_differences_not_affecting_selection": list_mismatch,
                   "histogram": hist, "sample": [{"input": cases[i], "impl": results[i], "model": model[i]} for i in (0, 3, len(cases) - 1)][:3]}
    return len(cases), len(nontrivial)


# =========================================================================== phase B: in-process -merge

def gen_merge_cases(ctx, cwd):
    """problems carry end positions, related information and (some cases) build names; files lie
    in the working directory (printed relative), in a sub directory, next to it (`../`), far away
    (absolute path stays shorter) or are missing (problem without position)."""
    rng = vlib.SplitMix(ctx.seed).fork("C11/merge")
    hist = {}
    cases = []
    n = 1500 if ctx.quick else 25000
    parent = os.path.dirname(cwd)
    files = [os.path.join(cwd, "f0.go"), os.path.join(cwd, "sub", "f0.go"), os.path.join(parent, "f2.go"), "/zz9.go"]

    def diag(i, cat, sev, nopos=False, rich=True, build=""):
        if nopos:
            return {"file": "", "line": 0, "col": 0, "cat": cat, "msg": "problem %d without position" % i, "sev": sev, "build": build}
        d = {"file": files[i % 3] if not rich else rng.choice(files), "line": i + 1, "col": 1 + rng.below(9), "cat": cat,
             "msg": "problem %d %s" % (i, rng.choice(WORDS)), "sev": sev, "build": build}
        if rich and rng.chance(7, 10):
            d["has_end"] = True
            d["eline"] = d["line"] + (rng.below(3) if rng.chance(1, 4) else 0)
            d["ecol"] = d["col"] + 1 + rng.below(20)
        if rich and rng.chance(1, 5):
            d["related"] = []
            for k in range(1 + rng.below(2)):
                ln, cl = 1 + rng.below(30), 1 + rng.below(9)
                d["related"].append({"file": rng.choice([d["file"], rng.choice(files)]), "line": ln, "col": cl, "eline": ln, "ecol": cl + 1 + rng.below(8),
                                     "msg": "related %d %s" % (k, rng.choice(WORDS))})
        return d

    f0 = files[0]
    fixed = [
        {"analyzers": ["S1002", "SA4000"], "fail": None, "show_ignored": True, "diags": [diag(0, "S1002", 2, rich=False)]},
        {"analyzers": ["S1002", "SA4000"], "fail": "", "show_ignored": True, "diags": [diag(0, "S1002", 2, rich=False)]},
        {"analyzers": ["S1002", "SA4000"], "fail": "S*", "show_ignored": True, "diags": [diag(0, "S1002", 2, rich=False), diag(1, "SA4000", 0, rich=False)]},
        {"analyzers": ["S1002", "SA4000"], "fail": "S*", "show_ignored": False, "diags": [diag(0, "S1002", 2, rich=False), diag(1, "SA4000", 0, rich=False)]},
        {"analyzers": ["S1000", "SA1000"], "fail": "S*", "show_ignored": False, "diags": [diag(0, "SA1000", 0, rich=False)]},
        {"analyzers": ["S1000", "SA1000"], "fail": "-all", "show_ignored": False, "diags": [diag(0, "compile", 0, True)]},
        {"analyzers": ["S1000", "SA1000"], "fail": "all,-SA1*,sa1000", "show_ignored": False, "diags": [diag(0, "SA1000", 0, rich=False), diag(1, "S1000", 2, rich=False)]},
        # end positions, related information in another file, an ignored problem with related information
        {"analyzers": ["SA4009", "S1002"], "fail": "SA*", "show_ignored": True, "diags": [
            {"file": f0, "line": 3, "col": 8, "has_end": True, "eline": 3, "ecol": 9, "cat": "SA4009", "msg": "argument x is overwritten before first use", "sev": 0,
             "related": [{"file": f0, "line": 4, "col": 2, "eline": 4, "ecol": 7, "msg": "assignment to x"}, {"file": files[2], "line": 9, "col": 1, "eline": 10, "ecol": 2, "msg": "and here"}]},
            {"file": f0, "line": 7, "col": 5, "has_end": True, "eline": 8, "ecol": 1, "cat": "S1002", "msg": "should omit comparison", "sev": 2,
             "related": [{"file": files[1], "line": 1, "col": 1, "eline": 1, "ecol": 4, "msg": "see [this] (too)"}]}]},
        # -debug.no-compile-errors: the compile error is neither shown nor counted, the config error still fails the run
        {"analyzers": ["S1002"], "fail": "", "show_ignored": False, "no_compile": True, "diags": [diag(0, "compile", 0, True), diag(1, "S1002", 0, rich=False)]},
        {"analyzers": ["S1002"], "fail": "", "show_ignored": False, "no_compile": True, "diags": [diag(0, "compile", 0, rich=False), diag(1, "config", 0, rich=False)]},
        {"analyzers": ["S1002"], "fail": "all", "show_ignored": True, "no_compile": True, "diags": [diag(0, "compile", 2, rich=False), diag(1, "Compile", 0, rich=False)]},
        # build names
        {"analyzers": ["S1002", "SA4000"], "fail": "S1*", "show_ignored": False, "builds": True,
         "diags": [diag(0, "S1002", 0, rich=False, build="linux"), diag(1, "SA4000", 0, rich=False, build="linux,windows"), diag(2, "SA4000", 0, rich=False)]},
    ]
    for c in fixed:
        cases.append(c)
    for _ in range(n):
        names = gen_universe(rng)
        r = rng.below(100)
        if r < 12:
            fail = None
        elif r < 18:
            fail = ""
        else:
            fail = cmdline_value(gen_list(rng, names, False, hist))
        show = rng.chance(2, 5)
        builds = rng.chance(1, 10)
        no_compile = rng.chance(15, 100)

        def bn():
            return rng.choice(["", "linux", "darwin", "linux,windows"]) if builds else ""
        diags = []
        if rng.chance(1, 2):
            # map probe: one live problem per analyzer -> the whole -fail map is observable
            for i, nm in enumerate(names):
                diags.append(diag(i, nm, 0, build=bn()))
            hist["shape-map-probe"] = hist.get("shape-map-probe", 0) + 1
        else:
            k = rng.below(8)
            nopos_used = False
            for i in range(k):
                r = rng.below(100)
                if r < 66:
                    cat = flip_case(rng, rng.choice(names))
                elif r < 84:
                    cat = rng.choice(list(SPECIAL) + ["Compile", "compile"])
                else:
                    cat = rng.choice(["ZZ9", "foo", "S9999"])
                sev = 2 if rng.chance(3, 10) else 0
                nopos = (not nopos_used) and rng.chance(1, 20)
                nopos_used = nopos_used or nopos
                diags.append(diag(i, cat, sev, nopos, build=bn()))
            hist["shape-random"] = hist.get("shape-random", 0) + 1
        c = {"analyzers": names, "fail": fail, "show_ignored": show, "diags": diags}
        if builds:
            c["builds"] = True
        if no_compile:
            c["no_compile"] = True
            hist["no-compile-errors"] = hist.get("no-compile-errors", 0) + 1
        cases.append(c)
    return cases, hist


def hidden(case, d):
    return bool(case.get("no_compile")) and d["cat"] == "compile"


def merge_expected(case, known_lower):
    """oracle for one -merge case: shown problems and, per format, the exit status (None if
    the documented algebra does not say, i.e. a live problem has an unknown category)."""
    shown = [d for d in case["diags"] if (d["sev"] != 2 or case["show_ignored"]) and not hidden(case, d)]
    live = [d["cat"] for d in case["diags"] if d["sev"] != 2 and not hidden(case, d)]
    decidable = all(c.lower() in known_lower or c.lower() in SPECIAL for c in live)
    fail = flag_list(case["fail"])
    if fail is None:
        fail = ["all"]
    ex = {f: (o_exit(f, live, fail, known_lower) if decidable else None) for f in FORMATS}
    return shown, ex


def diag_tuple(d):
    return (d["file"], d["line"], d["col"], d["cat"], d["msg"])


def prob_of_spec(d):
    """a crafted diagnostic (what c11probe gob-encodes) as a problem of the model"""
    he = d.get("has_end")
    return {"cat": d["cat"], "ignored": d["sev"] == 2, "file": d["file"], "line": d["line"], "col": d["col"], "efile": d["file"],
            "eline": d["eline"] if he else d["line"], "ecol": d["ecol"] if he else d["col"], "msg": d["msg"], "build": d.get("build", ""),
            "related": [dict(r, efile=r["file"]) for r in d.get("related") or []]}


def field_checks(col, phase, rec, struct, cwd, show_ignored, model_by_fmt, all_oracles_ok, stats_full=True):
    """(b) the formats clause field by field on the real outputs alone, (c) every real rendering
    against the rendering of the model. `struct`: fmt -> (items, stylish stats, json objects);
    `model_by_fmt`: fmt -> (exit, stats, items) of the `fmt` op. Returns the number of renderings
    that differ from the model only in the order of the problems."""
    order_only = 0
    bad = cross_format(struct, cwd, show_ignored)
    if bad:
        col.oracle_fail(phase + "-formats-fields", dict(rec, discrepancies=bad[:8],
                        what="text, stylish, JSON and SARIF do not render the same problems field by field: " + bad[0]))
        return order_only
    if "json" in struct and not positions_wellformed(struct["json"][2]):
        col.model_diff(phase + "-hypothesis-wf", dict(rec, what="a printed position has a column but no line, or a file is called `-` (hypothesis Problem.wf of formats_agree)"))
    for f, (items, st, _objs) in struct.items():
        if f not in model_by_fmt:
            continue
        mexit, mstats, mitems = model_by_fmt[f]
        verdict, diff = compare_rendering(f, items, mitems)
        if verdict == "order":
            order_only += 1
        elif verdict == "differ":
            d = {k: [describe_item(x) for x in v] for k, v in diff.items()}
            col.model_diff(phase + "-rendering-" + f, dict(rec, format=f, difference=d,
                           what="the -f %s output is not the rendering the model defines for these problems" % f))
        if not stats_full and st is not None:
            st, mstats = tuple(st)[1:3], tuple(mstats)[1:3]
        if f == "stylish" and st is not None and tuple(st) != tuple(mstats) and all_oracles_ok:
            col.model_diff(phase + "-stylish-summary", dict(rec, format=f, impl_summary=st, model_summary=mstats,
                           what="stylish summary (total, errors, warnings, ignored) %s, model %s" % (st, mstats)))
    return order_only


def phase_merge(ctx, probe, col, cov, replay_cases=None):
    work = os.path.dirname(ctx.path("merge", "x"))
    cwd = os.path.join(work, "cwd")
    os.makedirs(os.path.join(cwd, "sub"), exist_ok=True)
    if replay_cases is not None:
        cases, hist = replay_cases, {}
    else:
        cases, hist = gen_merge_cases(ctx, cwd)
    # one sub-case per format
    subs = []
    for i, c in enumerate(cases):
        for f in FORMATS:
            s = dict(c)
            s["format"] = f
            s["id"] = len(subs)
            s["_case"] = i
            subs.append(s)
    parts = chunks(subs, min(8, vlib.NCPU))

    def runpart(arg):
        k, part = arg
        wd = os.path.join(work, "w%d" % k)
        os.makedirs(wd, exist_ok=True)
        return probe_lines(probe, "merge", wd, [{kk: v for kk, v in s.items() if kk not in ("_case", "builds")} for s in part], extra=[cwd])

    with ThreadPoolExecutor(max_workers=len(parts)) as ex:
        results = [r for part in ex.map(runpart, list(enumerate(parts))) for r in part]
    lines = []
    for s in subs:
        fail = flag_list(s["fail"])
        if fail is None:
            fail = ["all"]
        lines.append("exit %s %s %d %d %s D:%s" % (xl(s["analyzers"]), xl(fail), 1 if s["show_ignored"] else 0, 1 if s.get("no_compile") else 0, s["format"],
                                                   ",".join("%s/%d" % (xn(d["cat"]), 1 if d["sev"] == 2 else 0) for d in s["diags"])))
    model = vlib.run_model(ctx, "C11", lines)
    nontrivial = set()
    per_case = {}
    struct_case = {}
    oracle_ok = {}
    sev_suspects = []
    for s, r, m, line in zip(subs, results, model, lines):
        if m == "bad-op":
            raise vlib.HarnessError("model rejected: " + line)
        mexit, _, _, _, mshown = m.split(" ")
        mexit = int(mexit)
        mshown = mshown[1:]
        case = cases[s["_case"]]
        known = frozenset(n.lower() for n in case["analyzers"])
        shown, oexit = merge_expected(case, known)
        fmt = s["format"]
        exp = sorted(diag_tuple(d) for d in shown)
        mexp = sorted(diag_tuple(d) for d, ch in zip(case["diags"], mshown) if ch != "-")
        if exp != mexp or (oexit[fmt] is not None and oexit[fmt] != mexit):
            col.internal.append({"phase": "merge", "case": case, "format": fmt, "model": m, "oracle_exit": oexit[fmt]})
        try:
            got, sev = parse_output(fmt, r["out"], cwd)
            struct_case.setdefault(s["_case"], {})[fmt] = struct_output(fmt, r["out"], has_build=bool(case.get("builds")))
        except (ValueError, KeyError, IndexError, AttributeError) as e:
            oracle_ok[s["_case"]] = False
            col.oracle_fail("merge-format-unparsable", {"phase": "merge", "case": case, "format": fmt, "stdout": r["out"][:2000], "error": str(e),
                                                        "what": "output of -f %s cannot be parsed back to problems" % fmt})
            continue
        if case.get("builds") and fmt == "text":
            # the build name is part of the text line, not of the message
            got = sorted((t[0], t[1], t[2], t[3], re.sub(r" \[[^\]\s]+\]$", "", t[4])) for t in got)
        per_case.setdefault(s["_case"], {})[fmt] = got
        rec = {"phase": "merge", "case": case, "format": fmt, "exit_status": r["rc"], "printed": got}
        if got != exp:
            oracle_ok[s["_case"]] = False
            rec["expected_printed"] = exp
            rec["what"] = "-f %s does not render exactly the problems to be shown (all problems, ignored ones only under -show-ignored)" % fmt
            col.oracle_fail("merge-printed-" + fmt, rec)
        if oexit[fmt] is not None and r["rc"] != oexit[fmt]:
            oracle_ok[s["_case"]] = False
            rec = dict(rec)
            rec["expected_exit_status"] = oexit[fmt]
            live_fail = [d["cat"] for d in case["diags"] if d["sev"] != 2]
            rec["what"] = ("exit status %d, but per the property it is %d: live problems %s, -fail %r, format %s, ignored problems %s%s"
                           % (r["rc"], oexit[fmt], live_fail, case["fail"], fmt, [d["cat"] for d in case["diags"] if d["sev"] == 2],
                              ", -debug.no-compile-errors" if case.get("no_compile") else ""))
            cls = "merge-exit-ignored-counted" if (case["show_ignored"] and any(d["sev"] == 2 for d in case["diags"])) else "merge-exit"
            col.oracle_fail(cls, rec)
        elif r["rc"] != mexit:
            col.model_diff("merge-exit", {"phase": "merge", "case": case, "format": fmt, "impl_exit": r["rc"], "model": m})
        if sev is not None:
            for d, ch in zip(case["diags"], mshown):
                if ch in "ew":
                    s_impl = sev.get(diag_tuple(d))
                    if s_impl is not None and s_impl != {"e": "error", "w": "warning"}[ch]:
                        sev_suspects.append({"phase": "merge", "case": case, "cat": d["cat"], "impl_severity": s_impl, "model": ch})
        mp = set(mshown)
        if ("e" in mp and "w" in mp) or (case["show_ignored"] and "i" in mp):
            nontrivial.add((json.dumps(case["analyzers"]), case["fail"], case["show_ignored"], mshown))
    for i, byfmt in per_case.items():
        if len(byfmt) == len(FORMATS) and len({json.dumps(v) for v in byfmt.values()}) > 1:
            oracle_ok[i] = False
            col.oracle_fail("merge-formats-disagree", {"phase": "merge", "case": cases[i], "printed_by_format": byfmt,
                                                       "what": "text, stylish, JSON and SARIF do not render the same set of problems"})
    # ---- field by field: the four real renderings against each other and against the model
    flines, fowner = [], []
    for i, st in struct_case.items():
        if len(st) != len(FORMATS):
            continue
        case = cases[i]
        fail = flag_list(case["fail"])
        if fail is None:
            fail = ["all"]
        # the model gets the problems in the order the run printed them (sorting is C12's subject)
        order = {}
        for k, j in enumerate(st["json"][2]):
            order[(j["location"]["file"], j["location"]["line"], j["location"]["column"], j["code"], j["message"])] = k
        probs = sorted(case["diags"], key=lambda d: order.get(diag_tuple(d), len(order)))
        probs = [prob_of_spec(d) for d in probs]
        for f in FORMATS:
            flines.append(fmt_line(f, case["show_ignored"], case.get("no_compile"), case["analyzers"], fail, cwd, probs))
            fowner.append((i, f))
    fmodel = vlib.run_model(ctx, "C11", flines)
    by_case = {}
    for (i, f), m, line in zip(fowner, fmodel, flines):
        if m == "bad-op":
            raise vlib.HarnessError("model rejected: " + line[:400])
        by_case.setdefault(i, {})[f] = parse_fmt_model(m)
    order_only = 0
    rich_cases = 0
    for i, mb in by_case.items():
        case = cases[i]
        rec = {"phase": "merge", "case": case}
        order_only += field_checks(col, "merge", rec, struct_case[i], cwd, case["show_ignored"], mb, oracle_ok.get(i, True))
        # sarif: the rules are the analyzers sorted by ID (part of the rendering), compared above
        if any(d.get("related") or d.get("has_end") for d in case["diags"]):
            rich_cases += 1
    # severity in JSON is how the -fail map shows for all analyzers at once; it is not part of
    # the statement, so a difference is followed up through the exit status of one-problem runs
    if sev_suspects and not col.oracle:
        follow = []
        seen = set()
        for sdiff in sev_suspects:
            c = sdiff["case"]
            key = (json.dumps(c["analyzers"]), c["fail"], sdiff["cat"])
            if key in seen or len(follow) >= 400:
                continue
            seen.add(key)
            follow.append({"analyzers": c["analyzers"], "fail": c["fail"], "show_ignored": False, "format": "text", "id": len(follow),
                           "diags": [{"file": os.path.join(cwd, "f0.go"), "line": 1, "col": 1, "cat": sdiff["cat"], "msg": "probe", "sev": 0}]})
        fres = probe_lines(probe, "merge", os.path.join(work, "w0"), follow, extra=[cwd])
        found = False
        for c, r in zip(follow, fres):
            known = frozenset(n.lower() for n in c["analyzers"])
            _, oexit = merge_expected(c, known)
            if oexit["text"] is not None and r["rc"] != oexit["text"]:
                found = True
                col.oracle_fail("merge-exit", {"phase": "merge", "case": {k: v for k, v in c.items() if k not in ("id", "format")}, "format": "text",
                                               "exit_status": r["rc"], "expected_exit_status": oexit["text"],
                                               "what": "one live problem of check %s with -fail %r exits %d" % (c["diags"][0]["cat"], c["fail"], r["rc"])})
        if not found:
            col.model_diff("merge-severity", sev_suspects[0])
    # ---- exit code 2: `-merge -f binary` and unsupported formats (model: mergeExit)
    e2 = []
    for i, c in enumerate(cases[:40]):
        for f in ("binary", "xml", "Text", "null"):
            e2.append(dict({kk: v for kk, v in c.items() if kk != "builds"}, format=f, id=len(e2), _case=i))
    e2res = probe_lines(probe, "merge", os.path.join(work, "w0"), [{kk: v for kk, v in s.items() if kk != "_case"} for s in e2], extra=[cwd])
    e2lines = []
    for s in e2:
        fail = flag_list(s["fail"])
        if fail is None:
            fail = ["all"]
        e2lines.append("exitcode merge %s %d %d %s %s P:%s" % (xn(s["format"]), 1 if s["show_ignored"] else 0, 1 if s.get("no_compile") else 0,
                                                             xl(s["analyzers"]), xl(fail), ",".join(xprob(prob_of_spec(d)) for d in s["diags"])))
    e2model = vlib.run_model(ctx, "C11", e2lines)
    for s, r, m in zip(e2, e2res, e2model):
        if m == "bad-op":
            raise vlib.HarnessError("model rejected an exitcode line")
        case = cases[s["_case"]]
        known = frozenset(n.lower() for n in case["analyzers"])
        if s["format"] == "null":
            _, oexit = merge_expected(case, known)
            want = oexit["text"]
        else:
            want = 2
        rec = {"phase": "merge", "case": case, "format": s["format"], "exit_status": r["rc"], "expected_exit_status": want}
        if want is not None and r["rc"] != want:
            col.oracle_fail("merge-exit-code", dict(rec, what="staticcheck -merge -f %s exits %d, expected %d (2 = unusable format; `null` prints nothing but exits like text)"
                                                              % (s["format"], r["rc"], want)))
        elif r["rc"] != int(m):
            col.model_diff("merge-exit-code", dict(rec, model=m))
        if s["format"] == "null" and r["out"] != "":
            col.oracle_fail("merge-null-prints", dict(rec, stdout=r["out"][:500], what="-f null printed something"))
    cov["merge"] = {"cases": len(cases), "executions_of_real_command": len(subs) + len(e2), "nontrivial": len(nontrivial), "histogram": hist,
                    "renderings_compared_field_by_field": len(flines), "cases_with_end_or_related": rich_cases,
                    "renderings_differing_only_in_order": order_only, "exit_code_2_cases": len(e2),
                    "sample": [{"input": {k: v for k, v in subs[i].items() if k != "_case"}, "impl_rc": results[i]["rc"], "model": model[i]}
                               for i in (0, min(len(subs) - 1, 41))]}
    return len(subs) + len(e2), len(nontrivial)


# =========================================================================== phase C: the real binary

def shared_cache(ctx):
    """one STATICCHECK_CACHE for every run of the real binary in this check (the cache is safe
    for concurrent use; the reference run of phase cli warms it)"""
    return os.path.dirname(ctx.path("sccache", "x"))


def run_sc(ctx, binary, cwd, args, timeout=900, stdin=None):
    env = vlib.go_env({"STATICCHECK_CACHE": shared_cache(ctx)})
    rc, so, se = vlib.run([binary] + args, cwd=cwd, env=env, timeout=timeout, input=stdin)
    return rc, so, se


def write_tree(root, files):
    for rel, content in files.items():
        p = os.path.join(root, rel)
        os.makedirs(os.path.dirname(p), exist_ok=True)
        with open(p, "w") as f:
            f.write(content)


def conf_text(lv):
    k = lv["kind"]
    if k == "empty":
        return ""
    if k == "other":
        return "# no checks here\nhttp_status_code_whitelist = [\"200\"]\n"
    if k == "set":
        def q(s):
            return '"' + s.replace("\\", "\\\\").replace('"', '\\"') + '"'
        return "checks = [" + ", ".join(q(c) for c in lv["checks"]) + "]\n"
    raise vlib.HarnessError("conf_text " + k)


def fixture_files():
    src = open(os.path.join(CORPUS, "fixture", "p.go.txt")).read()
    gomod = open(os.path.join(CORPUS, "fixture", "go.mod.txt")).read()
    files = {"mod/go.mod": gomod}
    for p in PKGS:
        files[os.path.join("mod", p, "p.go")] = src
    return files


def no_conf_above(path):
    d = os.path.abspath(path)
    while True:
        if os.path.exists(os.path.join(d, "staticcheck.conf")):
            raise vlib.HarnessError("a staticcheck.conf in %s would take part in every directory walk" % d)
        nd = os.path.dirname(d)
        if nd == d:
            return
        d = nd


def rel_tuples(tuples, root):
    out = []
    for (f, l, c, code, msg) in tuples:
        out.append((os.path.relpath(f, root) if f else "", l, c, code, msg))
    return sorted(out)


def gen_cli_cases(ctx, real_names, fixture_codes):
    rng = vlib.SplitMix(ctx.seed).fork("C11/cli")
    hist = {}
    n = 22 if ctx.quick else 500
    # names the generator draws from: the checks the fixture has problems for, and a few others
    names = sorted(set(fixture_codes) | {"S1000", "SA4006", "SA1019", "ST1005", "S1008", "SA9004"})
    names = [x for x in names if x in real_names]
    cases = [
        {"levels": [{"kind": "absent"}] * 4, "checks": None, "fail": None, "show_ignored": False},
        {"levels": [{"kind": "absent"}] * 4, "checks": "all", "fail": "SA4018,U1000", "show_ignored": True},
        {"levels": [{"kind": "set", "checks": ["inherit", "-S*"]}, {"kind": "set", "checks": ["SA4*", "inherit"]}, {"kind": "empty"},
                    {"kind": "set", "checks": ["all", "-ST*"]}], "checks": "inherit,st1000", "fail": "S*", "show_ignored": False},
    ]
    for _ in range(n):
        levels = gen_levels(rng, names, hist, 4)     # b, a, mod, top
        r = rng.below(100)
        if r < 35:
            checks = None
        elif r < 40:
            checks = ""
        else:
            checks = cmdline_value(gen_list(rng, names, True, hist, maxlen=4))
        r = rng.below(100)
        if r < 30:
            fail = None
        elif r < 38:
            fail = ""
        else:
            fail = cmdline_value(gen_list(rng, names, False, hist, maxlen=4))
        cases.append({"levels": levels, "checks": checks, "fail": fail, "show_ignored": rng.chance(35, 100)})
    for i, c in enumerate(cases):
        c["id"] = i
    return cases, hist


def cli_args(c, fmt):
    a = ["-f=" + fmt]
    if c.get("checks") is not None:
        a.append("-checks=" + c["checks"])
    if c.get("fail") is not None:
        a.append("-fail=" + c["fail"])
    if c.get("show_ignored"):
        a.append("-show-ignored")
    return a + ["./..."]


LEVEL_DIRS = ["mod/a/b", "mod/a", "mod", ""]        # innermost first; "" = top


def phase_cli(ctx, binary, probe, real_names, default_checks, col, cov, replay=None):
    base = os.path.dirname(ctx.path("cli", "x"))
    no_conf_above(base)
    known = frozenset(n.lower() for n in real_names)
    files = fixture_files()

    # ---- reference: every problem of every check, and which of them are ignored
    ref = os.path.join(base, "ref", "top")
    write_tree(ref, files)
    refmod = os.path.join(ref, "mod")
    rc, so, se = run_sc(ctx, binary, refmod, ["-f=json", "-checks=all", "-show-ignored", "./..."])
    if rc not in (0, 1):
        raise vlib.HarnessError("reference run failed: rc=%d %s" % (rc, se[-1000:]))
    u_all = rel_tuples(parse_json(so, refmod)[0], refmod)
    ref_objs = struct_json(so)[1]
    if not positions_wellformed(ref_objs):
        raise vlib.HarnessError("fixture: a position without line has a column")
    rc, so, se = run_sc(ctx, binary, refmod, ["-f=json", "-checks=all", "./..."])
    u_live = rel_tuples(parse_json(so, refmod)[0], refmod)
    ignored = sorted(set(u_all) - set(u_live))
    fixture_codes = sorted({t[3] for t in u_all})
    if not u_all or any(t[3] in SPECIAL for t in u_all):
        raise vlib.HarnessError("fixture does not lint cleanly: %s %s" % (u_all[:3], se[-500:]))
    upkg = {p: [t for t in u_all if os.path.dirname(t[0]) == p] for p in PKGS}
    cov["fixture"] = {"problems": len(u_all), "ignored": len(ignored), "checks": fixture_codes}

    # ---- cases
    if replay is not None:
        cases, hist = replay, {}
    else:
        cases, hist = gen_cli_cases(ctx, real_names, fixture_codes)
    jobs = []
    for c in cases:
        root = os.path.join(base, "r%d" % c["id"], "top")
        fs = dict(files)
        for lv, d in zip(c["levels"], LEVEL_DIRS):
            if lv["kind"] == "absent":
                continue
            if lv["kind"] == "dir":
                os.makedirs(os.path.join(root, d, "staticcheck.conf"), exist_ok=True)
                continue
            fs[os.path.join(d, "staticcheck.conf")] = conf_text(lv)
        write_tree(root, fs)
        for f in FORMATS:
            jobs.append((c, f, os.path.join(root, "mod")))

    def one(job):
        c, f, cwd = job
        rc, so, se = run_sc(ctx, binary, cwd, cli_args(c, f))
        return rc, so, se

    with ThreadPoolExecutor(max_workers=min(8, vlib.NCPU)) as ex:
        results = list(ex.map(one, jobs))

    # ---- model: load per package, success per package, exit per format
    lines1 = []
    for c in cases:
        cmd = flag_list(c["checks"]) if c["checks"] is not None else ["inherit"]
        if c["checks"] == "":
            cmd = None
        for pi, p in enumerate(PKGS):
            lv = c["levels"][len(PKGS) - 1 - pi:]
            lines1.append("load %s %s %s" % (xl(default_checks), xc(cmd), " ".join(xlevel(l) for l in lv)))
    m1 = vlib.run_model(ctx, "C11", lines1)
    lines2 = []
    for ci, c in enumerate(cases):
        for pi, p in enumerate(PKGS):
            eff = m1[ci * len(PKGS) + pi].split(" ")[1]
            if eff == "N":
                eff = "L:"
            cats = [t[3] for t in upkg[p] if t[3] != "U1000"]
            nun = sum(1 for t in upkg[p] if t[3] == "U1000")
            lines2.append("success %s %s %s %d" % (xl(real_names), eff, xl(cats), nun))
    m2 = vlib.run_model(ctx, "C11", lines2)
    model_printed = []
    for ci, c in enumerate(cases):
        sel = []
        for pi, p in enumerate(PKGS):
            out = m2[ci * len(PKGS) + pi]
            bits, ubit = out[1:].split("/")
            non_u = [t for t in upkg[p] if t[3] != "U1000"]
            sel += [t for t, b in zip(non_u, bits) if b == "1"]
            if ubit == "1":
                sel += [t for t in upkg[p] if t[3] == "U1000"]
        model_printed.append(sorted(sel))
    lines3 = []
    for ci, c in enumerate(cases):
        fail = flag_list(c["fail"]) if c["fail"] is not None else ["all"]
        for f in FORMATS:
            lines3.append("exit %s %s %d 0 %s D:%s" % (xl(real_names), xl(fail), 1 if c["show_ignored"] else 0, f,
                                                        ",".join("%s/%d" % (xn(t[3]), 1 if t in ignored else 0) for t in model_printed[ci])))
    m3 = vlib.run_model(ctx, "C11", lines3)

    # ---- field by field: the model renders, for every format, the reference problems restricted
    # to the documented selection (rebased to the directory of the case)
    def rebase(path, root):
        return os.path.join(root, os.path.relpath(path, refmod)) if path else path

    def ref_problem(j, root):
        d = prob_of_json(j)
        t = (os.path.relpath(d["file"], refmod) if d["file"] else "", d["line"], d["col"], d["cat"], d["msg"])
        d["ignored"] = t in ignored
        d["file"], d["efile"] = rebase(d["file"], root), rebase(d["efile"], root)
        for r in d["related"]:
            r["file"], r["efile"] = rebase(r["file"], root), rebase(r["efile"], root)
        return t, d
    flines = []
    for ci, c in enumerate(cases):
        fail = flag_list(c["fail"]) if c["fail"] is not None else ["all"]
        root = jobs[ci * len(FORMATS)][2]
        sel = set(model_printed[ci])
        probs = [d for t, d in (ref_problem(j, root) for j in ref_objs) if t in sel]
        for f in FORMATS:
            flines.append(fmt_line(f, c["show_ignored"], False, real_names, fail, root, probs))
    fmodel = [parse_fmt_model(m) for m in vlib.run_model(ctx, "C11", flines)]
    order_only = 0

    nontrivial = set()
    k = 0
    for ci, c in enumerate(cases):
        # oracle: documented algebra, per package
        cmd = None if c["checks"] in (None, "") else flag_list(c["checks"])
        if c["checks"] is None:
            cmd = ["inherit"]
        fail = flag_list(c["fail"]) if c["fail"] is not None else ["all"]
        exp_sel = []
        effs = {}
        for pi, p in enumerate(PKGS):
            lv = c["levels"][len(PKGS) - 1 - pi:]
            eff = o_resolve(default_checks, lv, cmd) or []
            effs[p or "."] = eff
            exp_sel += [t for t in upkg[p] if o_allowed(eff, t[3], known)]
        exp_sel = sorted(exp_sel)
        exp_shown = sorted(t for t in exp_sel if c["show_ignored"] or t not in ignored)
        exp_live = [t[3] for t in exp_sel if t not in ignored]
        if exp_sel != model_printed[ci]:
            col.internal.append({"phase": "cli", "case": c, "model_selected": model_printed[ci], "oracle_selected": exp_sel})
        byfmt = {}
        struct = {}
        case_ok = True
        for f in FORMATS:
            (cc, ff, cwd), (rc, so, se) = jobs[k], results[k]
            mexit = int(m3[k].split(" ")[0])
            mshown_s = m3[k].split(" ")[4][1:]
            k += 1
            rec = {"phase": "cli", "case": c, "format": f, "args": cli_args(c, f), "exit_status": rc,
                   "effective_checks_documented": effs, "stderr": se[-600:]}
            if rc not in (0, 1):
                case_ok = False
                col.oracle_fail("cli-crash", dict(rec, what="staticcheck exited %d" % rc))
                continue
            try:
                got = rel_tuples(parse_output(f, so, cwd)[0], cwd)
                struct[f] = struct_output(f, so)
            except (ValueError, KeyError, IndexError, AttributeError) as e:
                case_ok = False
                col.oracle_fail("cli-format-unparsable", dict(rec, stdout=so[:2000], error=str(e), what="-f %s output cannot be parsed back" % f))
                continue
            byfmt[f] = got
            rec["printed"] = got
            mshown = sorted(t for t, ch in zip(model_printed[ci], mshown_s) if ch != "-")
            if got != exp_shown:
                case_ok = False
                missing = sorted(set(exp_shown) - set(got))
                extra = sorted(set(got) - set(exp_shown))
                col.oracle_fail("cli-printed", dict(rec, expected_printed=exp_shown, missing=missing, unexpected=extra,
                                what="the problems printed are not all problems restricted to the documented selection: missing %s, unexpected %s"
                                     % ([(t[0], t[3]) for t in missing][:6], [(t[0], t[3]) for t in extra][:6])))
            elif got != mshown:
                col.model_diff("cli-printed", dict(rec, model_printed=mshown))
            oexit = o_exit(f, exp_live, fail, known)
            # the exit-status clause is evaluated on what the run itself printed
            live_printed = [t[3] for t in got if t not in ignored]
            oexit_obs = o_exit(f, live_printed, fail, known)
            if rc != oexit_obs:
                case_ok = False
                cls = "cli-exit-ignored-counted" if (c["show_ignored"] and any(t in ignored for t in got)) else "cli-exit"
                col.oracle_fail(cls, dict(rec, expected_exit_status=oexit_obs, live_problems=live_printed,
                                ignored_problems_shown=[t[3] for t in got if t in ignored],
                                what="exit status %d; per the property %d (-fail %r, format %s, live problems %s, ignored shown %s)"
                                     % (rc, oexit_obs, c["fail"], f, sorted(set(live_printed)), sorted({t[3] for t in got if t in ignored}))))
            elif rc != mexit and got == exp_shown:
                col.model_diff("cli-exit", dict(rec, model=m3[k - 1]))
            if oexit != mexit:
                col.internal.append({"phase": "cli", "case": c, "format": f, "model_exit": mexit, "oracle_exit": oexit})
        if len(byfmt) == len(FORMATS) and len({json.dumps(v) for v in byfmt.values()}) > 1:
            case_ok = False
            col.oracle_fail("cli-formats-disagree", {"phase": "cli", "case": c, "printed_by_format": byfmt,
                                                     "what": "text, stylish, JSON and SARIF do not render the same set of problems"})
        if len(struct) == len(FORMATS):
            cwd = jobs[ci * len(FORMATS)][2]
            mb = {f: fmodel[ci * len(FORMATS) + fi] for fi, f in enumerate(FORMATS)}
            frec = {"phase": "cli", "case": c, "args": cli_args(c, "<format>"), "effective_checks_documented": effs}
            if case_ok:
                order_only += field_checks(col, "cli", frec, struct, cwd, c["show_ignored"], mb, True)
            else:
                bad = cross_format(struct, cwd, c["show_ignored"])
                if bad:
                    col.oracle_fail("cli-formats-fields", dict(frec, discrepancies=bad[:8], what="the four formats differ field by field: " + bad[0]))
        per_pkg = [len([t for t in exp_sel if os.path.dirname(t[0]) == p]) for p in PKGS]
        if any(0 < n < len(upkg[p]) for n, p in zip(per_pkg, PKGS)):
            nontrivial.add(c["id"])
    cov["cli"] = {"cases": len(cases), "runs_of_real_binary": len(jobs) + 2, "nontrivial": len(nontrivial), "histogram": hist,
                  "renderings_compared_field_by_field": len(flines), "renderings_differing_only_in_order": order_only,
                  "sample": [{"case": cases[i], "exit_text": results[i * 4][0]} for i in (1, 2, min(len(cases) - 1, 5)) if i < len(cases)]}
    return len(jobs) + 2, len(nontrivial)


def phase_corpus(ctx, binary, real_names, col, cov):
    """fixed modules: ignored-only (DESIGN §6 row 7), directive / config / compile problems,
    related information, test variants, -debug.no-compile-errors, exit code 2."""
    base = os.path.dirname(ctx.path("corpus", "x"))
    no_conf_above(base)
    known = frozenset(n.lower() for n in real_names)
    cases = json.load(open(os.path.join(CORPUS, "cases.json")))
    jobs = []
    for i, c in enumerate(cases):
        root = os.path.join(base, "k%d" % i)
        write_tree(root, c["files"])
        if "expect_exit" in c:
            jobs.append((i, "raw", root, list(c["args"])))
            continue
        for f in FORMATS:
            jobs.append((i, f, root, ["-f=" + f] + c["args"] + ["./..."]))
        # companion: the live problems (= printed without -show-ignored)
        if "-show-ignored" in c["args"]:
            jobs.append((i, "live", root, ["-f=json"] + [a for a in c["args"] if a != "-show-ignored"] + ["./..."]))

    def one(job):
        i, f, root, args = job
        return run_sc(ctx, binary, root, args, stdin=cases[i].get("stdin", ""))

    with ThreadPoolExecutor(max_workers=min(8, vlib.NCPU)) as ex:
        results = list(ex.map(one, jobs))
    by = {}
    for (i, f, root, args), (rc, so, se) in zip(jobs, results):
        by.setdefault(i, {})[f] = (rc, so, se, root, args)
    flines, fowner, structs = [], [], {}
    for i, c in enumerate(cases):
        if "expect_exit" in c:
            rc, so, se, root, args = by[i]["raw"]
            rec = {"phase": "corpus", "case": c["name"], "why": c["why"], "args": args, "exit_status": rc, "expected_exit_status": c["expect_exit"],
                   "files": c["files"], "stderr": se[-400:]}
            if rc != c["expect_exit"]:
                col.oracle_fail("cli-exit-code", dict(rec, what="%s: `staticcheck %s` exits %d, expected %d" % (c["name"], " ".join(args), rc, c["expect_exit"])))
            ml = vlib.run_model(ctx, "C11", ["exitcode %s %s 0 0 %s %s P:" % (c.get("mode", "lint"), xn(c["format"]), xl(real_names), xl(["all"]))])[0] if "format" in c else None
            if ml is not None and int(ml) != c["expect_exit"]:
                col.internal.append({"phase": "corpus", "case": c["name"], "model_exit": ml})
            continue
        rc, so, se, root, args = by[i].get("live") or by[i]["json"]
        if rc not in (0, 1):
            col.oracle_fail("corpus-crash", {"phase": "corpus", "case": c["name"], "args": args, "exit_status": rc, "stderr": se[-800:], "what": "staticcheck exited %d" % rc})
            continue
        live = rel_tuples(parse_json(so, root)[0], root)
        fail = ["all"]
        for a in c["args"]:
            if a.startswith("-fail="):
                fail = flag_list(a[len("-fail="):])
        byfmt = {}
        struct = {}
        for f in FORMATS:
            rc, so, se, root, args = by[i][f]
            rec = {"phase": "corpus", "case": c["name"], "why": c["why"], "args": args, "format": f, "exit_status": rc, "files": c["files"]}
            if rc not in (0, 1):
                col.oracle_fail("corpus-crash", dict(rec, stderr=se[-800:], what="staticcheck exited %d" % rc))
                continue
            try:
                got = rel_tuples(parse_output(f, so, root)[0], root)
                struct[f] = struct_output(f, so)
            except (ValueError, KeyError, IndexError, AttributeError) as e:
                col.oracle_fail("corpus-format-unparsable", dict(rec, stdout=so[:2000], error=str(e), what="-f %s output cannot be parsed back" % f))
                continue
            byfmt[f] = got
            rec["printed"] = got
            codes = sorted(t[3] for t in got)
            if codes != sorted(c["expect_codes"]):
                col.oracle_fail("corpus-printed", dict(rec, expected_codes=c["expect_codes"], what="%s: printed checks %s, expected %s" % (c["name"], codes, c["expect_codes"])))
            live_printed = [t[3] for t in got if t in live]
            oexit = o_exit(f, live_printed, fail, known)
            if rc != oexit:
                shown_ign = [t[3] for t in got if t not in live]
                cls = "cli-exit-ignored-counted" if shown_ign else "cli-exit"
                col.oracle_fail(cls, dict(rec, expected_exit_status=oexit, live_problems=live_printed, ignored_problems_shown=shown_ign,
                                what="%s: exit status %d; per the property %d (live problems %s, ignored problems shown %s, -fail %s)"
                                     % (c["name"], rc, oexit, live_printed, shown_ign, fail)))
        if len(byfmt) == len(FORMATS) and len({json.dumps(v) for v in byfmt.values()}) > 1:
            col.oracle_fail("cli-formats-disagree", {"phase": "corpus", "case": c["name"], "printed_by_format": byfmt,
                                                     "what": "text, stylish, JSON and SARIF do not render the same set of problems"})
        if len(struct) == len(FORMATS):
            structs[i] = struct
            # the model renders the problems the JSON run shows (severity recomputed from -fail)
            probs = [prob_of_json(j) for j in struct["json"][2]]
            for f in FORMATS:
                flines.append(fmt_line(f, "-show-ignored" in c["args"], "-debug.no-compile-errors" in c["args"], real_names, fail, by[i][f][3], probs))
                fowner.append((i, f))
    fmodel = vlib.run_model(ctx, "C11", flines) if flines else []
    mb = {}
    for (i, f), m in zip(fowner, fmodel):
        if m == "bad-op":
            raise vlib.HarnessError("model rejected a corpus fmt line")
        mb.setdefault(i, {})[f] = parse_fmt_model(m)
    nrel = 0
    for i, struct in structs.items():
        c = cases[i]
        si = "-show-ignored" in c["args"]
        rec = {"phase": "corpus", "case": c["name"], "why": c["why"], "args": c["args"], "files": c["files"]}
        field_checks(col, "corpus", rec, struct, by[i]["json"][3], si, mb[i], True,
                     stats_full=si and "-debug.no-compile-errors" not in c["args"])
        nrel += sum(1 for j in struct["json"][2] if j.get("related"))
    cov["corpus"] = {"cases": [c["name"] for c in cases], "runs_of_real_binary": len(jobs), "renderings_compared_field_by_field": len(flines),
                     "problems_with_related_information": nrel}
    return len(jobs)


def phase_binary_merge(ctx, binary, probe, real_names, col, cov):
    """`staticcheck -merge` of the real binary (real analyzer set) on a few crafted results."""
    rng = vlib.SplitMix(ctx.seed).fork("C11/binmerge")
    base = os.path.dirname(ctx.path("binmerge", "x"))
    known = frozenset(n.lower() for n in real_names)
    hist = {}
    n = 6 if ctx.quick else 120
    cases = []
    pool = ["S1002", "S1005", "SA4000", "SA4018", "SA5007", "ST1000", "ST1006", "U1000", "SA9003", "compile", "config", "staticcheck"]
    for i in range(n):
        diags = []
        for j in range(1 + rng.below(6)):
            d = {"file": os.path.join(base, "f%d.go" % (j % 2)), "line": j + 1, "col": 1 + rng.below(5), "cat": rng.choice(pool),
                 "msg": "problem %d %s" % (j, rng.choice(WORDS)), "sev": 2 if rng.chance(3, 10) else 0}
            if rng.chance(1, 2):
                d.update(has_end=True, eline=d["line"], ecol=d["col"] + 1 + rng.below(9))
            if rng.chance(1, 4):
                d["related"] = [{"file": d["file"], "line": 40 + j, "col": 2, "eline": 40 + j, "ecol": 5, "msg": "related " + rng.choice(WORDS)}]
            diags.append(d)
        fail = None if rng.chance(1, 5) else cmdline_value(gen_list(rng, pool[:9], False, hist, maxlen=3))
        cases.append({"id": i, "path": os.path.join(base, "in%d.gob" % i), "diags": diags, "fail": fail, "show_ignored": rng.chance(1, 2)})
    probe_lines(probe, "gob", None, [{"path": c["path"], "diags": c["diags"]} for c in cases])
    jobs = [(c, f) for c in cases for f in FORMATS]

    def one(job):
        c, f = job
        args = ["-merge", "-f=" + f]
        if c["fail"] is not None:
            args.append("-fail=" + c["fail"])
        if c["show_ignored"]:
            args.append("-show-ignored")
        return run_sc(ctx, binary, base, args + [c["path"]])

    with ThreadPoolExecutor(max_workers=min(8, vlib.NCPU)) as ex:
        results = list(ex.map(one, jobs))
    structs = {}
    for (c, f), (rc, so, se) in zip(jobs, results):
        if rc in (0, 1):
            try:
                structs.setdefault(c["id"], {})[f] = struct_output(f, so)
            except (ValueError, KeyError, IndexError, AttributeError):
                pass
    flines, fowner = [], []
    for c in cases:
        st = structs.get(c["id"], {})
        if len(st) != len(FORMATS):
            continue
        fail = flag_list(c["fail"]) if c["fail"] is not None else ["all"]
        order = {(j["location"]["file"], j["location"]["line"], j["location"]["column"], j["code"], j["message"]): k for k, j in enumerate(st["json"][2])}
        probs = [prob_of_spec(d) for d in sorted(c["diags"], key=lambda d: order.get(diag_tuple(d), len(order)))]
        for f in FORMATS:
            flines.append(fmt_line(f, c["show_ignored"], False, real_names, fail, base, probs))
            fowner.append((c["id"], f))
    mb = {}
    for (i, f), m in zip(fowner, vlib.run_model(ctx, "C11", flines) if flines else []):
        mb.setdefault(i, {})[f] = parse_fmt_model(m)
    for c in cases:
        if c["id"] in mb:
            field_checks(col, "binmerge", {"phase": "binmerge", "case": {k: v for k, v in c.items() if k != "path"}}, structs[c["id"]], base,
                         c["show_ignored"], mb[c["id"]], True)
    for (c, f), (rc, so, se) in zip(jobs, results):
        cc = {"analyzers": real_names, "fail": c["fail"], "show_ignored": c["show_ignored"], "diags": c["diags"]}
        shown, oexit = merge_expected(cc, known)
        rec = {"phase": "binmerge", "case": {k: v for k, v in c.items() if k != "path"}, "format": f, "exit_status": rc,
               "how": "c11probe gob writes the lintResult; staticcheck -merge -f=%s [-fail=…] [-show-ignored] file" % f}
        if rc not in (0, 1):
            col.oracle_fail("binmerge-crash", dict(rec, stderr=se[-800:], what="staticcheck -merge exited %d" % rc))
            continue
        try:
            got = parse_output(f, so, base)[0]
        except (ValueError, KeyError, IndexError) as e:
            col.oracle_fail("merge-format-unparsable", dict(rec, stdout=so[:2000], error=str(e), what="-f %s output cannot be parsed back" % f))
            continue
        exp = sorted(diag_tuple(d) for d in shown)
        if got != exp:
            col.oracle_fail("merge-printed-" + f, dict(rec, printed=got, expected_printed=exp, what="staticcheck -merge -f %s does not print exactly the problems to be shown" % f))
        if oexit[f] is not None and rc != oexit[f]:
            cls = "merge-exit-ignored-counted" if (c["show_ignored"] and any(d["sev"] == 2 for d in c["diags"])) else "merge-exit"
            col.oracle_fail(cls, dict(rec, expected_exit_status=oexit[f], what="staticcheck -merge exits %d, per the property %d" % (rc, oexit[f])))
    cov["binary_merge"] = {"cases": len(cases), "runs_of_real_binary": len(jobs)}
    return len(jobs)


# =========================================================================== run

def run(ctx):
    lean_ok, lean_broke = vlib.std_lean_phase(ctx, MODULES, THEOREMS)
    probe = vlib.build_harness(ctx, "c11probe")
    binary = vlib.build_repo_cmd(ctx, "./cmd/staticcheck")

    rc, so, se = vlib.run([probe, "analyzers"], env=vlib.go_env())
    if rc != 0 or not so.strip():
        raise vlib.HarnessError("c11probe analyzers failed: " + se[-1000:])
    real_names, nondefault = [], []
    for l in so.split("\n"):
        if l.strip():
            n, nd = l.split()
            real_names.append(n)
            if nd == "1":
                nondefault.append(n)
    default_checks = ["all"] + ["-" + n for n in sorted(nondefault)]

    col = Collector()
    cov = {}
    import time
    timing = {"lean_and_builds_s": round(time.time() - ctx.t0, 1)}
    cpu0 = os.times()

    def timed(name, f, *a):
        t = time.time()
        c0 = os.times()
        r = f(*a)
        c1 = os.times()
        timing[name + "_s"] = round(time.time() - t, 1)
        timing[name + "_cpu_s"] = round((c1.children_user + c1.children_system + c1.user + c1.system)
                                        - (c0.children_user + c0.children_system + c0.user + c0.system), 1)
        return r
    replay = None
    if ctx.replay:
        replay = json.load(open(ctx.replay))
    evaluations = 0
    nontrivial = 0

    ph = replay.get("phase") if replay else None
    rcases = replay.get("cases") if replay else None
    # development aid (mutation experiments): C11_ONLY=merge,sel runs only these phases
    only = [x for x in os.environ.get("C11_ONLY", "").split(",") if x]

    if only and ph is None:
        ctx.notes.append("C11_ONLY=%s: only these phases were run" % ",".join(only))
    _phases = ["sel", "tree", "lintpkg", "load", "merge", "cli", "corpus", "binmerge"]
    skip = set(p_ for p_ in _phases if only and p_ not in only)
    evaluations += timed("chars", phase_chars, ctx, probe, cov)
    if ph in (None, "sel") and "sel" not in skip:
        e, n = timed("sel", phase_sel, ctx, probe, real_names, default_checks, col, cov, rcases)
        evaluations += e
        nontrivial += n
    if ph in (None, "tree") and "tree" not in skip:
        e, n = timed("tree", phase_tree, ctx, probe, real_names, default_checks, col, cov, rcases)
        evaluations += e
        nontrivial += n
    if ph in (None, "lintpkg") and "lintpkg" not in skip:
        e, n = timed("lintpkg", phase_lintpkg, ctx, probe, col, cov, rcases)
        evaluations += e
        nontrivial += n
    if ph in (None, "load") and "load" not in skip:
        e, n = timed("load", phase_load, ctx, probe, real_names, default_checks, col, cov, rcases)
        evaluations += e
        nontrivial += n
    if ph in (None, "merge") and "merge" not in skip:
        e, n = timed("merge", phase_merge, ctx, probe, col, cov, rcases)
        evaluations += e
        nontrivial += n
    if ph in (None, "cli") and "cli" not in skip:
        # first: its reference run warms the cache every later run of the binary shares
        e, n = timed("cli", phase_cli, ctx, binary, probe, real_names, default_checks, col, cov, rcases)
        evaluations += e
        nontrivial += n
    if ph in (None, "corpus") and "corpus" not in skip:
        evaluations += timed("corpus", phase_corpus, ctx, binary, real_names, col, cov)
    if ph in (None, "binmerge") and "binmerge" not in skip:
        evaluations += timed("binmerge", phase_binary_merge, ctx, binary, probe, real_names, col, cov)
    cpu1 = os.times()
    timing["cpu_children_s"] = round((cpu1.children_user + cpu1.children_system) - (cpu0.children_user + cpu0.children_system), 1)

    if col.internal:
        raise vlib.HarnessError("the Lean model and the Python oracle disagree with each other (check machinery is inconsistent): %s"
                                % json.dumps(col.internal[0])[:3000])

    samples = []
    for ph in ("sel", "tree", "lintpkg", "load", "merge", "cli"):
        if ph in cov and "sample" in cov[ph]:
            samples += [{"phase": ph, **s} for s in cov[ph].pop("sample")][:2]
    ctx.coverage.update({
        "evaluations": evaluations,
        "distinct_nontrivial": nontrivial,
        "rule": "sel: a list of >= 2 entries that selects a non-empty proper subset of the analyzers; tree: the package's directory chain has >= 2 files that "
                "set `checks`, or one plus a file in a directory that is not an ancestor; lintpkg: a useless-directive problem is reported, or some but not all "
                "line directives are silenced by the selection; load: >=2 files set `checks` or one uses \"inherit\"; merge: the -fail map splits the shown "
                "problems into errors and warnings, or an ignored problem is shown; cli: some package prints a non-empty proper subset of its problems",
        "samples": samples,
        "phases": cov,
        "timing": timing,
        "real_analyzers": len(real_names),
        "default_checks": default_checks,
    })
    ctx.assumptions += [
        "strings.ToLower / unicode.IsNumber are modelled by tables for ASCII + %d listed non-ASCII characters (numerals of categories Nd/No/Nl, letters "
        "with one-to-one, many-to-one and ASCII-valued lower case); the generators stay inside this alphabet; the tables are compared with the Go "
        "library on every character on every run (phase chars)" % len([c for c in ALPHABET if ord(c) > 127]),
        "TOML decoding (BurntSushi/toml), flag parsing of the comma separated lists (lintcmd.list.Set, mirrored in Python flag_list), "
        "go/packages and the analyzers themselves are outside the model; they are exercised by the runs",
        "which problems are ignored is C10's subject: in the CLI runs it is read off the real runs (printed with minus printed without -show-ignored); "
        "directive matching is modelled for glob-free check names only (filepath.Match is C10's subject)",
        "the order of problems and the merging of duplicates are C12's subject: the model is given the problems in the order the JSON run printed them; "
        "a rendering that differs from the model's only in the order of the problems is counted, not reported",
        "the formatters are modelled as abstract renderings (lines / objects with their fields); the concrete bytes (tabwriter padding, JSON and URI "
        "escaping, SARIF rule help texts, tool/invocation metadata) are reduced to that structure by the parsers of checks/c11.py (trusted)",
        "shortPath is mirrored in Python (os.path.relpath + length comparison) and handed to the model as a table; a wrong mirror shows as a rendering difference",
        "hypothesis Problem.wf of formats_agree (a position without line has no column; no file is called `-`) is probed on every real JSON output",
        "config.Dir: a file is 'in the build cache' iff its name starts with os.UserCacheDir(); //line directives that move a file's position into another directory are not modelled",
        "suggested fixes in SARIF (`fixes`) and the stat/open error paths of parseConfigs are not modelled",
    ]

    how = ("./check C11 --replay <this file> re-runs the listed cases; by hand: phase sel/tree/lintpkg/load/merge = harness/cmd/c11probe <phase> [dir] with the JSON "
           "case on stdin (sel: real filterAnalyzerNames; tree: real config.Analyzer per package; lintpkg: real success+filterIgnored; merge: real lintcmd.Command -merge), "
           "phase cli/corpus = build ./cmd/staticcheck, write corpus/C11/fixture (p.go into mod, mod/a, mod/a/b; "
           "staticcheck.conf per `levels` b,a,mod,top) and run `staticcheck <args>` in mod")
    for cls, fails in sorted(col.oracle.items()):
        first = fails[0]
        phase = first.get("phase")
        rcases = None
        if phase in ("sel", "tree", "lintpkg", "load", "merge", "cli"):
            seen, rcases = set(), []
            for f in fails:
                if not isinstance(f.get("case"), dict):
                    continue
                key = json.dumps(f["case"], sort_keys=True)
                if key not in seen and len(rcases) < 25:
                    seen.add(key)
                    rcases.append(f["case"])
        obj = {"property": "C11", "class": cls, "phase": phase, "what": first.get("what", cls), "how_to_replay": how,
               "count": len(fails), "first": first, "more": fails[1:6]}
        if rcases is not None:
            obj["cases"] = rcases
        ctx.violation("%s.json" % cls, obj, text="C11 %s: %d failing evaluations, e.g. %s" % (cls, len(fails), first.get("what", "")))
    if not col.oracle and (col.model or not lean_ok):
        first_cls = sorted(col.model)[0] if col.model else None
        ctx.violation("correspondence.json", {
            "what": "the model no longer corresponds to the code (or a proof no longer checks); the oracle holds on everything explored, "
                    "including the targeted follow-up runs",
            "lean": lean_broke,
            "streams": {k: {"count": len(v), "first": v[0]} for k, v in sorted(col.model.items())},
            "correspondence": "C11 stream %s; theorems %s" % (first_cls, ", ".join(THEOREMS)),
        }, nofail=True, text="C11 model/implementation correspondence broke: %s" % (
            "; ".join("%s (%d): %s" % (k, len(v), str(v[0].get("what", ""))[:200]) for k, v in sorted(col.model.items())) or "lean: %s" % str(lean_broke)[:300]))
    return vlib.finish(ctx, "proof")


META = {
    "level": "proof",
    "technique": "Lean 4 theorems over a transliterated model of config merging (incl. the per-package directory lookup over arbitrary trees), "
                 "filterAnalyzerNames (Unicode-aware on a probed alphabet), success + filterIgnored's selection dependent directive problems, the counting / "
                 "exit-status computation incl. the exit code 2 paths, and the four formatters as abstract renderings with proved read-back functions; "
                 "executable correspondence in-process (the real filterAnalyzerNames through go:linkname on >= 12 k lists per quick run, the real "
                 "config.Analyzer + Merge + filterAnalyzerNames per package on generated directory trees, the real success + filterIgnored, the real "
                 "lintcmd.Command -merge on crafted results with end positions / related information / build names x 4 formats) and end-to-end (the "
                 "staticcheck binary on a fixed module under generated -checks/-fail/conf trees x 4 formats + 21 corpus modules), every real rendering "
                 "compared field by field with the model's rendering and with the other formats",
    "text": "selection_spec, effective_selection, package_selection (for all trees: the effective list of a package is the fold of the conf files from the "
            "outermost directory inward followed by -checks), lintPackage_full_spec (directive problems depend on the selection), exit_spec, exit_code_spec, "
            "and for the formats clause text_extract / stylish_extract / json_extract / sarif_extract (the problems readable from each rendering are exactly "
            "the problems handed to the formatter) hence formats_agree / formats_same_problems, severity_spec, ignored_only_with_show_ignored, "
            "sarif_suppression_spec, stylish_stats_spec are proved for all inputs; the model is tied to the code by nine correspondence streams, and the "
            "property itself (documented algebra evaluated independently in Python; cross-format field agreement on the real outputs) is evaluated on "
            "every real output.",
    "note": "Trusted: Lean kernel (axioms propext/Classical.choice/Quot.sound), c11driver (compiled model), harness/cmd/c11probe (go:linkname to "
            "lintcmd.filterAnalyzerNames / makeCaseFoldedStrings, the exported C10 wrapper VerifC10FilterIgnored of lintcmd/verif_c10.go), the output "
            "parsers and the shortPath mirror of checks/c11.py. The former formats_same_problems (true by rfl) was replaced by the statement about the "
            "formatters and is kept as lemma shown_list_format_independent.",
    "design_ref": "DESIGN.md section 5, C11; section 6 row 7",
}
