"""C19 — structlayout matches the compiler; optimize never grows a struct.

Lean: Verif/C19/{Model,Lemmas,Optimize,Layout,Combine,CombineLayout,Leaves,Theorems}.lean
(gc rules = specification, go/gcsizes, cmd/structlayout `sizes`, cmd/structlayout-optimize
`combine`/`optimize`/`pad`; 18 property theorems, see notes/C19.md).

Tie X and oracle, per run:
  1. a seeded generator makes N struct types (Ty trees); they are rendered as Go source;
  2. the real go/gcsizes is called in-process (harness/cmd/c19sizes) on that source;
  3. the real `sizes` of cmd/structlayout and the complete real main of cmd/structlayout-optimize
     [-r] run on every type inside two batch drivers compiled from the tree's own main.go files
     (harness/cmd/c19batch/*.tmpl, `func main` renamed); a sample of the types additionally goes
     through the real binaries `structlayout -json . Ti | structlayout-optimize -json [-r]`;
  4. ONE compiled program prints unsafe.Sizeof/Alignof/Offsetof of every node of every type and
     of every struct with its fields in the order structlayout-optimize proposed (the compiler =
     oracle and reference of the Lean specification);
  5. the Lean model (c19driver) computes gc / gcsizes / layout / leaves / optimize for the same Ty;
  6. synthetic record lists (not from a compiler) go through the real structlayout-optimize and
     the model.
Oracle (on the real code's outputs only): gcsizes == compiler; structlayout's records tile
[0, Sizeof T) and its field records are the compiler's leaves; optimize's output is a
permutation of the input fields, a valid layout, and not larger than the original; the proposed
field order does not compile to a larger struct.
"""
import json
import os
from concurrent.futures import ThreadPoolExecutor

import vlib

MODULES = ["Verif.C19.Theorems"]
THEOREMS = [
    # every type of the grammar: alignment in {1,2,4,8} and alignment | size (discharges the hypotheses below)
    "Verif.C19.types_wellformed",
    # go/gcsizes = compiler rules, all types / all field lists
    "Verif.C19.gcsizes_eq_gc",
    "Verif.C19.gcsizes_offsets_eq_gc",
    # cmd/structlayout: records tile [0, Sizeof T), are a valid roomy layout, field records = the compiler's leaves
    "Verif.C19.layout_tiles",
    "Verif.C19.layout_fields_aligned",
    "Verif.C19.layout_fields_eq_gc",
    "Verif.C19.layout_is_good_input",
    # cmd/structlayout-optimize -r on ALL record lists (hypotheses explicit)
    "Verif.C19.optimize_perm",
    "Verif.C19.optimize_valid",
    "Verif.C19.optimize_not_larger",
    "Verif.C19.optimize_not_larger_of_dvd",
    # ... for every order an unstable sort.Sort may leave tied fields in
    "Verif.C19.optimize_any_sort",
    # ... composed with structlayout, all struct types, both modes
    "Verif.C19.combine_layout_fields",
    "Verif.C19.optimize_layout_perm",
    "Verif.C19.optimize_r_layout_perm",
    "Verif.C19.optimize_layout_valid",
    "Verif.C19.optimize_r_layout_not_larger",
    "Verif.C19.optimize_layout_not_larger",
]

CORPUS = os.path.join(vlib.VERIF, "corpus", "C19", "types.json")

# ----------------------------------------------------------------------------- Ty
# ["prim", kind, gosrc] | ["named", name, is_alias, ty] | ["array", n, ty]
# | ["struct", [[fieldname, embedded, ty], ...]]
PRIMS = [
    ("bool", "bool"), ("i8", "int8"), ("i16", "int16"), ("i32", "int32"), ("i64", "int64"),
    ("u8", "uint8"), ("u8", "byte"), ("u16", "uint16"), ("u32", "uint32"), ("i32", "rune"), ("u64", "uint64"),
    ("f32", "float32"), ("f64", "float64"), ("c64", "complex64"), ("c128", "complex128"),
    ("str", "string"), ("int", "int"), ("uint", "uint"), ("uptr", "uintptr"), ("usp", "unsafe.Pointer"),
    ("ptr", "*int8"), ("ptr", "*[3]int64"), ("ptr", "*struct{ a, b int64 }"), ("ptr", "*string"),
    ("slice", "[]byte"), ("slice", "[]struct{}"), ("slice", "[]int64"),
    ("iface", "any"), ("iface", "error"), ("iface", "interface{ M() int }"),
    ("map", "map[string]int"), ("chan", "chan int8"), ("chan", "<-chan struct{}"),
    ("func", "func()"), ("func", "func(int8) (int64, error)"),
]
SMALL = [p for p in PRIMS if p[0] in ("bool", "i8", "i16", "i32", "u8", "u16", "f32", "c64")]
KINDS = sorted(set(k for k, _ in PRIMS))


def is_struct(t):
    while t[0] == "named":
        t = t[3]
    return t[0] == "struct"


def struct_fields(t):
    while t[0] == "named":
        t = t[3]
    return t[1]


def underlying_kind(t):
    while t[0] == "named":
        t = t[3]
    return t[1] if t[0] == "prim" else t[0]


class Gen:
    """Seeded generator of struct types. Every random choice comes from one SplitMix."""

    def __init__(self, rng):
        self.r = rng
        self.nnamed = 0
        self.pool = []       # named types available for reuse
        self.hist = {}

    def hit(self, k):
        self.hist[k] = self.hist.get(k, 0) + 1

    def prim(self):
        r = self.r
        k, src = r.choice(SMALL) if r.chance(1, 3) else r.choice(PRIMS)
        self.hit("prim:" + k)
        return ["prim", k, src]

    def zero_size(self, depth):
        r = self.r
        c = r.below(6)
        self.hit("zero-size")
        if c == 0:
            return ["struct", []]
        if c == 1:
            return ["array", 0, self.ty(depth + 1)]
        if c == 2:
            return ["array", 0, ["prim"] + list(r.choice([("i64", "int64"), ("c128", "complex128"), ("i8", "int8"), ("i32", "int32"), ("str", "string")]))]
        if c == 3:
            return ["array", 1 + r.below(4), ["struct", []]]
        if c == 4:
            return ["struct", [["z%d" % i, False, self.zero_size(depth + 1)] for i in range(1 + r.below(2))]] if depth < 3 else ["struct", []]
        return self.maybe_named(["struct", []])

    def maybe_named(self, t):
        r = self.r
        if r.chance(1, 4):
            self.nnamed += 1
            alias = r.chance(1, 3)
            self.hit("alias" if alias else "named")
            nt = ["named", "N%d" % self.nnamed, alias, t]
            if r.chance(1, 4) and t[0] != "named":
                self.nnamed += 1
                self.hit("alias-of-named")
                nt = ["named", "N%d" % self.nnamed, True, nt]
            self.pool.append(nt)
            return nt
        return t

    def ty(self, depth):
        r = self.r
        c = r.below(100)
        if self.pool and c < 8:
            self.hit("named-reuse")
            return r.choice(self.pool)
        if c < 55 or depth >= 3:
            return self.maybe_named(self.prim())
        if c < 65:
            return self.zero_size(depth)
        if c < 78:
            n = r.choice([0, 1, 1, 2, 3, 5])
            self.hit("array0" if n == 0 else "array")
            return self.maybe_named(["array", n, self.ty(depth + 1)])
        self.hit("nested-struct")
        return self.maybe_named(self.struct(depth + 1, r.below(4) if r.chance(1, 6) else 1 + r.below(4)))

    def struct(self, depth, nfields):
        r = self.r
        fields = []
        used = set()
        for i in range(nfields):
            t = self.ty(depth)
            name, emb = "f%d" % i, False
            if t[0] == "named" and underlying_kind(t) not in ("ptr", "usp", "iface") and t[1] not in used and r.chance(1, 3):
                name, emb = t[1], True
                used.add(t[1])
                self.hit("embedded")
            fields.append([name, emb, t])
        if nfields and r.chance(1, 4):
            # trailing zero-size field
            self.hit("trailing-zero-size")
            fields.append(["fz", False, self.zero_size(depth)])
        if nfields and r.chance(1, 12):
            self.hit("leading-zero-size")
            fields.insert(0, ["fy", False, self.zero_size(depth)])
        return ["struct", fields]

    def top(self):
        r = self.r
        c = r.below(40)
        if c == 0:
            self.hit("top:empty")
            return ["struct", []]
        if c == 1:
            self.hit("top:all-zero-size")
            return ["struct", [["f%d" % i, False, self.zero_size(1)] for i in range(1 + r.below(3))]]
        return self.struct(0, 1 + r.below(7))


def model_tokens(t):
    if t[0] == "prim":
        return [t[1]]
    if t[0] == "named":
        return ["N"] + model_tokens(t[3])
    if t[0] == "array":
        return ["A", str(t[1])] + model_tokens(t[2])
    out = ["S", str(len(t[1]))]
    for name, emb, ft in t[1]:
        out += [name] + model_tokens(ft)
    return out


def go_src(t, decls):
    """Go type expression; named types are collected into decls {name: declaration}."""
    if t[0] == "prim":
        return t[2]
    if t[0] == "named":
        if t[1] not in decls:
            decls[t[1]] = None  # reserve (keeps declaration order deterministic)
            decls[t[1]] = "type %s %s%s" % (t[1], "= " if t[2] else "", go_src(t[3], decls))
        return t[1]
    if t[0] == "array":
        return "[%d]%s" % (t[1], go_src(t[2], decls))
    if not t[1]:
        return "struct{}"
    parts = []
    for name, emb, ft in t[1]:
        s = go_src(ft, decls)
        parts.append(s if emb else "%s %s" % (name, s))
    return "struct{ " + "; ".join(parts) + " }"


def nodes(t, path):
    """pre-order nodes of the flattening structlayout performs: (path, 's'|'l')."""
    if is_struct(t) and struct_fields(t):
        out = [(path, "s")]
        for name, emb, ft in struct_fields(t):
            out += nodes(ft, path + [name])
        return out
    return [(path, "l")]


def render_module(ctx, d, types, extra_types=()):
    """Write the Go module: ./types.go + ./main.go (package main, the printing program)
    and ./p/types.go (package p, what structlayout and c19sizes read)."""
    decls = {}
    tdecl = []
    for i, t in enumerate(types):
        tdecl.append("type T%d %s" % (i, go_src(t, decls)))
    body = "\n".join([v for v in decls.values()] + tdecl) + "\n"
    # extra types (the structs as reordered by structlayout-optimize): only in the printing program
    xdecl = []
    for i, t in enumerate(extra_types):
        xdecl.append("type T%d %s" % (len(types) + i, go_src(t, decls)))
    body_main = "\n".join([v for v in decls.values()] + tdecl + xdecl) + "\n"
    imp = 'import "unsafe"\n\nvar _ unsafe.Pointer\n\n'
    os.makedirs(os.path.join(d, "p"), exist_ok=True)
    with open(os.path.join(d, "go.mod"), "w") as f:
        f.write("module example.com/c19\n\ngo 1.26\n")
    with open(os.path.join(d, "types.go"), "w") as f:
        f.write("package main\n\n" + imp + body_main)
    with open(os.path.join(d, "p", "types.go"), "w") as f:
        f.write("package p\n\n" + imp + body)
    types = list(types) + list(extra_types)
    # builtin println (to stderr) on constant operands: no fmt, no interface boxing, no type descriptors
    lines = ["package main", "", 'import "unsafe"', ""]
    for i in range(len(types)):
        lines.append("var v%d T%d" % (i, i))
    lines.append("")
    # one small function per type: the compiler's cost is superlinear in the size of a function
    for i, t in enumerate(types):
        lines.append("func p%d() {" % i)
        for path, kind in nodes(t, []):
            # offset relative to the enclosing struct; compile_facts sums along the path
            sel = ".".join(["v%d" % i] + path)
            off = "unsafe.Offsetof(%s)" % sel if path else "0"
            lines.append('\tprintln(%d, "%s", "%s", %s, unsafe.Sizeof(%s), unsafe.Alignof(%s))' % (
                i, ".".join(["T"] + path), kind, off, sel, sel))
        lines.append("}")
    lines.append("")
    lines.append("func main() {")
    for i in range(len(types)):
        lines.append("\tp%d()" % i)
    lines.append("}")
    with open(os.path.join(d, "main.go"), "w") as f:
        f.write("\n".join(lines) + "\n")
    return body


def compile_facts(ctx, d, n):
    """build and run the printing program: facts[i] = list of (name, kind, off, size, align)."""
    prog = os.path.join(d, "prog.bin")
    rc, so, se = vlib.run([vlib.GO, "build", "-o", prog, "."], cwd=d, env=vlib.go_env(), timeout=1800)
    if rc != 0:
        raise vlib.HarnessError("generated program does not compile (generator bug):\n" + (so + se)[-3000:])
    rc, so, se = vlib.run([prog], cwd=d, timeout=600)
    if rc != 0:
        raise vlib.HarnessError("generated program failed:\n" + (so + se)[-3000:])
    facts = [[] for _ in range(n)]
    absoff = {}
    for line in se.splitlines():
        p = line.split()
        i, name = int(p[0]), p[1]
        parent = name.rsplit(".", 1)[0] if "." in name else None
        # nodes come in pre-order: the parent's absolute offset is known
        absoff[(i, name)] = (absoff[(i, parent)] if parent is not None else 0) + int(p[3])
        facts[i].append((name, p[2], absoff[(i, name)], int(p[4]), int(p[5])))
    return facts


# ----------------------------------------------------------------------------- records
def rec_from_json(j, tname):
    name = j["name"]
    if not j["is_padding"]:
        comps = name.split(".")
        if comps[0] == tname:
            comps[0] = "T"
        name = ".".join(comps)
    return {"name": name, "start": j["start"], "end": j["end"], "size": j["size"], "align": j["align"], "pad": bool(j["is_padding"])}


def rec_from_model(tok):
    p = tok.split(":")
    if p[0] == "p":
        return {"name": "", "start": int(p[1]), "end": int(p[2]), "size": int(p[3]), "align": 0, "pad": True}
    return {"name": p[1], "start": int(p[2]), "end": int(p[3]), "size": int(p[4]), "align": int(p[5]), "pad": False}


def recs_from_model(line):
    if line == "-":
        return []
    return [rec_from_model(t) for t in line.split()]


def rec_token(r):
    if r["pad"]:
        return "p:%d:%d:%d" % (r["start"], r["end"], r["size"])
    return "f:%s:%d:%d:%d:%d" % (r["name"], r["start"], r["end"], r["size"], r["align"])


def show(recs):
    return " ".join(rec_token(r) for r in recs) or "-"


def canon_ties(recs):
    """sort.Sort is not stable: fields with equal (size, align) may come in any order.
    Canonicalise by sorting the names inside each run of equal (size, align) fields."""
    idx = [i for i, r in enumerate(recs) if not r["pad"]]
    out = [dict(r) for r in recs]
    i = 0
    while i < len(idx):
        j = i
        key = (recs[idx[i]]["size"], recs[idx[i]]["align"])
        while j + 1 < len(idx) and (recs[idx[j + 1]]["size"], recs[idx[j + 1]]["align"]) == key:
            j += 1
        names = sorted(recs[idx[k]]["name"] for k in range(i, j + 1))
        for k in range(i, j + 1):
            out[idx[k]]["name"] = names[k - i]
        i = j + 1
    return out


def tiles(recs, total):
    """records partition [0,total): contiguous, end = start + size, no negative sizes."""
    pos = 0
    for r in recs:
        if r["start"] != pos:
            return "record %s starts at %d, previous record ended at %d (%s)" % (rec_token(r), r["start"], pos, "gap" if r["start"] > pos else "overlap")
        if r["size"] < 0 or r["end"] != r["start"] + r["size"]:
            return "record %s: end != start + size" % rec_token(r)
        pos = r["end"]
    if pos != total:
        return "records end at %d, the struct's size is %d" % (pos, total)
    return None


# ----------------------------------------------------------------------------- oracles
def oracle_gcsizes(facts, gline):
    """real gcsizes (c19sizes output line) against the compiler."""
    p = gline.split()
    root = facts[0]
    top = [f for f in facts[1:] if f[0].count(".") == 1]
    lst = lambda s: [] if s == "-" else [int(x) for x in s.split(",")]
    errs = []
    if int(p[1]) != root[3]:
        errs.append("Sizeof(T) = %s, compiler %d" % (p[1], root[3]))
    if int(p[2]) != root[4]:
        errs.append("Alignof(T) = %s, compiler %d" % (p[2], root[4]))
    offs, sizes, aligns = lst(p[3]), lst(p[4]), lst(p[5])
    if len(offs) != len(top):
        errs.append("field count %d vs %d" % (len(offs), len(top)))
        return errs
    for f, o, s, a in zip(top, offs, sizes, aligns):
        if o != f[2]:
            errs.append("Offsetsof %s = %d, compiler %d" % (f[0], o, f[2]))
        if s != f[3]:
            errs.append("Sizeof(%s) = %d, compiler %d" % (f[0], s, f[3]))
        if a != f[4]:
            errs.append("Alignof(%s) = %d, compiler %d" % (f[0], a, f[4]))
    return errs


def last_of_nonzero_struct(facts, k):
    """is leaf k the last leaf of an enclosing struct of non-zero size? (then the compiler
    adds one byte after it if it has size zero, and structlayout may show it as size 1)"""
    name = facts[k][0]
    for (n, kind, off, size, al) in facts:
        if kind != "s" or not name.startswith(n + "."):
            continue
        leaves = [f[0] for f in facts if f[1] == "l" and f[0].startswith(n + ".")]
        if leaves and leaves[-1] == name and size > 0:
            return True
    return False


def oracle_layout(facts, recs):
    """real structlayout records against the compiler: tiling of [0, Sizeof T) and field
    records == the compiler's leaves (name, offset, size, alignment)."""
    root = facts[0]
    errs = []
    if root[1] == "l":      # empty struct: nothing to report
        return [] if not recs else ["records for an empty struct"]
    t = tiles(recs, root[3])
    if t:
        errs.append(t)
    leaves = [(k, f) for k, f in enumerate(facts) if f[1] == "l"]
    fr = [r for r in recs if not r["pad"]]
    if [r["name"] for r in fr] != [f[0] for _, f in leaves]:
        errs.append("field records %s, leaves %s" % ([r["name"] for r in fr], [f[0] for _, f in leaves]))
        return errs
    for r, (k, f) in zip(fr, leaves):
        if r["start"] != f[2]:
            errs.append("%s at offset %d, compiler %d" % (f[0], r["start"], f[2]))
        if r["align"] != f[4]:
            errs.append("%s align %d, compiler %d" % (f[0], r["align"], f[4]))
        if r["size"] != f[3]:
            if not (f[3] == 0 and r["size"] == 1 and last_of_nonzero_struct(facts, k)):
                errs.append("%s size %d, compiler %d" % (f[0], r["size"], f[3]))
    for r in recs:
        if r["pad"] and r["size"] <= 0:
            errs.append("empty padding record at %d" % r["start"])
    return errs


def oracle_optimize(orig_total, in_fields, out, exact_sizes):
    """in_fields: list of (name, size, align) the output must be a permutation of.
    exact_sizes=False: a field whose true size is 0 may be shown with size 0, 1 or its
    alignment (the byte the compiler adds after a trailing zero-size field, as it is or rounded
    up to the field's alignment)."""
    errs = []
    fo = [r for r in out if not r["pad"]]
    if sorted(r["name"] for r in fo) != sorted(n for n, _, _ in in_fields):
        errs.append("not a permutation: input fields %s, output fields %s" % (sorted(n for n, _, _ in in_fields), sorted(r["name"] for r in fo)))
        return errs
    by = {}
    for n, s, a in in_fields:
        by.setdefault(n, []).append((s, a))
    for r in fo:
        cands = by[r["name"]]
        ok = False
        for (s, a) in cands:
            if a == r["align"] and (s == r["size"] or (not exact_sizes and s == 0 and r["size"] in (0, 1, a))):
                ok = True
        if not ok:
            errs.append("field %s has size %d align %d in the output, input %s" % (r["name"], r["size"], r["align"], cands))
    total = out[-1]["end"] if out else 0
    t = tiles(out, total)
    if t:
        errs.append("not a valid layout: " + t)
    mx = 1
    for r in fo:
        mx = max(mx, r["align"])
        if r["align"] <= 0 or r["start"] % r["align"] != 0:
            errs.append("not a valid layout: %s at offset %d is not aligned to %d" % (r["name"], r["start"], r["align"]))
    if total % mx != 0:
        errs.append("not a valid layout: size %d is not a multiple of the alignment %d" % (total, mx))
    if total > orig_total:
        errs.append("optimized size %d is larger than the original %d" % (total, orig_total))
    return errs


# ----------------------------------------------------------------------------- pipeline
BATCH_TMPL = os.path.join(vlib.HARNESS, "cmd", "c19batch")


def build_batch(ctx):
    """Build the two batch drivers from the REAL sources of the tree under test:
    <repo>/cmd/structlayout/main.go and <repo>/cmd/structlayout-optimize/main.go are copied
    (only `func main()` renamed to `func cliMain()`) next to harness/cmd/c19batch/*.tmpl into
    a scratch module with `replace honnef.co/go/tools => <repo>`."""
    vlib.sync_harness_gosum()
    root = os.path.dirname(ctx.path("batch", "go.mod"))
    gm = open(os.path.join(vlib.HARNESS, "go.mod")).read()
    gm = gm.replace("module verif/harness", "module verif/c19batch").replace("=> /repo", "=> " + os.path.realpath(vlib.REPO))
    open(os.path.join(root, "go.mod"), "w").write(gm)
    vlib.shutil.copy(os.path.join(vlib.HARNESS, "go.sum"), os.path.join(root, "go.sum"))
    for name, cmd in (("layout", "structlayout"), ("optimize", "structlayout-optimize")):
        d = os.path.join(root, name)
        os.makedirs(d, exist_ok=True)
        src = open(os.path.join(vlib.REPO, "cmd", cmd, "main.go")).read()
        if src.count("\nfunc main() {") != 1:
            raise vlib.HarnessError("cmd/%s/main.go: cannot find `func main() {` to wrap" % cmd)
        open(os.path.join(d, "main.go"), "w").write(src.replace("\nfunc main() {", "\nfunc cliMain() {"))
        vlib.shutil.copy(os.path.join(BATCH_TMPL, name + "_driver.go.tmpl"), os.path.join(d, "driver.go"))
    outdir = os.path.dirname(ctx.path("bin_batch", "x"))
    rc, so, se = vlib.run([vlib.GO, "build", "-tags", "verif", "-o", outdir + os.sep, "./layout", "./optimize"], cwd=root, env=vlib.go_env(), timeout=1200)
    if rc != 0:
        raise vlib.BuildError("go build of the batch drivers around cmd/structlayout{,-optimize} failed:\n%s" % (so + se)[-6000:])
    return {"layout": os.path.join(outdir, "layout"), "optimize": os.path.join(outdir, "optimize")}


def build_repo_cmds(ctx):
    """structlayout and structlayout-optimize of the tree under test, one go invocation."""
    outdir = os.path.dirname(ctx.path("bin_repo", "x"))
    rc, so, se = vlib.run([vlib.GO, "build", "-tags", "verif", "-o", outdir + os.sep, "./cmd/structlayout", "./cmd/structlayout-optimize"],
                          cwd=vlib.REPO, env=vlib.go_env(), timeout=1200)
    if rc != 0:
        raise vlib.BuildError("go build ./cmd/structlayout ./cmd/structlayout-optimize failed:\n%s" % (so + se)[-6000:])
    return {"structlayout": os.path.join(outdir, "structlayout"), "structlayout-optimize": os.path.join(outdir, "structlayout-optimize")}


def run_optimize_batch(ctx, bins, jobs):
    """jobs: list of (recurse: bool, json text). Returns a list of ("ok", parsed) | ("crash", msg).
    One process for all jobs; if it dies, the jobs are re-run one by one through the real binary."""
    inp = "".join("%d %s\n" % (1 if r else 0, j.strip()) for r, j in jobs)
    rc, so, se = vlib.run([bins["batch-optimize"]], input=inp, env=vlib.go_env(), timeout=1800)
    lines = so.splitlines()
    if rc == 0 and len(lines) == len(jobs):
        return [("ok", json.loads(l)) for l in lines]
    res = []
    for r, j in jobs:
        rc2, so2, se2 = vlib.run([bins["structlayout-optimize"], "-json"] + (["-r"] if r else []), input=j, env=vlib.go_env(), timeout=600)
        res.append(("ok", json.loads(so2) if so2.strip() else []) if rc2 == 0 else ("crash", "rc=%d %s" % (rc2, se2[-300:])))
    return res


def run_real(ctx, bins, d, n):
    """structlayout's records for T0..T(n-1) (batch driver around the real `sizes`) and
    structlayout-optimize [-r] on them (batch driver around the real main)."""
    rc, so, se = vlib.run([bins["batch-layout"], os.path.join(d, "p", "types.go"), str(n)], env=vlib.go_env(), timeout=1800)
    lines = so.splitlines()
    if rc != 0 or len(lines) != n:
        raise vlib.HarnessError("batch structlayout failed: rc=%d %s" % (rc, se[-2000:]))
    jobs = []
    for l in lines:
        jobs += [(False, l), (True, l)]
    opt = run_optimize_batch(ctx, bins, jobs)
    return [("ok", json.loads(lines[i]), opt[2 * i], opt[2 * i + 1]) for i in range(n)]


def run_cli(ctx, bins, d, idx):
    """The real binaries end to end, `structlayout -json . Ti | structlayout-optimize -json [-r]`,
    for the sampled type numbers idx."""
    env = vlib.go_env()
    pdir = os.path.join(d, "p")

    def one(i):
        rc, so, se = vlib.run([bins["structlayout"], "-json", ".", "T%d" % i], cwd=pdir, env=env, timeout=600)
        if rc != 0:
            return ("error", "structlayout T%d: rc=%d %s" % (i, rc, se[-500:]), None, None)
        lay = json.loads(so)
        res = []
        for flag in ([], ["-r"]):
            rc2, so2, se2 = vlib.run([bins["structlayout-optimize"], "-json"] + flag, input=so, env=env, timeout=600)
            if rc2 != 0:
                res.append(("crash", "rc=%d %s" % (rc2, se2[-300:])))
            else:
                res.append(("ok", json.loads(so2) if so2.strip() else []))
        return ("ok", lay, res[0], res[1])

    with ThreadPoolExecutor(max_workers=4) as ex:
        return dict(zip(idx, ex.map(one, idx)))


def pipeline(ctx, bins, types, tag, stats, cli_sample=0):
    """Run all types through compiler, real code and model. Returns (oracle failures,
    model/implementation differences); each a list of dicts."""
    n = len(types)
    d = ctx.path("mod_" + tag, "go.mod")
    d = os.path.dirname(d)
    src = render_module(ctx, d, types)
    rc, so, se = vlib.run([bins["c19sizes"], os.path.join(d, "p", "types.go"), str(n)], env=vlib.go_env(), timeout=600)
    if rc != 0:
        raise vlib.HarnessError("c19sizes failed: " + se[-2000:])
    glines = so.splitlines()
    t1 = vlib.time.time()
    cli = run_real(ctx, bins, d, n)
    stats["t_batch_s"] = stats.get("t_batch_s", 0) + round(vlib.time.time() - t1, 1)
    # the structs as reordered by structlayout-optimize (default mode): compiled in the same program
    reorder = []
    for i in range(n):
        ost, oj = cli[i][2]
        if ost != "ok" or not is_struct(types[i]):
            continue
        order = [j["name"].split(".", 1)[1] if "." in j["name"] else j["name"] for j in oj if not j["is_padding"]]
        fm = {name: (name, emb, ft) for name, emb, ft in struct_fields(types[i])}
        if order and sorted(order) == sorted(fm):
            reorder.append((i, order, ["struct", [list(fm[nm]) for nm in order]]))
    render_module(ctx, d, types, [r[2] for r in reorder])
    t1 = vlib.time.time()
    facts_all = compile_facts(ctx, d, n + len(reorder))
    facts, facts_re = facts_all[:n], facts_all[n:]
    stats["t_compile_s"] = stats.get("t_compile_s", 0) + round(vlib.time.time() - t1, 1)
    # a sample of the types through the real binaries end to end (main(), packages.Load, flags)
    t1 = vlib.time.time()
    k = min(n, cli_sample)
    sample = sorted(set(int(x * n / k) for x in range(k))) if k else []
    e2e = run_cli(ctx, bins, d, sample)
    stats["t_cli_s"] = stats.get("t_cli_s", 0) + round(vlib.time.time() - t1, 1)

    toks = [" ".join(model_tokens(t)) for t in types]
    mlines = []
    for tk in toks:
        mlines += ["gc " + tk, "gcs " + tk, "lay " + tk, "opt 0 " + tk, "opt 1 " + tk, "leaves " + tk]
    mout = vlib.run_model(ctx, "C19", mlines)
    fails, diffs = [], []

    def case(i):
        decls = {}
        s = go_src(types[i], decls)
        return {"type": "type T " + s,
                "decls": [v for v in decls.values()], "ty": types[i], "model_input": toks[i]}

    for i in range(n):
        mgc, mgcs, mlay, mopt0, mopt1, mleaves = mout[6 * i:6 * i + 6]
        if "bad-op" in (mgc, mgcs, mlay, mopt0, mopt1, mleaves):
            raise vlib.HarnessError("model rejected type: " + toks[i])
        f = facts[i]
        # the Lean specification of the leaves (gcLeavesFields, what layout_fields_eq_gc is stated
        # against) is what the compiler says (a mismatch is a bug of this framework)
        want = " ".join("l:%s:%d:%d:%d" % (x[0], x[2], x[3], x[4]) for x in f if x[1] == "l") if f[0][1] == "s" else "-"
        if mleaves != want:
            raise vlib.HarnessError("Lean leaf specification disagrees with the compiler on %s: %s vs %s" % (toks[i], mleaves, want))
        stats["leaf_spec_cases"] += 1
        # the specification against the compiler (a mismatch is a bug of this framework)
        spec_line = "%d %s" % (i, mgc)
        e = oracle_gcsizes(f, spec_line)
        if e:
            raise vlib.HarnessError("Lean gc specification disagrees with the compiler on %s: %s" % (toks[i], e))
        # 1. gcsizes
        e = oracle_gcsizes(f, glines[i])
        stats["gcsizes_cases"] += 1
        if e:
            fails.append(dict(case(i), what="gcsizes", errors=e[:6], real=glines[i].split(None, 1)[1], compiler=[list(x) for x in f[:12]]))
        if glines[i].split(None, 1)[1] != mgcs:
            diffs.append(dict(case(i), stream="gcsizes", real=glines[i].split(None, 1)[1], model=mgcs))
        # 2./3. structlayout and structlayout-optimize: batch drivers around the real sources for every
        # type, the real binaries end to end for the sampled types
        for via, (st, lay, o0, o1) in [("batch", cli[i])] + ([("cli", e2e[i])] if i in e2e else []):
            if via == "cli":
                stats["cli_e2e_types"] += 1
            if st != "ok":
                raise vlib.HarnessError(lay)
            recs = [rec_from_json(j, "T%d" % i) for j in lay]
            e = oracle_layout(f, recs)
            stats["layout_cases"] += 1
            if e:
                fails.append(dict(case(i), via=via, what="structlayout", errors=e[:6], real=show(recs), compiler=[list(x) for x in f[:16]]))
            if show(recs) != show(recs_from_model(mlay)):
                diffs.append(dict(case(i), via=via, stream="structlayout", real=show(recs), model=show(recs_from_model(mlay))))
            # 3. structlayout-optimize, both modes
            top = [(x[0], x[3], x[4]) for x in f[1:] if x[0].count(".") == 1]
            leaves_in = [(r["name"], r["size"], r["align"]) for r in recs if not r["pad"]]
            for mode, (ost, oj), mo in (("", o0, mopt0), ("-r", o1, mopt1)):
                stats["optimize_cases"] += 1
                if ost != "ok":
                    fails.append(dict(case(i), via=via, what="optimize" + mode, errors=["structlayout-optimize crashed: " + oj], input=show(recs)))
                    continue
                out = [rec_from_json(j, "T%d" % i) for j in oj]
                if f[0][1] == "l":
                    e = [] if not out else ["output for an empty struct"]
                elif mode == "":
                    e = oracle_optimize(f[0][3], top, out, exact_sizes=False)
                else:
                    e = oracle_optimize(f[0][3], leaves_in, out, exact_sizes=True)
                if e:
                    fails.append(dict(case(i), via=via, what="optimize" + mode, errors=e[:6], input=show(recs), real=show(out), original_size=f[0][3]))
                if show(canon_ties(out)) != show(canon_ties(recs_from_model(mo))):
                    diffs.append(dict(case(i), via=via, stream="optimize" + mode, real=show(out), model=show(recs_from_model(mo))))

    # 5. what the compiler makes of the reordered structs
    for (i, order, _), f2 in zip(reorder, facts_re):
        stats["reordered_compiled"] += 1
        if f2[0][3] > facts[i][0][3]:
            fails.append(dict(case(i), what="optimize-compiled", errors=["field order %s proposed by structlayout-optimize compiles to %d bytes, the original to %d" % (order, f2[0][3], facts[i][0][3])]))
    stats["source_bytes"] += len(src)
    return fails, diffs


# ----------------------------------------------------------------------------- synthetic optimize inputs
def synth_records(rng):
    """A record list as structlayout prints it for a struct whose fields are scalars or
    one-level nested structs: alignments are powers of two, sizes multiples of the
    alignment (zero included), nested structs start at a multiple of their alignment and
    are tail-padded to it, padding records fill every gap."""
    nf = 1 + rng.below(7)
    recs = []
    pos = 0
    mx = 1

    def pad_to(off):
        nonlocal pos
        if off > pos:
            recs.append({"name": "", "start": pos, "end": off, "size": off - pos, "align": 0, "pad": True})
        pos = off

    for i in range(nf):
        members = 1 if rng.chance(2, 3) else 2 + rng.below(2)
        ms = []
        for m in range(members):
            a = rng.choice([1, 1, 2, 4, 8, 8, 16])
            s = a * rng.choice([0, 1, 1, 1, 2, 3]) if rng.chance(9, 10) else 0
            ms.append((a, s))
        ga = max(a for a, _ in ms)
        mx = max(mx, ga)
        pad_to((pos + ga - 1) // ga * ga)
        for m, (a, s) in enumerate(ms):
            pad_to((pos + a - 1) // a * a)
            name = "T.f%d" % i + (".m%d" % m if members > 1 else "")
            recs.append({"name": name, "start": pos, "end": pos + s, "size": s, "align": a, "pad": False})
            pos += s
        pad_to((pos + ga - 1) // ga * ga)
    pad_to((pos + mx - 1) // mx * mx)
    return recs


def to_json(recs):
    return json.dumps([{"name": r["name"], "type": "x", "start": r["start"], "end": r["end"], "size": r["size"],
                        "align": r["align"], "is_padding": r["pad"]} for r in recs])


def synth_stream(ctx, bins, cases, stats, cli_sample=0):
    env = vlib.go_env()
    jobs = []
    for recs in cases:
        jobs += [(False, to_json(recs)), (True, to_json(recs))]
    flat = run_optimize_batch(ctx, bins, jobs)
    outs = [[flat[2 * k], flat[2 * k + 1]] for k in range(len(cases))]
    # a sample through the real binary: must print exactly what the batch driver got
    k = min(len(cases), cli_sample)
    for x in sorted(set(int(y * len(cases) / k) for y in range(k))) if k else []:
        for m, flag in enumerate(([], ["-r"])):
            rc, so, se = vlib.run([bins["structlayout-optimize"], "-json"] + flag, input=to_json(cases[x]), env=env, timeout=120)
            real = ("ok", json.loads(so) if so.strip() else []) if rc == 0 else ("crash", se[-300:])
            stats["cli_e2e_synthetic"] += 1
            if real != outs[x][m]:
                # the binary is the reference
                outs[x][m] = real
                stats["cli_batch_mismatch"] = stats.get("cli_batch_mismatch", 0) + 1
    mlines = []
    for recs in cases:
        mlines += ["optrec 0 " + show(recs), "optrec 1 " + show(recs)]
    mout = vlib.run_model(ctx, "C19", mlines)
    fails, diffs = [], []
    for k, (recs, res) in enumerate(zip(cases, outs)):
        total = recs[-1]["end"]
        for m, (flag, (st, oj)) in enumerate(zip(("", "-r"), res)):
            stats["synthetic_optimize_cases"] += 1
            mo = mout[2 * k + m]
            if mo == "bad-op":
                raise vlib.HarnessError("model rejected records: " + show(recs))
            if st != "ok":
                fails.append({"what": "optimize" + flag, "input": show(recs), "errors": ["crashed: " + oj]})
                continue
            out = [rec_from_json(j, "T") for j in oj]
            if flag == "-r":
                e = oracle_optimize(total, [(r["name"], r["size"], r["align"]) for r in recs if not r["pad"]], out, True)
            else:
                # top-level fields: extent of each group rounded up to its alignment
                groups = {}
                order = []
                for r in recs:
                    if r["pad"]:
                        continue
                    g = ".".join(r["name"].split(".")[:2])
                    if g not in groups:
                        groups[g] = [r["start"], r["end"], r["align"]]
                        order.append(g)
                    else:
                        groups[g][1] = r["end"]
                        groups[g][2] = max(groups[g][2], r["align"])
                infl = [(g, (groups[g][1] - groups[g][0] + groups[g][2] - 1) // groups[g][2] * groups[g][2], groups[g][2]) for g in order]
                e = oracle_optimize(total, infl, out, True)
            if e:
                fails.append({"what": "optimize" + flag, "input": show(recs), "input_json": to_json(recs), "real": show(out), "errors": e[:6], "original_size": total})
            if show(canon_ties(out)) != show(canon_ties(recs_from_model(mo))):
                diffs.append({"stream": "optimize" + flag + " (synthetic records)", "input": show(recs), "real": show(out), "model": show(recs_from_model(mo))})
    return fails, diffs, cases


# ----------------------------------------------------------------------------- main
def load_corpus():
    if not os.path.exists(CORPUS):
        return []
    return [c["ty"] for c in json.load(open(CORPUS))]


def nontrivial(t):
    """non-trivial: the layout needs more than adding up sizes — padding between or
    after fields, a zero-size field, a nested struct, an array, or a complex number."""
    s = json.dumps(t)
    return any(x in s for x in ('"array"', '"c64"', '"c128"', '["struct", []]')) or s.count('"struct"') > 1 or len(set(k for k in KINDS if '"%s"' % k in s)) > 1


def run(ctx):
    t1 = vlib.time.time()
    lean_ok, lean_broke = vlib.std_lean_phase(ctx, MODULES, THEOREMS)
    t_lean = round(vlib.time.time() - t1, 1)
    t1 = vlib.time.time()
    with ThreadPoolExecutor(max_workers=3) as ex:
        fa = ex.submit(vlib.build_harness, ctx, "c19sizes")
        fb = ex.submit(build_repo_cmds, ctx)
        fc = ex.submit(build_batch, ctx)
        bins = {"c19sizes": fa.result()}
        bins.update(fb.result())
        for k, v in fc.result().items():
            bins["batch-" + k] = v
    t_build = round(vlib.time.time() - t1, 1)
    stats = {k: 0 for k in ("gcsizes_cases", "layout_cases", "optimize_cases", "reordered_compiled", "synthetic_optimize_cases", "source_bytes", "leaf_spec_cases", "cli_e2e_types", "cli_e2e_synthetic")}
    stats["t_lean_s"], stats["t_go_build_s"] = t_lean, t_build
    rng = vlib.SplitMix(ctx.seed).fork("C19")
    gen = Gen(rng.fork("types"))

    if ctx.replay:
        rp = json.load(open(ctx.replay))
        types = [c["ty"] for c in rp.get("cases", []) if "ty" in c]
        synth_n = 0
        extra_synth = [c["input"] for c in rp.get("cases", []) if "ty" not in c and "input" in c]
    else:
        ngen = 240 if ctx.quick else 3000
        types = load_corpus() + [gen.top() for _ in range(ngen)]
        synth_n = 800 if ctx.quick else 8000
        extra_synth = []

    fails, diffs = [], []
    ctx.notes.append("t_setup=%.1fs" % (vlib.time.time() - ctx.t0))
    chunk = 640
    for c in range(0, len(types), chunk):
        f, d = pipeline(ctx, bins, types[c:c + chunk], "c%d" % c, stats, cli_sample=(2 if ctx.quick else 30) if c == 0 else (0 if ctx.quick else 5))
        fails += f
        diffs += d
    synth_cases = []
    if synth_n:
        r2 = rng.fork("synth")
        f, d, synth_cases = synth_stream(ctx, bins, [synth_records(r2) for _ in range(synth_n)], stats, cli_sample=2 if ctx.quick else 40)
        fails += f
        diffs += d
    if extra_synth:
        # replay of synthetic record cases
        f, d, _ = synth_stream(ctx, bins, [recs_from_model(x) for x in extra_synth], stats)
        fails += f
        diffs += d

    searched = 0
    if (diffs or not lean_ok) and not fails and not ctx.replay:
        # violation search: more generated types and record lists through the oracle
        g2 = Gen(rng.fork("search"))
        more = [g2.top() for _ in range(300 if ctx.quick else 1200)]
        searched = len(more)
        f, d = pipeline(ctx, bins, more, "search", stats)
        fails += f
        diffs += d
        r3 = rng.fork("search-synth")
        f, d, _ = synth_stream(ctx, bins, [synth_records(r3) for _ in range(600)], stats)
        fails += f
        diffs += d

    allt = types
    nt = set(json.dumps(t) for t in allt if nontrivial(t))
    ctx.coverage.update({
        "evaluations": stats["gcsizes_cases"] + stats["layout_cases"] + stats["optimize_cases"] + stats["synthetic_optimize_cases"] + stats["reordered_compiled"],
        "distinct_nontrivial": len(nt) + len(set(show(c) for c in synth_cases)),
        "rule": "distinct struct types whose layout needs more than adding up sizes (mixed kinds, zero-size field, nested struct, array or complex number) "
                "+ distinct synthetic record lists fed to structlayout-optimize",
        "types": len(allt), "corpus_types": len(load_corpus()) if not ctx.replay else 0,
        "stats": stats, "generator_histogram": dict(sorted(gen.hist.items())),
        "violation_search_types": searched,
        "samples": [{"model_input": " ".join(model_tokens(t)), "go": go_src(t, {})} for t in allt[:3] + allt[-3:]]
                   + [{"synthetic_records": show(c)} for c in synth_cases[:2]],
        "correspondence_streams": ["gcsizes (Sizeof/Alignof/Offsetsof) vs model gcs", "structlayout records vs model lay",
                                   "structlayout-optimize vs model opt 0", "structlayout-optimize -r vs model opt 1",
                                   "structlayout-optimize [-r] on synthetic records vs model optrec",
                                   "compiler (unsafe.*) vs Lean specification gc / leaves"],
        "model_vs_code_differences": len(diffs), "oracle_failures": len(fails),
    })
    ctx.assumptions += [
        "amd64 only (word size 8, max alignment 8): the Lean model fixes WordSize = MaxAlign = 8; gcsizes.ForArch reads build.Default.GOARCH of the machine the check runs on",
        "the Lean specification of the compiler (gcSizeof/gcAlignof/gcOffsetsof/gcLeavesFields) is compared with the real compiler (unsafe.Sizeof/Alignof/Offsetof of a compiled program) "
        "on every generated type; a mismatch aborts with exit 2; the compiler itself is trusted",
        "modelled and proved: gcsizes.Sizeof/Alignof/Offsetsof/align, structlayout `sizes`, structlayout-optimize combine/optimize(byAlignAndSize.Less)/offsetsof/pad/size; "
        "the models are tied to the code by executable correspondence on the explored inputs only (X), not by a proof about the Go source",
        "sort.Sort is modelled by a stable merge sort; outputs are compared modulo the order of fields with equal (size, alignment), which cannot change a layout",
        "the batch drivers compile the unmodified source of cmd/structlayout{,-optimize}/main.go of the tree under test (only `func main` renamed); a sample of the cases goes through the real binaries end to end",
        "outside model and theorems: main() of both commands (flags, packages.Load, JSON), cmd/structlayout-pretty (rendering only), structlayout.Field.String, go/types, go/packages, encoding/json",
        "outside the property's quantifier and the generator: blank (_) fields (two `_` fields are merged by combine), type parameters, sync/atomic's align64, other architectures; "
        "the theorems about the default mode assume distinct field names, which Go guarantees for non-blank fields",
        "a zero-size field that ends a non-zero-size struct is shown by structlayout with the byte the compiler adds after it (size 1), and by structlayout-optimize's default mode with that byte "
        "rounded up to the field's alignment; the oracle accepts 0, 1 or the alignment there and nothing else",
    ]

    if fails:
        by = {}
        for f in fails:
            by.setdefault(f["what"], []).append(f)
        for what, fs in sorted(by.items()):
            first = fs[0]
            ctx.violation("oracle_%s.json" % what.replace("-", "_"), {
                "what": {
                    "gcsizes": "go/gcsizes disagrees with the compiler (unsafe.Sizeof/Alignof/Offsetof)",
                    "structlayout": "structlayout's records do not tile [0, Sizeof T) or differ from the compiler's field offsets/sizes/alignments",
                    "optimize": "structlayout-optimize: output is not a permutation of the top-level fields / not a valid layout / larger than the original",
                    "optimize-r": "structlayout-optimize -r: output is not a permutation of the fields / not a valid layout / larger than the original",
                    "optimize-compiled": "the field order proposed by structlayout-optimize compiles to a larger struct",
                }.get(what, what),
                "how_to_replay": "./check C19 --replay <this file>; by hand: put `decls` and `type` (as T) into a package, run `structlayout -json <pkg> T [| structlayout-optimize -json [-r]]` "
                                 "and compare with a program printing unsafe.Sizeof/Alignof/Offsetof; synthetic cases: feed `input_json` to structlayout-optimize -json",
                "count": len(fs), "first": first, "cases": fs[:40],
            }, text="C19 %s: %d failing inputs, e.g. %s: %s" % (what, len(fs), first.get("type", first.get("input")), first["errors"][:2]))
    elif diffs or not lean_ok:
        ctx.violation("correspondence.json", {
            "what": "the Lean model no longer corresponds to the code (or a proof no longer checks); the oracle held on everything explored, including the violation search",
            "streams": sorted(set(d["stream"] for d in diffs)), "diffs": diffs[:40], "lean": lean_broke,
            "theorems": THEOREMS, "violation_search_types": searched,
        }, nofail=True)
    return vlib.finish(ctx, "proof")


META = {
    "level": "proof",
    "technique": "Lean 4 theorems (18, no Mathlib) over transliterated models of go/gcsizes, cmd/structlayout `sizes` and cmd/structlayout-optimize "
                 "combine/sort/pad and over a specification of the gc compiler's layout rules, for all types of the type grammar and all record lists; "
                 "executable correspondence (X) of the models with the real code and of the specification with the real compiler on seeded generated struct types",
    "text": "Proved for ALL struct types of the grammar (basic kinds, pointer-shaped kinds, named/alias, arrays incl. length 0, nested and empty structs): "
            "every type has an alignment in {1,2,4,8} dividing its size; gcsizes.Sizeof/Alignof/Offsetsof = the compiler's rules; structlayout's records tile "
            "[0, Sizeof T) without gap or overlap, fields are aligned, and the field records are exactly the compiler's leaves (name, absolute offset, size, alignment; "
            "a zero-size field ending a non-empty struct may show the added byte). Proved for ALL record lists: structlayout-optimize -r outputs a permutation of the "
            "input fields that is a valid layout, and (alignments powers of two, input a valid roomy layout) is never larger than the input, for every order "
            "an unstable sort may leave tied fields in; proved for ALL struct types: "
            "structlayout | structlayout-optimize [-r] is a permutation of the (top-level resp. leaf) fields as the compiler has them, a valid layout, and at most Sizeof T "
            "(default mode: for distinct field names). Explored, not proved: that the Lean models are the Go code (compared on every run on ~260/3000 generated types + "
            "800/8000 synthetic record lists + the corpus, through the real functions and, for a sample, the real binaries) and that the Lean specification is the "
            "compiler (compared with a compiled program on every generated type).",
    "note": "Trusted: Lean kernel; the compiled Lean driver; the Go compiler as oracle; go/types; the python check and Go harness. amd64 only. Four defects found by this "
            "check were fixed in /repo (08f02f6, 16fd1e2, 58a3d61, 169e4a6).",
    "design_ref": "DESIGN.md section 5 C19, section 9.2 C19; notes/C19.md",
}
