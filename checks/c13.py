"""C13 — dataflow solvers reach the least fixpoint; lattices obey their laws.

Lean: Verif/C13/{Model,LatLemmas,DenseLemmas,SparseLemmas,SparseMLemmas,SparseMRepr,MapLemmas,Repr,ReprInst,Heap,
      Theorems,TheoremsSparseM,TheoremsSparseMUpto,TheoremsExtra,TheoremsQueue}.lean.
  dense  : dense.Forward/propagate as a transition system (state = in/out/dirty/queue; queue = set,
           ANY schedule): dense_fixpoint, dense_least, dense_schedule_independent, dense_terminates,
           dense_run_length, dense_run_terminal, dense_forward_least_fixpoint, dense_edge_api; up to a
           coarse Equals (DenseMapLattice, MapLattice) by the Repr simulation: dense_*_upto, dm_repr,
           map_repr, dense_forward_densemap, dense_forward_map, dense_forward_nilness;
           the Ident-for-an-unvisited-predecessor rule is what leastness depends on:
           dense_placeholder_ident, dense_placeholder_must_be_ident (negative);
           the real queue (container/heap + inQueue bitmap words) implements the set-queue for every
           priority table: heap_queue_implements_set, dense_heap_step_refines,
           dense_forward_heap_least_fixpoint
  sparse : sparse.Instance.Forward, transfers mapping the instruction's own value: sparse_fixpoint,
           sparse_least, sparse_schedule_independent, sparse_terminates, sparse_run_terminal,
           sparse_forward_least_fixpoint; transfers returning ANY list of mappings (sparse.Ms) under the
           client contract SparseM.Spec: sparsem_fixpoint, sparsem_least, sparsem_schedule_independent,
           sparsem_terminates, sparsem_run_terminal, sparsem_forward_least_fixpoint,
           sparsem_generalises_sparse, sparsem_flag_must_accumulate (negative); up to a coarse Equals:
           sparsem_fixpoint_upto, sparsem_least_upto, sparsem_forward_upto
  lattices: map_lattice_laws, map_merge_no_panic, dense_map_lattice_laws, nilness_laws
           (kernel `decide` over the table REGENERATED from the current tree), nilness_lattice_lawful
Tie G: harness `c13run table` reads the real nilness.latticeMerge (go:linkname, no hook) and
  this file rewrites lean/Verif/C13/Generated.lean when it differs.
Tie X: generated graphs (incl. 65-200 nodes, long back edges, reversed numbering, multi-entry cycles,
  loop nests) x transfer families through the real dense.Forward (three graph adapters = the three
  paths of graph.Compact; 14 fact types, four of them with Ident() != the Go zero value) and generated
  Go functions through the real IR builder and the real sparse.Instance.Forward (three runs each, single-
  and multi-mapping table-driven monotone transfers, union / intersection / flat / nilness lattices);
  each result is compared with the Lean model (run under a different schedule; dense: over k-vectors
  or over the dmLat/mapLat representations) and with the oracle; the hypotheses of the sparse theorems
  are probed on every dumped program.
Oracle: the property itself on the real output — every equation (sparse: every mapping of every
  instruction) holds, the result equals the least fixpoint computed here by naive Kleene / round-robin
  iteration and does not depend on the worklist order; the lattice laws are evaluated with the real
  Merge/Equals on all triples of generated elements (all 25 nilness values exhaustively).
Fixed defect (4306c1d): a changed mapping of a non-value instruction made sparse.Forward dereference nil referrers; such
programs are part of the generated population, a recurrence is reported as a violation (no finding is listed).
"""
import json
import os
from concurrent.futures import ProcessPoolExecutor, ThreadPoolExecutor

import vlib

MODULES = ["Verif.C13.Theorems", "Verif.C13.TheoremsSparseM", "Verif.C13.TheoremsSparseMUpto", "Verif.C13.TheoremsExtra",
           "Verif.C13.TheoremsQueue"]
THEOREMS = [
    "Verif.C13.dense_fixpoint",
    "Verif.C13.dense_least",
    "Verif.C13.dense_schedule_independent",
    "Verif.C13.dense_terminates",
    "Verif.C13.dense_run_length",
    "Verif.C13.dense_run_terminal",
    "Verif.C13.dense_forward_least_fixpoint",
    "Verif.C13.dense_edge_api",
    "Verif.C13.dense_fixpoint_upto",
    "Verif.C13.dense_least_upto",
    "Verif.C13.dense_terminates_upto",
    "Verif.C13.dense_run_terminal_upto",
    "Verif.C13.dense_forward_upto",
    "Verif.C13.dense_forward_densemap",
    "Verif.C13.dense_forward_map",
    "Verif.C13.dm_repr",
    "Verif.C13.map_repr",
    "Verif.C13.sparse_fixpoint",
    "Verif.C13.sparse_least",
    "Verif.C13.sparse_schedule_independent",
    "Verif.C13.sparse_terminates",
    "Verif.C13.sparse_run_terminal",
    "Verif.C13.sparse_forward_least_fixpoint",
    "Verif.C13.map_lattice_laws",
    "Verif.C13.map_merge_no_panic",
    "Verif.C13.dense_map_lattice_laws",
    "Verif.C13.nilness_laws",
    "Verif.C13.nilness_lattice_lawful",
    "Verif.C13.dense_forward_nilness",
    # sparse solver with multi-mapping transfers (TheoremsSparseM.lean)
    "Verif.C13.sparsem_fixpoint",
    "Verif.C13.sparsem_least",
    "Verif.C13.sparsem_schedule_independent",
    "Verif.C13.sparsem_terminates",
    "Verif.C13.sparsem_run_terminal",
    "Verif.C13.sparsem_forward_least_fixpoint",
    "Verif.C13.sparsem_generalises_sparse",
    "Verif.C13.sparsem_flag_must_accumulate",
    # ... over lattices whose Equals is coarser than equality (SparseMRepr.lean, TheoremsSparseMUpto.lean)
    "Verif.C13.sparsem_fixpoint_upto",
    "Verif.C13.sparsem_least_upto",
    "Verif.C13.sparsem_forward_upto",
    # the Ident-for-an-unvisited-predecessor rule is what leastness depends on (TheoremsExtra.lean)
    "Verif.C13.dense_placeholder_ident",
    "Verif.C13.dense_placeholder_must_be_ident",
    # the real work queue (container/heap + bitmap words) implements the set-queue (Heap.lean, TheoremsQueue.lean)
    "Verif.C13.heap_queue_implements_set",
    "Verif.C13.dense_heap_step_refines",
    "Verif.C13.dense_forward_heap_least_fixpoint",
]

KEY_NONVALUE = "sparse-nonvalue-mapping-nil-deref"
GENERATED = os.path.join(vlib.LEAN_DIR, "Verif", "C13", "Generated.lean")
CORPUS = os.path.join(vlib.VERIF, "corpus", "C13")


# ------------------------------------------------------------------ lattices (python side)
class Fam:
    """element lattice of a transfer family: codes 0..size-1."""

    def __init__(self, name, size, bot, merge, arith=False):
        self.name, self.size, self.bot, self.merge, self.arith = name, size, bot, merge, arith

    def le(self, a, b):
        return self.merge(a, b) == b


def flat_merge(a, b):
    if a == 0:
        return b
    if b == 0:
        return a
    return a if a == b else 1


def families(table):
    def n5(a, b):
        return table[a][b]

    def nilpair(a, b):
        return 5 * table[a // 5][b // 5] + table[a % 5][b % 5]

    return {
        "or": Fam("or", 2, 0, lambda a, b: a | b),
        "and": Fam("and", 2, 1, lambda a, b: a & b),
        "cp": Fam("cp", 10, 0, flat_merge, arith=True),
        # product of a must-bit (intersection) and a may-bit (union): code 2*must+may, Ident = 2
        "ao": Fam("ao", 4, 2, lambda a, b: 2 * ((a >> 1) & (b >> 1)) + ((a | b) & 1)),
        "nil": Fam("nil", 25, 0, nilpair),
        "n5": Fam("n5", 5, 0, n5),
    }


def sparse_fam(name, table):
    if name == "cp":
        return Fam("cp", 10, 0, flat_merge)
    if name == "n5":
        return Fam("n5", 5, 0, lambda a, b: table[a][b])
    if name.startswith("and"):
        # intersection of bitsets: Ident is the full set, NOT the Go zero value
        w = int(name[3:])
        return Fam(name, 1 << w, (1 << w) - 1, lambda a, b: a & b)
    w = int(name[4:])
    return Fam(name, 1 << w, 0, lambda a, b: a | b)


def cp_addc(v, c):
    return v if v < 2 else (v - 2 + c) % 8 + 2


def cp_add(a, b):
    if a == 1 or b == 1:
        return 1
    if a == 0 or b == 0:
        return 0
    return (a - 2 + b - 2) % 8 + 2


def apply_ops(fam, ops, vec):
    v = list(vec)
    for o in ops:
        k = o[0]
        if k == "s":
            v[o[1]] = o[2]
        elif k == "c":
            v[o[1]] = v[o[2]]
        elif k == "m":
            v[o[1]] = fam.merge(v[o[2]], v[o[3]])
        elif k == "j":
            v[o[1]] = fam.merge(v[o[2]], o[3])
        elif k == "a":
            v[o[1]] = cp_addc(v[o[2]], o[3])
        elif k == "p":
            v[o[1]] = cp_add(v[o[2]], v[o[3]])
        else:
            raise ValueError(o)
    return v


def show_vec(v):
    return ".".join(str(x) for x in v)


def parse_vec(s):
    return [int(x) for x in s.split(".")]


# ------------------------------------------------------------------ dense cases
# fact representations per element lattice. bits/dm/map/nil-dm have Ident() = the Go zero value
# (0, nil slice, nil map); inv, and/bits, arr, prod have an Ident() that is NOT the zero value
# (complemented bitset, all-ones bitset, array with bottom stored as 1, (all-ones, empty) pair).
IMPLS = {"or": ["bits", "inv", "dm", "map"], "and": ["bits", "bits", "dm", "map"], "cp": ["arr", "arr", "dm", "map"],
         "ao": ["prod", "prod", "dm", "map"], "nil": ["dm"]}
NONZERO_IDENT = {"or/inv", "and/bits", "cp/arr", "ao/prod"}
IDS = ["int", "cmp", "str"]


def model_line(go_line):
    """the model driver's input for a harness line. For dm/map facts every second case (by a
    hash of the line) runs the solver model over the dmLat/mapLat representation itself
    (lat@dm / lat@map), the others over canonical k-vectors."""
    import zlib
    t = go_line.split(" ")
    impl, rest = t[0], t[2:]
    if impl in ("dm", "map") and zlib.crc32(go_line.encode()) & 1:
        rest = [rest[0], rest[1] + "@" + impl] + rest[2:]
    return " ".join(rest)


class DenseCase:
    __slots__ = ("lat", "k", "n", "edges", "entry", "trs", "sched", "impl", "ids", "tag")

    def lean_line(self):
        edges = ",".join("%d>%d" % e for e in self.edges) or "-"
        entry = ";".join("%d=%s" % (b, show_vec(v)) for b, v in sorted(self.entry.items())) or "-"
        trs = ";".join(("id" if not t else ",".join(".".join(str(x) for x in o) for o in t)) for t in self.trs) or "-"
        return "dense %s %d %s %d %s %s %s" % (self.lat, self.k, self.sched, self.n, edges, entry, trs)

    def go_line(self):
        return "%s %s %s" % (self.impl, self.ids, self.lean_line())


def parse_dense_line(line):
    """inverse of go_line / lean_line (corpus and replays)."""
    tok = line.split()
    c = DenseCase()
    if tok[0] != "dense":
        c.impl, c.ids = tok[0], tok[1]
        tok = tok[2:]
    else:
        c.impl, c.ids = None, None
    _, c.lat, k, c.sched, n, edges, entry, trs = tok
    c.k, c.n = int(k), int(n)
    c.edges = [] if edges == "-" else [tuple(int(x) for x in e.split(">")) for e in edges.split(",")]
    c.entry = {}
    if entry != "-":
        for e in entry.split(";"):
            b, f = e.split("=")
            c.entry[int(b)] = parse_vec(f)
    c.trs = []
    if trs != "-":
        for t in trs.split(";"):
            if t == "id":
                c.trs.append([])
            else:
                ops = []
                for o in t.split(","):
                    p = o.split(".")
                    ops.append(tuple([p[0]] + [int(x) for x in p[1:]]))
                c.trs.append(ops)
    c.tag = "corpus"
    return c


def gen_op(rng, fam, k):
    kinds = ["s", "s", "c", "m", "j"]
    if fam.arith:
        kinds += ["a", "a", "p"]
    kd = rng.choice(kinds)
    x = rng.below(k)
    if kd == "s":
        return ("s", x, rng.below(fam.size))
    if kd == "c":
        return ("c", x, rng.below(k))
    if kd == "m":
        return ("m", x, rng.below(k), rng.below(k))
    if kd == "j":
        return ("j", x, rng.below(k), rng.below(fam.size))
    if kd == "a":
        return ("a", x, rng.below(k), rng.below(8))
    return ("p", x, rng.below(k), rng.below(k))


def gen_dense(rng, fams, big):
    c = DenseCase()
    c.lat = rng.choice(["or", "or", "and", "and", "cp", "cp", "cp", "ao", "ao", "nil", "nil"])
    fam = fams[c.lat]
    c.k = 1 + rng.below(4)
    r = rng.below(100)
    if r < 30:
        c.n = 1 + rng.below(4)
    elif r < 82:
        c.n = 5 + rng.below(4)
    elif r < 96:
        c.n = 9 + rng.below(8 if big else 4)
    else:
        c.n = 65 + rng.below(136)  # 65..200: two to four 64-bit words of nodeHeap.inQueue
    n = c.n
    large = n >= 65
    if large:
        shape = rng.choice(["longback", "longback", "revchain", "multientry", "nestedloops", "islands", "irreducible", "random"])
    else:
        shape = rng.choice(["random", "random", "sparse", "dense", "chain", "islands", "irreducible", "longback", "revchain",
                            "multientry", "nestedloops"])
    edges = []
    if shape == "chain":
        for i in range(n - 1):
            edges.append((i, i + 1))
        for _ in range(rng.below(n + 1)):
            a = rng.below(n)
            edges.append((a, rng.below(a + 1)))  # back edges / self loops
    elif shape == "longback":
        # one long chain with back edges spanning (almost) all of it, some crossing word boundaries
        for i in range(n - 1):
            edges.append((i, i + 1))
        edges.append((n - 1, 0))
        for _ in range(1 + rng.below(4)):
            a = n - 1 - rng.below(max(1, n // 4))
            edges.append((a, rng.below(max(1, n // 4))))
        for _ in range(rng.below(4)):
            a = rng.below(n)
            edges.append((a, rng.below(n)))
    elif shape == "revchain":
        # the chain runs against the node numbering (n-1 -> ... -> 0): priorities are the reverse of
        # the ids; extra edges go forward in the chain (back in the numbering) and back
        for i in range(n - 1, 0, -1):
            edges.append((i, i - 1))
        for _ in range(1 + rng.below(5)):
            a, b = rng.below(n), rng.below(n)
            edges.append((a, b))
    elif shape == "multientry" and n >= 4:
        # a cycle entered at several different nodes from several roots (multi-entry region, irreducible)
        perm = rng.shuffle(list(range(n)))
        cl = 2 + rng.below(min(n - 2, 6))
        cyc, rest = perm[:cl], perm[cl:]
        for i in range(cl):
            edges.append((cyc[i], cyc[(i + 1) % cl]))
        nroots = 1 + rng.below(min(len(rest), 4))
        for r0 in rest[:nroots]:
            edges.append((r0, rng.choice(cyc)))
            if rng.chance(1, 2):
                edges.append((r0, rng.choice(cyc)))
        for x in rest[nroots:]:
            edges.append((rng.choice(cyc + rest[nroots:]), x))
        for _ in range(rng.below(3)):
            edges.append((rng.choice(cyc), rng.choice(rest)))
        edges = [(a, b) for (a, b) in edges if b not in rest[:nroots]]  # roots stay without predecessors
    elif shape == "nestedloops":
        # chain with properly nested back edges (loop nest) and an exit
        for i in range(n - 1):
            edges.append((i, i + 1))
        lo, hi = 0, n - 1
        while hi - lo >= 1:
            edges.append((hi, lo))
            lo += 1 + rng.below(max(1, (hi - lo) // 3 + 1))
            hi -= 1 + rng.below(max(1, (hi - lo) // 3 + 1)) if hi - lo > 1 else 1
    elif shape == "irreducible" and n >= 3:
        # entry 0 jumps into both nodes of a cycle a<->b, rest random
        perm = rng.shuffle(list(range(n)))
        a, b, r0 = perm[0], perm[1], perm[2]
        edges += [(r0, a), (r0, b), (a, b), (b, a)]
        for _ in range(rng.below(n)):
            edges.append((rng.below(n), rng.below(n)))
    else:
        m = {"random": rng.below(2 * n + 1), "sparse": rng.below(n + 1), "dense": n + rng.below(2 * n + 1),
             "islands": rng.below(2 * n + 1)}.get(shape, rng.below(2 * n + 1))
        for _ in range(m):
            edges.append((rng.below(n), rng.below(n)))
        if shape == "islands" and n >= 2:
            # cut every edge entering a random subset: its cycles become unreachable
            S = set(i for i in range(n) if rng.chance(1, 2))
            edges = [(s, t) for (s, t) in edges if not (t in S and s not in S)]
    if edges and rng.chance(1, 5):
        edges.append(rng.choice(edges))  # parallel edge
    if rng.chance(1, 8):
        a = rng.below(n)
        edges.append((a, a))
    edges.sort(key=lambda e: e[0])  # out-edge order of the adapters = this order
    c.edges = edges
    c.entry = {}
    pe = rng.choice([0, 1, 2, 3])
    for b in range(n):
        if rng.below(4) < pe:
            c.entry[b] = [rng.below(fam.size) for _ in range(c.k)]
    by_pair = {}
    c.trs = []
    pid = 3 if large else 7  # large graphs: more identity edges, so facts travel far
    for e in edges:
        if e not in by_pair:
            if rng.chance(pid - 1 if large else 1, pid):
                by_pair[e] = []
            else:
                by_pair[e] = [gen_op(rng, fam, c.k) for _ in range(1 + rng.below(3))]
        c.trs.append(by_pair[e])
    c.sched = rng.choice(["lo", "hi", "r%d" % rng.below(1000)])
    c.impl = rng.choice(IMPLS[c.lat])
    c.ids = rng.choice(IDS)
    c.tag = shape
    return c


def graph_features(n, edges):
    preds = [[] for _ in range(n)]
    succs = [[] for _ in range(n)]
    for (s, t) in edges:
        preds[t].append(s)
        succs[s].append(t)
    roots = [b for b in range(n) if not preds[b]]
    seen = set(roots)
    st = list(roots)
    while st:
        x = st.pop()
        for y in succs[x]:
            if y not in seen:
                seen.add(y)
                st.append(y)
    # cycle detection (colour DFS)
    col = [0] * n
    cyc = False
    for r0 in range(n):
        if col[r0]:
            continue
        stack = [(r0, iter(succs[r0]))]
        col[r0] = 1
        while stack:
            x, it = stack[-1]
            adv = False
            for y in it:
                if col[y] == 1:
                    cyc = True
                elif col[y] == 0:
                    col[y] = 1
                    stack.append((y, iter(succs[y])))
                    adv = True
                    break
            if not adv:
                col[x] = 2
                stack.pop()
    # reducibility of the part reachable from a virtual root (T1/T2)
    irreducible = False
    if cyc:
        R = n
        es = set((s, t) for (s, t) in edges if s in seen and t in seen and s != t)
        for r0 in roots:
            es.add((R, r0))
        nodes = set(seen) | {R}
        changed = True
        while changed:
            changed = False
            for x in list(nodes):
                if x == R:
                    continue
                ps = set(s for (s, t) in es if t == x)
                if len(ps) == 1:
                    p = next(iter(ps))
                    es = set(((p if s == x else s), (p if t == x else t)) for (s, t) in es)
                    es = set((s, t) for (s, t) in es if s != t)
                    nodes.discard(x)
                    changed = True
                    break
        irreducible = len(nodes) > 1
    f = []
    if cyc:
        f.append("cycle")
    if irreducible:
        f.append("irreducible")
    if len(seen) < n:
        f.append("unreachable")
    if len(roots) > 1:
        f.append("multi-entry")
    if not roots:
        f.append("no-entry")
    if any(s == t for (s, t) in edges):
        f.append("self-loop")
    if len(set(edges)) < len(edges):
        f.append("parallel-edge")
    return f


def kleene_dense(c, fam):
    n, m = c.n, len(c.edges)
    preds = [[] for _ in range(n)]
    for e, (s, t) in enumerate(c.edges):
        preds[t].append(e)
    botv = [fam.bot] * c.k
    inn = [list(c.entry.get(b, botv)) if not preds[b] else list(botv) for b in range(n)]
    out = [list(botv) for _ in range(m)]
    rounds = 0
    while True:
        rounds += 1
        if rounds > 5000:
            # only possible when the element lattice is not a semilattice (changed nilness table)
            # or a generated transfer is not monotone; the caller decides which
            return None, None, rounds
        ch = False
        for b in range(n):
            if preds[b]:
                v = list(botv)
                for e in preds[b]:
                    v = [fam.merge(x, y) for x, y in zip(v, out[e])]
                if v != inn[b]:
                    inn[b] = v
                    ch = True
        for e, (s, t) in enumerate(c.edges):
            v = apply_ops(fam, c.trs[e], inn[s])
            if v != out[e]:
                out[e] = v
                ch = True
        if not ch:
            return inn, out, rounds


def check_dense_equations(c, fam, inn, out):
    """the property's equations on a (real) result; returns list of human-readable failures."""
    bad = []
    preds = [[] for _ in range(c.n)]
    for e, (s, t) in enumerate(c.edges):
        preds[t].append(e)
    botv = [fam.bot] * c.k
    for b in range(c.n):
        if preds[b]:
            v = list(botv)
            for e in preds[b]:
                v = [fam.merge(x, y) for x, y in zip(v, out[e])]
            if v != inn[b]:
                bad.append("In(%d)=%s is not the merge %s of its incoming edge facts" % (b, show_vec(inn[b]), show_vec(v)))
        else:
            want = c.entry.get(b, botv)
            if list(want) != inn[b]:
                bad.append("In(%d)=%s but the node has no predecessors and entry fact %s" % (b, show_vec(inn[b]), show_vec(want)))
    for e, (s, t) in enumerate(c.edges):
        v = apply_ops(fam, c.trs[e], inn[s])
        if v != out[e]:
            bad.append("Edge(%d,%d)=%s is not transfer(In(%d))=%s" % (s, t, show_vec(out[e]), s, show_vec(v)))
    return bad


def parse_dense_result(s):
    """'in=f|f;out=f|f[;steps=k]' -> (ins, outs) or None."""
    if not s.startswith("in="):
        return None
    parts = dict(p.split("=", 1) for p in s.split(";"))
    ins = [parse_vec(x) for x in parts["in"].split("|")]
    outs = [] if parts["out"] == "-" else [parse_vec(x) for x in parts["out"].split("|")]
    return ins, outs


def dense_worker(args):
    """generate + oracle for one chunk (own process)."""
    seed, lo, hi, table, big = args
    fams = families(table)
    root = vlib.SplitMix(seed)
    out = []
    for i in range(lo, hi):
        c = gen_dense(root.fork("dense/%d" % i), fams, big)
        inn, o, rounds = kleene_dense(c, fams[c.lat])
        out.append((c.go_line(), inn, o, rounds, graph_features(c.n, c.edges), c.tag))
    return out


# ------------------------------------------------------------------ sparse cases
def monotone_closure_unary(fam, f):
    els = range(fam.size)
    out = []
    for x in els:
        v = fam.bot
        for y in els:
            if fam.le(y, x):
                v = fam.merge(v, f[y])
        out.append(v)
    return out


def monotone_closure_binary(fam, f):
    n = fam.size
    below = [[y for y in range(n) if fam.le(y, x)] for x in range(n)]
    out = []
    for x1 in range(n):
        for x2 in range(n):
            v = fam.bot
            for y1 in below[x1]:
                for y2 in below[x2]:
                    v = fam.merge(v, f[y1 * n + y2])
            out.append(v)
    return out


VARS = ["v0", "v1", "v2", "v3"]


def gen_source(rng):
    nv = 2 + rng.below(3)
    vs = VARS[:nv]
    nlab = rng.below(4)
    labels = ["L%d" % i for i in range(1, nlab + 1)]
    used = set()

    def atom():
        r = rng.below(10)
        if r < 6:
            return rng.choice(vs)
        if r < 8:
            return rng.choice(["p0", "p1"])
        return str(rng.below(7))

    def expr():
        r = rng.below(10)
        if r < 6:
            return "%s %s %s" % (atom(), rng.choice(["+", "-", "*", "&", "|", "^"]), atom())
        if r < 7:
            return "%s%s" % (rng.choice(["-", "^"]), rng.choice(vs))
        if r < 9:
            return "src(%s)" % atom()
        return atom()

    def cond():
        return "%s %s %s" % (atom(), rng.choice(["<", "<=", ">", ">=", "==", "!="]), atom())

    def stmts(depth, inloop, ind):
        out = []
        for _ in range(1 + rng.below(3)):
            r = rng.below(12)
            pad = "\t" * ind
            if r < 5 or depth >= 3:
                out.append("%s%s = %s" % (pad, rng.choice(vs), expr()))
            elif r < 7:
                out.append("%sif %s {" % (pad, cond()))
                out += stmts(depth + 1, inloop, ind + 1)
                if rng.chance(1, 2):
                    out.append("%s} else {" % pad)
                    out += stmts(depth + 1, inloop, ind + 1)
                out.append("%s}" % pad)
            elif r < 9:
                out.append("%sfor %s {" % (pad, cond()))
                out += stmts(depth + 1, True, ind + 1)
                out.append("%s}" % pad)
            elif r < 10 and inloop:
                out.append("%sif %s {" % (pad, cond()))
                out.append("%s\t%s" % (pad, rng.choice(["break", "continue"])))
                out.append("%s}" % pad)
            elif labels:
                lab = rng.choice(labels)
                used.add(lab)
                out.append("%sif %s {" % (pad, cond()))
                out.append("%s\tgoto %s" % (pad, lab))
                out.append("%s}" % pad)
            else:
                out.append("%s%s = %s" % (pad, rng.choice(vs), expr()))
        return out

    segs = [stmts(0, False, 1)]
    for lab in labels:
        segs.append(stmts(0, False, 1))
    body = ["\tvar %s int" % ", ".join(vs)]
    for i, v in enumerate(vs):
        if rng.chance(2, 3):
            body.append("\t%s = %s" % (v, ["p0", "p1", "1", "p0"][i]))
    pre = []
    for lab in labels:
        if lab not in used:
            pre += ["\tif %s {" % cond(), "\t\tgoto %s" % lab, "\t}"]
    body += pre + segs[0]
    for lab, sg in zip(labels, segs[1:]):
        body.append("%s:" % lab)
        body += sg
    body.append("\treturn %s" % " + ".join(vs))
    return "package p\n\nfunc src(x int) int\n\nfunc f(p0, p1 int) int {\n%s\n}\n" % "\n".join(body)


def gen_sparse(rng, table):
    lat = rng.choice(["bits2", "bits3", "and2", "and3", "cp", "n5", "n5"])
    fam = sparse_fam(lat, table)
    tabs = []
    for _ in range(2):
        f = [rng.below(fam.size) for _ in range(fam.size)]
        tabs.append("u:" + show_vec(monotone_closure_unary(fam, f)))
    for _ in range(2):
        f = [rng.below(fam.size) for _ in range(fam.size * fam.size)]
        if rng.chance(1, 3):
            f = [fam.merge(i, j) for i in range(fam.size) for j in range(fam.size)]
        tabs.append("b:" + show_vec(monotone_closure_binary(fam, f)))
    params = "%d,%d" % (rng.below(fam.size), rng.below(fam.size))
    src = gen_source(rng)
    # two thirds of the programs get multi-mapping transfers (seed mm > 0, see sparse.go)
    mm = 0 if rng.chance(1, 3) else 1 + rng.below(1000)
    return "sparse %s %s %s %s %d" % (lat, params, ";".join(tabs), src.encode().hex(), mm), src


def parse_xmaps(s):
    return [] if s == "-" else [tuple(int(x) for x in kv.split("=")) for kv in s.split(",")]


def parse_sparse_dump(dump):
    tok = dump.split()
    _, lat, _, n, nvals, instrs, init, tabs = tok
    n, nvals = int(n), int(nvals)
    ins = []
    for s in instrs.split(";"):
        k, ops, refs, pre, post = s.split(":")
        ins.append((k, [] if ops == "-" else [int(x) for x in ops.split(",")],
                    [] if refs == "-" else [int(x) for x in refs.split(",")],
                    parse_xmaps(pre), parse_xmaps(post)))
    val0 = {}
    if init != "-":
        for kv in init.split(","):
            v, c = kv.split("=")
            val0[int(v)] = int(c)
    tb = []
    for t in tabs.split(";"):
        kind, codes = t.split(":")
        tb.append([int(x) for x in codes.split(".")])
    return lat, n, nvals, ins, val0, tb


def own_target(ins, i):
    """the value instruction i's computed mapping is for: itself, or v for kind s<v> (an instruction
    without a value, e.g. Return, mapping a summary for another value)."""
    k = ins[i][0]
    return int(k[1:]) if k[0] == "s" and k != "s" else i


def sparse_eval(fam, ins, tb, val, i):
    """the state of instruction i's own mapping (None: no own mapping)."""
    k, ops = ins[i][0], ins[i][1]
    if k == "phi" or k[0] == "s":
        d = fam.bot
        for o in ops:
            d = fam.merge(d, val[o])
        return d
    if k[0] == "u":
        d = fam.bot
        for o in ops:
            d = fam.merge(d, val[o])
        return tb[int(k[1:])][d]
    if k[0] == "b":
        return tb[int(k[1:])][val[ops[0]] * fam.size + val[ops[1]]]
    return None


def sparse_maps(fam, ins, tb, val, i):
    """all mappings (value, state) instruction i's transfer returns on `val`, in order."""
    own = sparse_eval(fam, ins, tb, val, i)
    return list(ins[i][3]) + ([] if own is None else [(own_target(ins, i), own)]) + list(ins[i][4])


def kleene_sparse(fam, n, nvals, ins, val0, tb):
    """reference least fixpoint: round-robin over all instructions and all their mappings."""
    val = [val0.get(v, fam.bot) for v in range(nvals)]
    rounds = 0
    while True:
        rounds += 1
        if rounds > 5000:
            return None
        ch = False
        for i in range(n):
            for (w, x) in sparse_maps(fam, ins, tb, val, i):
                if x != val[w]:
                    val[w] = x
                    ch = True
        if not ch:
            return val


def sparse_hypotheses(fam, n, nvals, ins, val0, tb):
    """probe the hypotheses of the sparse theorems (SparseM.Spec) on the dump: use-def consistency
    of the IR, agreeing writers, `enq` (every reader of a mapped value whose state can change is a
    referrer of each of its writers), `init_le`. Returns a list of broken ones."""
    broken = []
    for j in range(n):
        for o in ins[j][1]:
            if o < n and j not in ins[o][2]:
                broken.append("use-def")
    v0 = [val0.get(v, fam.bot) for v in range(nvals)]
    writers = {}   # value -> list of (instr, const or None)
    for i in range(n):
        for (w, x) in ins[i][3] + ins[i][4]:
            writers.setdefault(w, []).append((i, x))
        if ins[i][0] != "none":
            writers.setdefault(own_target(ins, i), []).append((i, None))
    readers = {}
    for j in range(n):
        if ins[j][0] != "none":
            for o in ins[j][1]:
                readers.setdefault(o, set()).add(j)
    for u, ws in writers.items():
        consts = set(x for (_, x) in ws)
        if len(consts) > 1:
            broken.append("writers-disagree")
            continue
        x = next(iter(consts))
        if x is not None and x == v0[u]:
            continue  # stable mapping: never changes the state
        if x is not None and not fam.le(v0[u], x):
            broken.append("init-not-below")
        if x is None and v0[u] != fam.bot:
            broken.append("init-not-bottom")
        for (i, _) in ws:
            for j in readers.get(u, ()):
                if j not in ins[i][2]:
                    broken.append("reader-not-referrer")
    return sorted(set(broken))


def sparse_oracle_worker(args):
    """for one chunk of harness output lines: parse, Kleene, equation check."""
    lines, table = args
    res = []
    for out in lines:
        if " => " not in out:
            res.append(("raw", out))
            continue
        dump, r = out.split(" => ")
        lat, n, nvals, ins, val0, tb = parse_sparse_dump(dump)
        fam = sparse_fam(lat, table)
        raw_results = r.split(" ~ ")
        lfp = kleene_sparse(fam, n, nvals, ins, val0, tb)
        if lfp is None:
            res.append(("noconv", dump))
            continue
        panics = [rr for rr in raw_results if not rr.startswith("val=")]
        if panics:
            # the real solver panicked. Does an instruction that is not an ir.Value (kind s: Referrers()
            # is nil) have a mapping whose state changes? (the class of the recorded finding)
            nonvalue_changing = any(ins[i][0][0] == "s" and ins[i][0] != "s" and
                                    lfp[own_target(ins, i)] != val0.get(own_target(ins, i), fam.bot) for i in range(n))
            res.append(("panic", dump, panics, lfp, sparse_hypotheses(fam, n, nvals, ins, val0, tb), nonvalue_changing))
            continue
        reals = [[int(x) for x in rr[len("val="):].split(",")] for rr in raw_results]
        bad = []
        targets = set()
        for i in range(n):
            for (w, _) in sparse_maps(fam, ins, tb, lfp, i):
                targets.add(w)
        for ri, real in enumerate(reals):
            tag = "" if len(reals) == 1 else "run %d: " % ri
            for i in range(n):
                for (w, x) in sparse_maps(fam, ins, tb, real, i):
                    if real[w] != x:
                        if w == i and own_target(ins, i) == i:
                            bad.append("%svalue of instruction %d (%s) is %d, its equation gives %d" % (tag, i, ins[i][0], real[w], x))
                        else:
                            bad.append("%sinstruction %d maps value %d to %d, but its final state is %d" % (tag, i, w, x, real[w]))
            for v in range(nvals):
                if v not in targets and real[v] != val0.get(v, fam.bot):
                    bad.append("%svalue %d is mapped by no transfer but changed to %d" % (tag, v, real[v]))
        if len(reals) > 1:
            bad.append("the result depends on the order in which the worklist (a Go map) is visited: %d different final mappings "
                       "in 3 runs" % len(reals))
        hyp = sparse_hypotheses(fam, n, nvals, ins, val0, tb)
        nphi = sum(1 for x in ins if x[0] == "phi")
        nmulti = sum(1 for i in range(n) if len(ins[i][3]) + len(ins[i][4]) + (ins[i][0] != "none") > 1)
        res.append(("ok", dump, reals[0], lfp, bad, hyp, n, nphi, nmulti))
    return res


# ------------------------------------------------------------------ process helpers
def chunked(xs, k):
    k = max(1, min(k, len(xs)))
    sz = (len(xs) + k - 1) // k
    return [xs[i:i + sz] for i in range(0, len(xs), sz)] if xs else []


def run_harness(ctx, binp, mode, lines, workers):
    """pipe lines through `c13run <mode>` in parallel chunks; same number of output lines."""
    def one(chunk):
        rc, so, se = vlib.run([binp, mode], input="".join(l + "\n" for l in chunk), env=vlib.go_env(), timeout=1500)
        out = so.split("\n")
        if out and out[-1] == "":
            out.pop()
        if rc != 0 or len(out) != len(chunk):
            raise vlib.HarnessError("c13run %s failed rc=%d (%d outputs for %d inputs): %s" % (mode, rc, len(out), len(chunk), se[-2000:]))
        return out
    chunks = chunked(lines, workers)
    with ThreadPoolExecutor(max_workers=max(1, len(chunks))) as ex:
        res = list(ex.map(one, chunks))
    return [x for r in res for x in r]


def run_model_par(ctx, lines, workers):
    chunks = chunked(lines, workers)
    with ThreadPoolExecutor(max_workers=max(1, len(chunks))) as ex:
        res = list(ex.map(lambda ch: vlib.run_model(ctx, "C13", ch), chunks))
    return [x for r in res for x in r]


# ------------------------------------------------------------------ generated table
def render_generated(table, ident):
    rows = ",\n   ".join("[" + ", ".join(str(x) for x in r) + "]" for r in table)
    return (
        "/-! GENERATED by checks/c13.py from the real `latticeMerge` table of\n"
        "analysis/facts/nilness/nilness.go (read in-process by harness/cmd/c13run). Do not edit. -/\n"
        "namespace Verif.C13.Generated\n\n"
        "/-- `latticeMerge[a][b]` as compiled into the current tree. -/\n"
        "def nilMergeTable : List (List Nat) :=\n  [%s]\n\n"
        "/-- `lattice{}.Ident()` as (Inner, Outer). -/\n"
        "def nilIdent : Nat × Nat := (%d, %d)\n\n"
        "end Verif.C13.Generated\n" % (rows, ident[0], ident[1]))


def read_table(binp):
    rc, so, se = vlib.run([binp, "table"], env=vlib.go_env(), timeout=120)
    if rc != 0:
        raise vlib.HarnessError("c13run table failed: " + se[-2000:])
    table = ident = via = None
    for l in so.splitlines():
        t = l.split()
        if t[0] == "table":
            table = [[int(x) for x in r.split(",")] for r in t[1].split(";")]
        elif t[0] == "merge":
            via = [[tuple(int(y) for y in x.split("/")) for x in r.split(",")] for r in t[1].split(";")]
        elif t[0] == "ident":
            ident = (int(t[1]), int(t[2]))
    if table is None or ident is None or via is None or len(table) != 5 or any(len(r) != 5 for r in table):
        raise vlib.HarnessError("c13run table: unexpected output " + so)
    return table, ident, via


# ------------------------------------------------------------------ lattice elements
def gen_map_elem(rng, fam, with_ident):
    m = {}
    for _ in range(rng.below(5)):
        v = rng.below(fam.size)
        if v == fam.bot and not with_ident:
            continue
        m[rng.below(5)] = v
    return ",".join("%d=%d" % kv for kv in sorted(m.items())) or "-"


def gen_dm_elem(rng, fam):
    l = [rng.choice([fam.bot, rng.below(fam.size), rng.below(fam.size)]) for _ in range(rng.below(5))]
    return show_vec(l) if l else "-"


# ------------------------------------------------------------------ the check
def run(ctx):
    import time
    W = max(2, min(vlib.NCPU, 12))
    phases = {}
    t_last = [time.time()]

    def phase(name):
        now = time.time()
        phases[name] = round(now - t_last[0], 1)
        t_last[0] = now

    binp = vlib.build_harness(ctx, "c13run")
    phase("build_harness")

    # --- tie G: regenerate the nilness table from the current tree, then build + audit
    table, ident, via = read_table(binp)
    regenerated = vlib.write_if_changed(GENERATED, render_generated(table, ident))
    lean_ok, lean_broke = vlib.std_lean_phase(ctx, MODULES, THEOREMS)
    phase("lean_build_audit")
    table_closed = all(0 <= x < 5 for r in table for x in r)
    merge_uses_table = table_closed and all(via[a][b] == (table[a][b], table[b][a]) for a in range(5) for b in range(5))
    if not table_closed:
        # cannot even index with the results; the python lattices below need a closed table
        safe = [[min(max(x, 0), 4) for x in r] for r in table]
    else:
        safe = table
    fams = families(safe)
    R5 = range(5)
    table_lawful = table_closed and all(
        safe[a][safe[b][c]] == safe[safe[a][b]][c] and safe[a][b] == safe[b][a] and safe[a][a] == a and safe[a][0] == a
        for a in R5 for b in R5 for c in R5)

    known = vlib.load_known_findings("C13")
    violations = []      # (name, obj, text)
    corr = []            # model != implementation, oracle fine
    hist = {}

    def bump(k, d=1):
        hist[k] = hist.get(k, 0) + d

    # ---------------------------------------------------------------- replay mode
    if getattr(ctx, "replay", None):
        return replay(ctx, binp, fams, safe)

    # ---------------------------------------------------------------- lattice laws on the real code
    root = vlib.SplitMix(ctx.seed)
    law_lines = ["laws nil nil " + " ".join(str(i) for i in range(25))]
    nsets = 6 if ctx.quick else 60
    for impl, els in (("map", ["cp", "n5", "or", "ao"]), ("dm", ["cp", "n5", "or", "and", "ao", "nil"])):
        for el in els:
            fam = fams[el]
            for si in range(nsets):
                rng = root.fork("laws/%s/%s/%d" % (impl, el, si))
                if impl == "map":
                    elems = ["-"] + [gen_map_elem(rng, fam, False) for _ in range(9)]
                else:
                    elems = ["-"] + [gen_dm_elem(rng, fam) for _ in range(9)]
                law_lines.append("laws %s %s %s" % (impl, el, " ".join(elems)))
    merge_go, merge_lean = [], []
    nmerge = 400 if ctx.quick else 6000
    for i in range(nmerge):
        rng = root.fork("merge/%d" % i)
        if rng.chance(1, 2):
            el = rng.choice(["cp", "n5", "or", "ao"])
            a, b = gen_map_elem(rng, fams[el], False), gen_map_elem(rng, fams[el], False)
            merge_go.append("merge map %s %s %s" % (el, a, b))
            merge_lean.append("mapmerge %s %s %s" % (el, a, b))
        else:
            el = rng.choice(["cp", "n5", "or", "and", "ao", "nil"])
            a, b = gen_dm_elem(rng, fams[el]), gen_dm_elem(rng, fams[el])
            merge_go.append("merge dm %s %s %s" % (el, a, b))
            merge_lean.append("dmmerge %s %s %s" % (el, a, b))
    law_out = run_harness(ctx, binp, "laws", law_lines + merge_go, W)
    law_res, merge_res = law_out[:len(law_lines)], law_out[len(law_lines):]
    triples = 0
    for line, res in zip(law_lines, law_res):
        if res.startswith("ok "):
            triples += int(res.split()[1])
            bump("laws:" + line.split()[1] + "/" + line.split()[2])
        elif res.startswith("bad-op"):
            raise vlib.HarnessError("c13run laws rejected %r: %s" % (line, res))
        else:
            violations.append(("laws_%s_%s.json" % tuple(line.split()[1:3]), {
                "what": "a semilattice law fails on the real lattice implementation (real Merge/Equals)",
                "kind": "laws", "go_line": line, "result": res,
                "how_to_replay": "echo '<go_line>' | harness/cmd/c13run laws   (or ./check C13 --replay <this file>)",
            }, "C13: lattice %s over %s: %s" % (line.split()[1], line.split()[2], res)))
    # nilmerge lines tie the Lean table to the real one as well (trivially, it is generated)
    nil_lean = ["nilmerge %d %d" % (a, b) for a in range(5) for b in range(5)]
    lean_out = run_model_par(ctx, merge_lean + nil_lean, W)
    for gl, ll, g, m in zip(merge_go, merge_lean, merge_res, lean_out):
        if g.startswith("bad-op") or m == "bad-op":
            raise vlib.HarnessError("merge line rejected: %r -> %r / %r" % (gl, g, m))
        mm = m.split(";panic=")[0]
        if g != mm:
            if g.startswith("panic"):
                violations.append(("merge_panic.json", {
                    "what": "the real lattice Merge panics on well-formed elements", "kind": "laws",
                    "go_line": gl, "result": g}, "C13: %s -> %s" % (gl, g)))
            else:
                corr.append({"stream": "lattice merge", "go_line": gl, "impl": g, "model": mm})
        if m.endswith("panic=1"):
            corr.append({"stream": "lattice merge (model predicts a panic on well-formed maps)", "go_line": gl, "model": m})
    for (a, b), m in zip([(a, b) for a in range(5) for b in range(5)], lean_out[len(merge_lean):]):
        if str(table[a][b]) != m:
            corr.append({"stream": "nilness table", "pair": [a, b], "impl": table[a][b], "model": m})
    if not merge_uses_table:
        corr.append({"stream": "nilness lattice.Merge is not latticeMerge on each component", "table": table, "via_merge": via})

    phase("lattice_laws")
    # ---------------------------------------------------------------- dense
    n_dense = 3000 if ctx.quick else 150000
    corpus_cases = []
    cpath = os.path.join(CORPUS, "dense.txt")
    if os.path.exists(cpath):
        for l in open(cpath).read().splitlines():
            l = l.strip()
            if not l or l.startswith("#"):
                continue
            base = parse_dense_line(l)
            for impl in IMPLS[base.lat]:
                for ids in IDS:
                    c = parse_dense_line(l)
                    c.impl, c.ids = impl, ids
                    corpus_cases.append(c)
    corpus_recs = []
    for c in corpus_cases:
        inn, o, rounds = kleene_dense(c, fams[c.lat])
        corpus_recs.append((c.go_line(), inn, o, rounds, graph_features(c.n, c.edges), "corpus"))
    per = max(1, (n_dense + 4 * W - 1) // (4 * W))
    jobs = [(ctx.seed, lo, min(n_dense, lo + per), safe, not ctx.quick) for lo in range(0, n_dense, per)]
    with ProcessPoolExecutor(max_workers=W) as ex:
        gen = list(ex.map(dense_worker, jobs))
    recs = corpus_recs + [r for ch in gen for r in ch]
    phase("dense_generate_kleene")
    go_lines = [r[0] for r in recs]
    lean_lines = [model_line(l) for l in go_lines]
    with ThreadPoolExecutor(max_workers=2) as ex:
        f1 = ex.submit(run_harness, ctx, binp, "dense", go_lines, W)
        f2 = ex.submit(run_model_par, ctx, lean_lines, W)
        go_out, model_out = f1.result(), f2.result()
    phase("dense_real_and_model")

    dense_nontrivial = set()
    dense_samples = []
    for (gl, inn, out, rounds, feats, tag), g, m in zip(recs, go_out, model_out):
        c = parse_dense_line(gl)
        fam = fams[c.lat]
        bump("dense:lat=" + c.lat)
        bump("dense:impl=" + c.impl + "/" + c.ids)
        bump("dense:fact=" + c.lat + "/" + c.impl)
        if c.lat + "/" + c.impl in NONZERO_IDENT:
            bump("dense:ident-not-zero-value")
        if "@" in model_line(gl).split(" ")[1]:
            bump("dense:model-run-over-representation=" + c.impl)
        bump("dense:shape=" + tag)
        bump("dense:n=%s" % ("1-4" if c.n <= 4 else "5-8" if c.n <= 8 else "9-16" if c.n <= 16 else
                             "65-128" if c.n <= 128 else "129-200"))
        for f in feats:
            bump("dense:feature=" + f)
        if inn is None:
            # Kleene iteration did not converge: legitimate only over a nilness table that is not a
            # semilattice (then the law check above has already produced the violation)
            if table_lawful or c.lat != "nil":
                raise vlib.HarnessError("kleene_dense does not converge (generator produced a non-monotone case?): " + gl)
            bump("dense:skipped-unlawful-table")
            continue
        if m == "bad-op":
            raise vlib.HarnessError("model rejected line: " + gl)
        if g.startswith("bad-op") or g == "skipped":
            if g == "skipped":
                continue
            raise vlib.HarnessError("c13run dense rejected line %r: %s" % (gl, g))
        real = parse_dense_result(g)
        replay_obj = {"kind": "dense", "go_line": gl,
                      "how_to_replay": "echo '<go_line>' | harness/cmd/c13run dense  (built with replace => the tree under test); "
                                       "or ./check C13 --replay <this file>",
                      "real": g, "model": m,
                      "least_fixpoint_by_kleene_iteration": {"in": [show_vec(v) for v in inn], "edge": [show_vec(v) for v in out]},
                      "graph_features": feats}
        if real is None:
            # panic / timeout / diverges: the solver did not terminate with a result
            replay_obj["what"] = "the real dense.Forward did not return a result: " + g
            violations.append(("dense_noresult.json", replay_obj, "C13 dense: %s on %s" % (g, gl)))
            continue
        rin, rout = real
        bad = check_dense_equations(c, fam, rin, rout)
        if not bad and (rin != inn or rout != out):
            bad.append("the result is a fixpoint but not the least one (Kleene iteration from Ident gives smaller facts)")
        if bad:
            replay_obj["what"] = "real dense.Forward result violates the property"
            replay_obj["failures"] = bad[:10]
            violations.append(("dense_fixpoint.json", replay_obj, "C13 dense: %s\n  case: %s" % (bad[0], gl)))
            continue
        mres = parse_dense_result(m)
        if mres is None or mres[0] != rin or mres[1] != rout:
            corr.append({"stream": "dense", "go_line": gl, "impl": g, "model": m})
        if rounds > 2 and len(c.edges) > 0:
            t = gl.split()
            dense_nontrivial.add(" ".join(t[3:5] + t[6:]))
        if len(dense_samples) < 4 and rounds > 3 and "cycle" in feats:
            dense_samples.append({"case": gl, "real": g, "model": m})

    phase("dense_compare")
    # ---------------------------------------------------------------- sparse
    n_sparse = 600 if ctx.quick else 30000
    sp_lines, sp_srcs = [], []
    spath = os.path.join(CORPUS, "sparse.txt")
    if os.path.exists(spath):
        for l in open(spath).read().splitlines():
            if l.strip() and not l.startswith("#"):
                sp_lines.append(l.strip())
                sp_srcs.append(bytes.fromhex(l.split()[4]).decode())
    for i in range(n_sparse):
        l, src = gen_sparse(root.fork("sparse/%d" % i), safe)
        sp_lines.append(l)
        sp_srcs.append(src)
    phase("sparse_generate")
    sp_out = run_harness(ctx, binp, "sparse", sp_lines, W)
    phase("sparse_real")
    with ProcessPoolExecutor(max_workers=W) as ex:
        sp_or = [x for ch in ex.map(sparse_oracle_worker, [(ch, safe) for ch in chunked(sp_out, 4 * W)]) for x in ch]
    sp_model_in, sp_model_idx = [], []
    for i, r in enumerate(sp_or):
        if r[0] == "ok":
            rng = root.fork("sparse-sched/%d" % i)
            sp_model_in.append(r[1].replace(" @ ", " %s " % rng.choice(["lo", "hi", "r%d" % rng.below(1000)]), 1))
            sp_model_idx.append(i)
    phase("sparse_kleene")
    sp_model = dict(zip(sp_model_idx, run_model_par(ctx, sp_model_in, W)))
    phase("sparse_model")
    sparse_nontrivial = set()
    sparse_multi_nontrivial = 0
    sparse_samples = []
    wf_broken = 0
    for i, (line, src, r) in enumerate(zip(sp_lines, sp_srcs, sp_or)):
        replay_obj = {"kind": "sparse", "go_line": line, "source": src,
                      "how_to_replay": "echo '<go_line>' | harness/cmd/c13run sparse ; or ./check C13 --replay <this file>"}
        if r[0] == "raw":
            g = r[1]
            if g.startswith("bad-source"):
                raise vlib.HarnessError("generated Go source rejected by the toolchain (generator bug): %s\n%s" % (g, src))
            if g.startswith("bad-op"):
                raise vlib.HarnessError("c13run sparse rejected a line: " + g)
            if g == "skipped":
                continue
            replay_obj["what"] = "the real sparse.Instance.Forward did not return a result: " + g
            violations.append(("sparse_noresult.json", replay_obj, "C13 sparse: %s" % g))
            continue
        if r[0] == "noconv":
            if table_lawful or r[1].split()[1] != "n5":
                raise vlib.HarnessError("kleene_sparse does not converge: " + r[1])
            bump("sparse:skipped-unlawful-table")
            continue
        if r[0] == "panic":
            _, dump, panics, lfp, hyp, nonvalue_changing = r
            if hyp:
                wf_broken += 1
                continue
            if (KEY_NONVALUE in known and nonvalue_changing and
                    all("nil pointer dereference" in m for m in panics)):
                bump("sparse:known-finding-nonvalue-mapping")
                ctx.known_finding("key=%s sparse.Instance.Forward panics (nil pointer dereference at *instr.Referrers()) when the "
                                  "transfer function of an instruction that is not an ir.Value (here *ir.Return mapping a summary "
                                  "state for the function value) returns a mapping whose state changes" % KEY_NONVALUE)
                continue
            replay_obj["dump"] = dump
            replay_obj["what"] = "the real sparse.Instance.Forward did not return a result: " + panics[0]
            replay_obj["least_fixpoint_by_kleene_iteration"] = lfp
            violations.append(("sparse_noresult.json", replay_obj, "C13 sparse: %s\n%s" % (panics[0], src)))
            continue
        _, dump, real, lfp, bad, hyp, n, nphi, nmulti = r
        bump("sparse:lat=" + dump.split()[1])
        bump("sparse:instrs=%s" % ("<20" if n < 20 else "20-49" if n < 50 else "50+"))
        bump("sparse:phis=%s" % ("0" if nphi == 0 else "1-3" if nphi <= 3 else "4+"))
        bump("sparse:multi-mapping-instrs=%s" % ("0" if nmulti == 0 else "1-5" if nmulti <= 5 else "6+"))
        if hyp:
            # a hypothesis of the theorems does not hold for this program/transfer (the API is then
            # not used soundly): nothing is claimed, the case is counted only
            wf_broken += 1
            for hname in hyp:
                bump("sparse:hypothesis-broken=" + hname)
            continue
        replay_obj["real"] = real
        replay_obj["dump"] = dump
        replay_obj["least_fixpoint_by_kleene_iteration"] = lfp
        if not bad and real != lfp:
            bad.append("the mapping is a fixpoint but not the least one")
        if bad:
            replay_obj["what"] = "real sparse.Instance.Forward result violates the property"
            replay_obj["failures"] = bad[:10]
            violations.append(("sparse_fixpoint.json", replay_obj, "C13 sparse: %s\n%s" % (bad[0], src)))
            continue
        m = sp_model[i]
        if m == "bad-op":
            raise vlib.HarnessError("model rejected sparse dump: " + dump)
        mv = m.split(";")[0]
        if mv != "val=" + ",".join(str(x) for x in real):
            corr.append({"stream": "sparse", "go_line": line, "impl": real, "model": m})
        if nphi > 0 and any(x != sparse_fam(dump.split()[1], safe).bot for x in real[:n]):
            sparse_nontrivial.add(line)
            if nmulti > 0:
                sparse_multi_nontrivial += 1
        if len(sparse_samples) < 2 and nphi >= 2 and nmulti >= 2:
            sparse_samples.append({"source": src, "dump": dump, "real": real})

    # ---------------------------------------------------------------- evidence
    ctx.coverage.update({
        "evaluations": len(recs) + len(sp_lines) + triples + len(merge_go),
        "distinct_nontrivial": len(dense_nontrivial) + len(sparse_nontrivial),
        "rule": "dense: distinct (lattice, graph, entry, transfers) cases with at least one edge whose Kleene iteration needs "
                "more than 2 rounds; sparse: distinct programs with at least one phi and a non-Ident instruction value whose "
                "real result was compared (known-finding programs excluded)",
        "dense_cases": len(recs), "dense_nontrivial": len(dense_nontrivial),
        "sparse_programs": len(sp_lines), "sparse_nontrivial": len(sparse_nontrivial),
        "sparse_nontrivial_with_multi_mapping_transfers": sparse_multi_nontrivial,
        "sparse_runs_per_program": 3,
        "lattice_law_triples_on_real_code": triples, "lattice_merge_pairs_vs_model": len(merge_go),
        "nilness_table": table, "generated_lean_rewritten": regenerated,
        "sparse_hypotheses_broken_programs": wf_broken,
        "histogram": dict(sorted(hist.items())),
        "samples": dense_samples + sparse_samples,
        "correspondence_diffs": len(corr),
        "phase_seconds": phases,
    })
    ctx.assumptions += [
        "the executable dense model runs on canonical k-vectors and, for every second dm/map case, over the dmLat / mapLat "
        "representations themselves (Equals coarser than equality); that both agree step by step is proved (Repr simulation: "
        "dense_forward_densemap / dense_forward_map / dense_forward_nilness)",
        "graph.Compact / graph.Index / ReversePostorder are not modelled: every theorem holds for any schedule and the real queue "
        "(container/heap + bitmap words, Heap.lean) is proved to implement the set-queue for every priority table; the queue model "
        "is a transliteration of forward.go and container/heap (not tied by execution); the three Compact paths and graphs of "
        "65-200 nodes (2-4 bitmap words) are exercised by the X runs",
        "transfer functions are monotone (hypothesis Mono / MonoE / SpecMono) and, for coarse Equals, keep facts well-formed and "
        "respect Equals; generated transfers are monotone by construction",
        "finite height is a hypothesis (Ranked); proved for the nilness lattice (height 3 per component) and for k-vectors",
        "sparse: the executed lattices have Equals = equality (all element types used are comparable; the carry-over to a coarse "
        "Equals is proved: sparsem_forward_upto); the client contract SparseM.Spec (all writers of a "
        "value agree, mappings read only their read sets, each mapping is stable or every reader of the mapped value is a "
        "referrer of the mapping instruction, initial states below the mapped ones) is probed on every dump by "
        "sparse_hypotheses(); programs violating it would be counted, not judged (none so far)",
        "programs in which a non-value instruction (Referrers() == nil, e.g. *ir.Return) has a mapping whose state changes "
        "used to make the real solver panic (fixed by 4306c1d); they stay in the population and a panic is a violation",
        "Python Kleene / round-robin iteration and the op/table interpreters in checks/c13.py are the oracle and are trusted",
    ]

    # ---------------------------------------------------------------- classify
    if violations:
        seen = set()
        for name, obj, text in violations:
            if name in seen:
                continue
            seen.add(name)
            same = [v for v in violations if v[0] == name]
            obj = dict(obj)
            obj["count_of_failing_cases_of_this_kind"] = len(same)
            obj["more_cases"] = [v[1].get("go_line") for v in same[1:20]]
            obj["lean"] = lean_broke
            ctx.violation(name, obj, text=text)
    elif corr or not lean_ok:
        # violation search: the oracle has already been evaluated on every generated case above
        # (and exhaustively on the 25 nilness values); search further with fresh seeds, targeted
        # at the family whose table/proof changed.
        found = violation_search(ctx, binp, fams, safe, W)
        if found:
            name, obj, text = found
            ctx.violation(name, obj, text=text)
        else:
            ctx.violation("correspondence.json", {
                "what": "the model no longer corresponds to the code, or a proof no longer checks, but every explored input "
                        "satisfies the property",
                "lean": lean_broke, "theorems": THEOREMS,
                "correspondence_diffs": corr[:40],
            }, nofail=True)
    return vlib.finish(ctx, "proof")


def violation_search(ctx, binp, fams, table, W):
    """extra generated dense cases (nil-heavy) with other seeds through the oracle."""
    extra = 4000 if ctx.quick else 40000
    per = (extra + W - 1) // W
    jobs = [(ctx.seed + 7919, lo, min(extra, lo + per), table, False) for lo in range(0, extra, per)]
    with ProcessPoolExecutor(max_workers=W) as ex:
        recs = [r for ch in ex.map(dense_worker, jobs) for r in ch]
    outs = run_harness(ctx, binp, "dense", [r[0] for r in recs], W)
    for (gl, inn, out, rounds, feats, tag), g in zip(recs, outs):
        c = parse_dense_line(gl)
        if inn is None:
            continue
        real = parse_dense_result(g)
        if real is None:
            if g == "skipped":
                continue
            return ("dense_noresult.json", {"kind": "dense", "go_line": gl, "real": g, "what": "no result"}, "C13 dense: " + g)
        bad = check_dense_equations(c, fams[c.lat], real[0], real[1])
        if not bad and (real[0] != inn or real[1] != out):
            bad = ["fixpoint but not least"]
        if bad:
            return ("dense_fixpoint.json", {"kind": "dense", "go_line": gl, "real": g, "failures": bad[:10],
                                            "what": "real dense.Forward result violates the property (found by the violation search)"},
                    "C13 dense: %s\n  case: %s" % (bad[0], gl))
    return None


def replay(ctx, binp, fams, table):
    obj = json.load(open(ctx.replay))
    kind = obj.get("kind")
    lines = [obj["go_line"]] + [l for l in obj.get("more_cases", []) if l]
    failed = []
    if kind == "dense":
        outs = run_harness(ctx, binp, "dense", lines, 1)
        for gl, g in zip(lines, outs):
            c = parse_dense_line(gl)
            real = parse_dense_result(g)
            inn, out, _ = kleene_dense(c, fams[c.lat])
            if real is None:
                failed.append((gl, g))
                continue
            if inn is None:
                failed.append((gl, "Kleene iteration does not converge over the current nilness table"))
                continue
            bad = check_dense_equations(c, fams[c.lat], real[0], real[1])
            if not bad and (real[0] != inn or real[1] != out):
                bad = ["not the least fixpoint"]
            if bad:
                failed.append((gl, bad[0]))
    elif kind == "sparse":
        outs = run_harness(ctx, binp, "sparse", lines, 1)
        for gl, r in zip(lines, sparse_oracle_worker((outs, table))):
            if r[0] == "raw":
                failed.append((gl, r[1]))
            elif r[0] == "panic":
                if KEY_NONVALUE in vlib.load_known_findings("C13") and r[5] and all("nil pointer dereference" in m for m in r[2]):
                    ctx.known_finding("key=%s (replayed case)" % KEY_NONVALUE)
                else:
                    failed.append((gl, r[2][0]))
            elif r[0] == "noconv":
                failed.append((gl, "Kleene iteration does not converge over the current nilness table"))
            elif r[5]:
                print("replay: hypotheses of the theorems do not hold for this case: %s" % ",".join(r[5]))
            elif r[4] or r[2] != r[3]:
                failed.append((gl, (r[4] or ["not the least fixpoint"])[0]))
    elif kind == "laws":
        outs = run_harness(ctx, binp, "laws", lines, 1)
        for gl, g in zip(lines, outs):
            if not (g.startswith("ok ") or ";eq=" in g):
                failed.append((gl, g))
    else:
        print("replay file names no concrete input (kind=%r); nothing to re-run" % kind)
        return 0
    ctx.coverage.update({"evaluations": len(lines), "distinct_nontrivial": len(lines), "rule": "replay", "samples": lines[:3]})
    for gl, why in failed:
        print("replay: still failing: %s\n  %s" % (why, gl))
    if failed:
        ctx.violation(os.path.basename(ctx.replay), obj, text="C13 replay: %d of %d cases still fail" % (len(failed), len(lines)))
    else:
        print("replay: all %d case(s) satisfy the property on the current tree" % len(lines))
    return vlib.finish(ctx, "proof")


META = {
    "level": "proof",
    "technique": "Lean 4 theorems over transition-system models of dense.Forward/propagate (dirty flags, any schedule), of its "
                 "real work queue (container/heap up/down/Push/Pop + inQueue bitmap words, proved to implement the set-queue for "
                 "every priority table), of sparse.Instance.Forward for single- and multi-mapping transfers (sparse.Ms), and of "
                 "MapLattice/DenseMapLattice, plus a simulation theorem carrying the dense results to lattices whose Equals is "
                 "coarser than equality; nilness table regenerated from the tree and re-proved by kernel decide; executable "
                 "correspondence + Kleene / round-robin least-fixpoint oracle on the real solvers, with fact types whose Ident() is "
                 "not the Go zero value, multi-mapping transfer functions, 65-200 node graphs, three sparse runs per program",
    "text": "Proved for every finite graph / program, every lawful semilattice of finite height, every monotone transfer, every "
            "entry map and every schedule: the worklist loop of dense.Forward (also when driven by its real heap + bitmap queue "
            "with any priority table: dense_forward_heap_least_fixpoint) and of sparse.Forward (transfers returning one mapping: "
            "sparse_forward_least_fixpoint; any list of mappings under the explicit client contract SparseM.Spec - agreeing "
            "writers, read sets, each mapping stable or every reader of the mapped value a referrer of the mapping instruction: "
            "sparsem_forward_least_fixpoint; up to a coarse Equals: sparsem_forward_upto) terminates within an explicit bound, its result satisfies in(n) = merge of incoming "
            "edge facts (entry fact for nodes without predecessors), edge = transfer(in(src)) resp. every mapping of every "
            "instruction, and lies below every other solution; the same up to Equals for DenseMapLattice and MapLattice facts "
            "and for the instance nilness.go uses. Negative theorems: a non-Ident placeholder for an unvisited predecessor's out "
            "facts (dense_placeholder_must_be_ident) and a re-enqueue flag assigned per mapping (sparsem_flag_must_accumulate) "
            "break leastness / the fixpoint on instances satisfying all hypotheses. map_lattice_laws, dense_map_lattice_laws, "
            "nilness_laws (over the table regenerated from nilness.go at every check) give associativity, commutativity, "
            "idempotence, identity and that Equals is a congruence. Explored, not proved: that the Go code is the model (tie X: "
            "real dense.Forward over three graph adapters and 14 fact types, four with a non-zero Ident; real sparse.Forward on IR "
            "built from generated sources with multi-mapping transfers and intersection lattices; real Merge/Equals; compared "
            "with the model - run over k-vectors and over the dmLat/mapLat representations - and with the least fixpoint by "
            "Kleene iteration); the queue model is a transliteration of forward.go and container/heap; graph.Compact and "
            "ReversePostorder are not modelled (irrelevant for the result by the queue theorems). Known finding: "
            "sparse.Instance.Forward dereferences a nil Referrers() when a non-value instruction's mapping changes.",
    "note": "Trusted: Lean kernel (axioms propext/Classical.choice/Quot.sound), compiled c13driver, harness/cmd/c13run (go:linkname "
            "access to the unexported nilness lattice, no hook), the oracles and hypothesis probes in checks/c13.py. Hypotheses of "
            "the theorems (monotone transfers, finite height, well-formed facts, the sparse client contract) are explicit, each "
            "has a non-vacuity example, and the sparse contract is probed on every generated program.",
    "design_ref": "DESIGN.md section 5, C13; Appendix B (C13 dense)",
}
