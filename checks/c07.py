"""C07 — U1000 is deletion-safe and catches every zero-reference object.

Lean (lean/Verif/C07):
  Graph/Lemmas/Theorems   the use/own graph, `color`, `colorAndQuieten`, `Results` (shared with C17)
  Walk/WalkTheorems       model of the RULES of the AST walk (entry/decl/namedType/embeddedField/
                          seeScope/processMethodSet/implements) for a declaration language, as a
                          function abstract package -> builder calls (C17 `Event`), with
                          walk_refs_safe, walk_multi_init_safe, walk_impl_safe (deletion safety over
                          the abstract language) and walk_zero_ref_reported (completeness)
  Emit/EmitTheorems       model of lintcmd/lint.go's U1000 merge over package variants and of the
                          emission loop, keyed by (package, file, line, NAME): emitted_iff,
                          emit_deletion_safe, emit_complete

Ties, all checked on every run:
  X  colouring: Lean Results on the dumped graph = colours/Result of the real code (every program);
  X  walk: for every package of the fragment generator the edges, owners and verdicts of the graph
     built by the Lean walk model equal the REAL analyzer's dump, the program's references
     (go/types) are references of the abstract package, go/types' zero-reference objects are the
     model's candidates;
  X  emission: Lean `emitted` on the per-variant Results (in-process runs of unused.Analyzer on the
     plain and the in-package-test variant) = the U1000 lines of the REAL staticcheck binary,
     without and with tests;
  V  certificate `refsCovered` of deletion_safe_graph on every dump — ENFORCED: an uncovered
     reference is a correspondence failure.
Oracles (the statement's own bracket, judged by go/types, never by unused's rules), applied to
what unused.Analyzer returns AND to what the staticcheck binary prints:
  (1) remove every reported object (and what is declared inside it), drop imports that became
      unused, types.Check must succeed;
  (2) every unexported package-level func / defined type / var / stand-alone const without any
      referring identifier must be reported.
Programs: corpus/C07 (minimised regressions, first), seeded declaration-graph generator PkgGen,
fragment generator FragGen, /repo/unused/testdata packages, packages of the repository.
"""
import json
import os
import re
import shutil
import tempfile
from concurrent.futures import ThreadPoolExecutor

import vlib

MODULES = ["Verif.C07.Theorems", "Verif.C07.WalkTheorems", "Verif.C07.EmitTheorems"]
THEOREMS = [
    "Verif.C07.Graph.used_iff_reachable",
    "Verif.C07.Graph.used_closed",
    "Verif.C07.Graph.deletion_safe_graph",
    "Verif.C07.Graph.zero_ref_reported",
    "Verif.C07.Graph.zero_ref_unowned_reported",
    "Verif.C07.Graph.quiet_only_under_unused_owner",
    "Verif.C07.Graph.quiet_has_unused_ancestor",
    "Verif.C07.Graph.results_partition",
    "Verif.C07.Graph.verdict_used_iff",
    "Verif.C07.Graph.verdict_quiet_iff",
    "Verif.C07.Graph.verdict_unused_iff",
    "Verif.C07.Walk.refs_covered",
    "Verif.C07.Walk.walk_refs_safe",
    "Verif.C07.Walk.walk_multi_init_safe",
    "Verif.C07.Walk.walk_impl_safe",
    "Verif.C07.Walk.use_target_cases",
    "Verif.C07.Walk.walk_zero_ref_reported",
    "Verif.C07.Walk.owners_are_containers",
    "Verif.C07.Walk.walk_quiet_inside_reported",
    "Verif.C07.Walk.walk_deletion_safe",
    "Verif.C07.Emit.emitted_iff",
    "Verif.C07.Emit.emit_deletion_safe",
    "Verif.C07.Emit.emit_complete",
]
CORPUS = os.path.join(vlib.VERIF, "corpus", "C07")
TESTDATA = "unused/testdata/src/example.com"
MODPATH = "example.com/c07"
# repository packages that type-check from source with the stdlib source importer only
# (no third-party imports), small enough for the quick tier
REPO_PKGS_QUICK = ["go/ir/irutil", "analysis/facts/tokenfile", "go/gcsizes", "internal/sync", "printf"]
REPO_PKGS_THOROUGH = REPO_PKGS_QUICK + [
    "unused", "pattern", "lintcmd/version", "analysis/edit", "config", "go/types/typeutil", "knowledge",
    "analysis/facts/generated", "analysis/facts/deprecated", "structlayout", "internal/robustio", "internal/renameio",
    "go/ast/astutil", "analysis/lint", "sarif",
]


# ============================================================================ generator
class Ty:
    """a Go type of the generated package"""

    def __init__(self, expr, zero, kind, ref=None):
        self.expr = expr    # Go syntax
        self.zero = zero    # a Go expression of that type
        self.kind = kind    # int string struct ptr iface func named generic
        self.ref = ref      # the entity it refers to


class Struct:
    def __init__(self, name):
        self.name = name
        self.fields = []        # (name, Ty)
        self.emb_struct = None  # (Struct, byptr)
        self.emb_iface = None   # Iface
        self.methods = []       # (name, ptr_recv)
        self.twin_of = None
        self.derived_of = None  # `type d struct-of-other`: shares the field objects, no methods inherited
        self.tparams = False
        self.pair_lines = []    # [(name1, name2, Ty)]: two fields declared on one line `a, b T`
        self.tags = {}          # field name -> struct tag

    def all_fields(self):
        """(selector name) of fields reachable through promotion, incl. own"""
        out = [f for f, _ in self.fields]
        if self.emb_struct:
            out += self.emb_struct[0].all_fields()
            out.append(self.emb_struct[0].name)
        return out

    def mset(self, ptr):
        """method names in the method set of T (ptr=False) or *T (ptr=True)"""
        own = set(m for m, _ in self.methods)   # own methods shadow promoted ones, whatever their receiver
        s = set(m for m, p in self.methods if ptr or not p)
        if self.emb_iface:
            s |= self.emb_iface.all_methods() - own
        if self.emb_struct:
            es, byptr = self.emb_struct
            s |= es.mset(ptr or byptr) - own
        return s

    def callable(self):
        """methods callable on an addressable variable of type T"""
        return self.mset(True)


class Iface:
    def __init__(self, name):
        self.name = name
        self.methods = []   # names
        self.embeds = None  # Iface

    def all_methods(self):
        s = set(self.methods)
        if self.embeds:
            s |= self.embeds.all_methods()
        return s


class NamedInt:
    def __init__(self, name):
        self.name = name
        self.methods = []  # (name, ptr_recv)

    def mset(self, ptr):
        return set(m for m, p in self.methods if ptr or not p)


class Func:
    def __init__(self, name, params, result):
        self.name, self.params, self.result = name, params, result


POOL = ["m0", "m1", "m2", "m3", "M4", "M5"]


class PkgGen:
    """Seeded generator of one type-correct package without imports.  Every top-level
    declaration is one string in self.decls (so that declarations can be permuted and
    spread over files); every package-level name, field name and local name is unique
    except for the fields of convertible twin structs."""

    def __init__(self, rng, size, pkg="p"):
        self.r = rng
        self.pkg = pkg
        self.size = size
        self.n = 0
        self.decls = []
        self.structs, self.ifaces, self.nints, self.funcs = [], [], [], []
        self.vars, self.consts, self.aliases, self.generics, self.gfuncs, self.cfuncs = [], [], [], [], [], []
        self.pairs = []        # (name, Ty, Ty): functions with two results, called only by initialisers
        self.variadics = []    # names of `func v(xs ...int)`
        self.test_lines = []   # statements of the helper in the in-package test file
        self.hist = {}
        self.build()

    # ---- helpers
    def uid(self):
        self.n += 1
        return self.n

    def hit(self, k):
        self.hist[k] = self.hist.get(k, 0) + 1

    def name(self, prefix, exported_chance=(1, 4)):
        n = "%s%d" % (prefix, self.uid())
        if self.r.chance(*exported_chance):
            n = n[0].upper() + n[1:]
        return n

    T_INT = Ty("int", "0", "int")
    T_STR = Ty("string", '""', "string")

    def struct_ty(self, s):
        return Ty(s.name, s.name + "{}", "struct", s)

    def ptr_ty(self, s):
        return Ty("*" + s.name, "nil", "ptr", s)

    def iface_ty(self, i):
        return Ty(i.name, "nil", "iface", i)

    def nint_ty(self, n):
        return Ty(n.name, n.name + "(0)", "named", n)

    def any_type(self, allow_struct_value_below=None):
        """a random type; struct values only of structs with index < allow_struct_value_below"""
        r = self.r
        c = r.below(10)
        if c <= 1 or not self.structs:
            return self.T_INT if r.chance(2, 3) else self.T_STR
        if c <= 3:
            lim = len(self.structs) if allow_struct_value_below is None else allow_struct_value_below
            if lim > 0:
                return self.struct_ty(self.structs[r.below(lim)])
            return self.T_INT
        if c <= 5:
            return self.ptr_ty(r.choice(self.structs))
        if c == 6 and self.ifaces:
            return self.iface_ty(r.choice(self.ifaces))
        if c == 7 and self.nints:
            return self.nint_ty(r.choice(self.nints))
        if c == 8 and self.aliases:
            a, s = r.choice(self.aliases)
            lim = len(self.structs) if allow_struct_value_below is None else allow_struct_value_below
            if self.structs.index(s) < lim:
                return Ty(a, a + "{}", "struct", s)
            return Ty("*" + a, "nil", "ptr", s)
        if c == 9:
            return Ty("func()", "nil", "func")
        return self.T_INT

    # ---- declarations
    def build(self):
        r, size = self.r, self.size
        n_if = 1 + r.below(2 + size // 3)
        n_st = 2 + r.below(2 + size // 2)
        n_ni = r.below(3)
        # interfaces
        for _ in range(n_if):
            it = Iface(self.name("i", (1, 5)))
            k = 1 + r.below(3)
            it.methods = sorted(set(r.choice(POOL) for _ in range(k)))
            if self.ifaces and r.chance(1, 3):
                e = r.choice(self.ifaces)
                if not (set(it.methods) & e.all_methods()):
                    it.embeds = e
                    self.hit("iface_embeds_iface")
            self.ifaces.append(it)
        # named ints
        for _ in range(n_ni):
            ni = NamedInt(self.name("n"))
            for m in sorted(set(r.choice(POOL) for _ in range(r.below(3)))):
                ni.methods.append((m, r.chance(1, 3)))
            self.nints.append(ni)
        # structs
        for si in range(n_st):
            s = Struct(self.name("t"))
            if self.structs and r.chance(1, 5):
                tw = r.choice(self.structs)
                if not tw.tparams:
                    if r.chance(1, 3):
                        s.derived_of = tw
                        self.hit("derived_struct")
                    else:
                        s.twin_of = tw
                        s.fields = list(tw.fields)
                        s.emb_struct, s.emb_iface = tw.emb_struct, tw.emb_iface
                        self.hit("twin_struct")
            if not s.twin_of and not s.derived_of:
                for _ in range(r.below(4)):
                    fname = self.name("f", (1, 6))
                    if r.chance(1, 8):
                        q = "q%d" % self.uid()
                        inner = self.any_type(allow_struct_value_below=si)
                        s.fields.append((fname, Ty("struct{ %s %s }" % (q, inner.expr), "struct{ %s %s }{}" % (q, inner.expr), "anon")))
                        self.hit("anon_struct_field")
                    else:
                        s.fields.append((fname, self.any_type(allow_struct_value_below=si)))
                        if r.chance(1, 6):
                            s.tags[fname] = '`json:"%s"`' % fname.lower()
                            self.hit("struct_tag")
                if r.chance(1, 3):
                    # two fields on one line: `a, b T`
                    t2 = self.any_type(allow_struct_value_below=si)
                    a, b = self.name("f", (1, 6)), self.name("f", (1, 8))
                    s.fields += [(a, t2), (b, t2)]
                    s.pair_lines.append((a, b, t2))
                    self.hit("fields_one_line")
                if si > 0 and r.chance(2, 5):
                    e = self.structs[r.below(si)]
                    if not e.derived_of:
                        s.emb_struct = (e, r.chance(1, 2))
                        self.hit("embedded_struct")
                if r.chance(1, 4):
                    e = r.choice(self.ifaces)
                    taken = s.emb_struct[0].mset(True) if s.emb_struct else set()
                    if not (e.all_methods() & taken):
                        s.emb_iface = e
                        self.hit("embedded_iface")
            base = s.derived_of
            if base is not None:
                # `type d t`: same underlying struct => same field objects, promoted methods of embedded fields
                s.fields, s.emb_struct, s.emb_iface = base.fields, base.emb_struct, base.emb_iface
            if s.twin_of is not None:
                s.pair_lines, s.tags = s.twin_of.pair_lines, {}
            for m in sorted(set(r.choice(POOL) for _ in range(r.below(4)))):
                s.methods.append((m, r.chance(1, 2)))
            self.structs.append(s)
        # aliases
        for _ in range(r.below(3)):
            s = r.choice(self.structs)
            self.aliases.append((self.name("a"), s))
            self.hit("alias")
        # emit type declarations
        for it in self.ifaces:
            body = ["\t%s()" % m for m in it.methods]
            if it.embeds:
                body.insert(0, "\t" + it.embeds.name)
            self.decls.append("type %s interface {\n%s\n}" % (it.name, "\n".join(body)))
        for ni in self.nints:
            self.decls.append("type %s int" % ni.name)
        for s in self.structs:
            if s.derived_of:
                self.decls.append("type %s %s" % (s.name, s.derived_of.name))
                continue
            body = []
            if s.emb_struct:
                body.append("\t%s%s" % ("*" if s.emb_struct[1] else "", s.emb_struct[0].name))
            if s.emb_iface:
                body.append("\t" + s.emb_iface.name)
            paired = {}
            for a, b, t2 in s.pair_lines:
                paired[a] = (a, b, t2)
                paired[b] = None
            for f, t in s.fields:
                if f in paired:
                    if paired[f] is not None:
                        body.append("\t%s, %s %s" % (paired[f][0], paired[f][1], paired[f][2].expr))
                    continue
                body.append("\t%s %s%s" % (f, t.expr, (" " + s.tags[f]) if f in s.tags else ""))
            self.decls.append("type %s struct {\n%s\n}" % (s.name, "\n".join(body)) if body else "type %s struct{}" % s.name)
        for a, s in self.aliases:
            self.decls.append("type %s = %s" % (a, s.name))
        # generics
        for _ in range(r.below(3)):
            g = self.name("g")
            gf = self.name("gf", (1, 6))
            gm = self.name("gm", (1, 3))
            self.generics.append((g, gf, gm))
            self.decls.append("type %s[T any] struct {\n\t%s T\n}" % (g, gf))
            self.decls.append("func (x %s[T]) %s() T { return x.%s }" % (g, gm, gf))
            self.hit("generic_type")
        for _ in range(r.below(3)):
            f = self.name("gfn")
            self.gfuncs.append(f)
            self.decls.append("func %s[T any](x T) T { return x }" % f)
            self.hit("generic_func")
        for _ in range(r.below(2)):
            it = r.choice(self.ifaces)
            f = self.name("gcn")
            m = sorted(it.all_methods())[0]
            self.cfuncs.append((f, it))
            self.decls.append("func %s[T %s](x T) { x.%s() }" % (f, it.name, m))
            self.hit("generic_constraint_func")
        # consts
        for _ in range(r.below(3 + size // 4)):
            c = r.below(5)
            if c == 4:
                a, b = self.name("cp"), self.name("cp", (1, 8))
                self.consts.append((a, self.T_INT, False))
                if r.chance(1, 2):
                    self.consts.append((b, self.T_INT, False))
                self.decls.append("const %s, %s = %d, %d" % (a, b, 1 + r.below(5), 1 + r.below(5)))
                self.hit("const_two_names_one_line")
                continue
            if c == 0:
                n = self.name("cs")
                self.consts.append((n, self.T_INT, True))
                self.decls.append("const %s = %d" % (n, 1 + r.below(5)))
                self.hit("const_standalone")
            elif c == 1:
                n = self.name("cs")
                self.consts.append((n, self.T_STR, True))
                self.decls.append('const %s = "s"' % n)
                self.hit("const_standalone")
            elif c == 2 or not self.nints:
                names = [self.name("ci", (1, 8)) for _ in range(2 + r.below(3))]
                lines = ["\t%s = iota" % names[0]] + ["\t" + x for x in names[1:]]
                if r.chance(1, 3):
                    # second group (separated by a blank line) that repeats the first group's expression
                    more = [self.name("ci", (1, 8)) for _ in range(1 + r.below(2))]
                    lines += [""] + ["\t" + x for x in more]
                    names += more
                    self.hit("const_two_groups")
                for x in names:
                    self.consts.append((x, self.T_INT, False))
                self.decls.append("const (\n%s\n)" % "\n".join(lines))
                self.hit("const_iota_group")
            else:
                ni = r.choice(self.nints)
                names = [self.name("ct", (1, 8)) for _ in range(2 + r.below(2))]
                lines = ["\t%s %s = iota" % (names[0], ni.name)] + ["\t" + x for x in names[1:]]
                for x in names:
                    self.consts.append((x, self.nint_ty(ni), False))
                self.decls.append("const (\n%s\n)" % "\n".join(lines))
                self.hit("const_typed_group")
        # function signatures first (bodies may call any function)
        n_fn = 3 + r.below(3 + size)
        for k in range(n_fn):
            nm = self.name("fn", (1, 3) if k else (1, 1))
            params = [("p%d" % self.uid(), self.any_type()) for _ in range(r.below(3))]
            res = self.any_type() if r.chance(1, 3) else None
            self.funcs.append(Func(nm, params, res))
        # functions with two results (only ever called by initialisers: no initialisation cycle), variadics
        for _ in range(r.below(3)):
            nm = "pr%d" % self.uid()
            ta, tb = self.any_type(), self.any_type()
            self.pairs.append((nm, ta, tb))
            self.decls.append("func %s() (%s, %s) { return %s, %s }" % (nm, ta.expr, tb.expr, ta.zero, tb.zero))
            self.hit("func_two_results")
        for _ in range(r.below(2)):
            nm = self.name("vf", (1, 4))
            self.variadics.append(nm)
            self.decls.append("func %s(xs ...int) int { return len(xs) }" % nm)
            self.hit("func_variadic")
        # several variables in one spec
        for _ in range(r.below(2 + size // 4)):
            c = r.below(3)
            a, b = self.name("v", (1, 6)), self.name("v", (1, 6))
            if c == 0 and self.pairs:
                # `var a, b = f()`: one multi-value initialiser; often only the second name is readable later
                nm, ta, tb = r.choice(self.pairs)
                self.decls.append("var %s, %s = %s()" % (a, b, nm))
                if r.chance(1, 2):
                    self.vars.append((a, ta))
                self.vars.append((b, tb))
                if r.chance(1, 2):
                    self.decls.append("func %s() { _ = %s }" % (self.name("rd", (1, 2)), b))
                self.hit("var_multi_value_init")
            elif c == 1:
                # `var a, b = x, y`: two objects on one line, often one of them dead
                ta, tb = self.any_type(), self.any_type()
                self.decls.append("var %s, %s %s = %s, %s" % (a, b, ta.expr, ta.zero, ta.zero) if r.chance(1, 3)
                                  else "var %s, %s = %s, %s" % (a, b, self.typed(ta), self.typed(tb)))
                ta2 = ta
                self.vars.append((a, ta2))
                if r.chance(1, 2):
                    self.decls.append("func %s() { _ = %s }" % (self.name("rd", (1, 2)), a))
                self.hit("var_two_names_one_line")
            else:
                t = self.any_type()
                self.decls.append("var %s, %s %s" % (a, b, t.expr))
                self.vars.append((b, t))
                self.hit("var_two_names_typed")
        # vars
        for _ in range(r.below(3 + size // 3)):
            n = self.name("v", (1, 5))
            t = self.any_type()
            if r.chance(1, 3):
                # initialiser function of its own (never refers to variables: no initialisation cycle)
                mk = "mk%d" % self.uid()
                inner = []
                for _ in range(r.below(3)):
                    st = self.stmt_kind(r.choice([5, 6, 7, 20]), (), None, 2)
                    inner += st or []
                self.decls.append("func %s() %s {\n%s\treturn %s\n}" % (mk, t.expr, "".join("\t" + x + "\n" for x in inner), t.zero))
                self.decls.append("var %s = %s()" % (n, mk))
                self.vars.append((n, t))
                self.hit("var_init_call")
            else:
                self.decls.append("var %s %s" % (n, t.expr) if r.chance(1, 2) else "var %s %s = %s" % (n, t.expr, t.zero))
                self.vars.append((n, t))
        # methods
        for s in self.structs:
            for m, p in s.methods:
                recv = "r%d" % self.uid()
                self.decls.append("func (%s %s%s) %s() {\n%s}" % (recv, "*" if p else "", s.name, m, self.body(2, recv_of=(recv, s))))
        for ni in self.nints:
            for m, p in ni.methods:
                recv = "r%d" % self.uid()
                self.decls.append("func (%s %s%s) %s() {\n%s}" % (recv, "*" if p else "", ni.name, m, self.body(1)))
        # functions
        for f in self.funcs:
            ps = ", ".join("%s %s" % (p, t.expr) for p, t in f.params)
            res = " " + f.result.expr if f.result else ""
            body = self.body(1 + self.r.below(4), params=f.params)
            if f.result:
                same = [g for g in self.funcs if g.result is not None and g.result.expr == f.result.expr and g is not f]
                if same and self.r.chance(1, 3):
                    body += "\treturn %s\n" % self.call(self.r.choice(same))
                    self.hit("return_call")
                else:
                    body += "\treturn %s\n" % f.result.zero
            self.decls.append("func %s(%s)%s {\n%s}" % (f.name, ps, res, body))
        if self.r.chance(1, 3):
            self.decls.append("func init() {\n%s}" % self.body(2))
            self.hit("init_func")

    def call(self, f):
        return "%s(%s)" % (f.name, ", ".join(t.zero for _, t in f.params))

    def typed(self, t):
        """an expression of type t that has that type without a declared type"""
        if t.zero != "nil":
            return t.zero
        return "(%s)(nil)" % t.expr

    def local(self):
        return "l%d" % self.uid()

    def implementers(self, it):
        """(zero expression, description) of concrete values assignable to interface it"""
        need = it.all_methods()
        out = []
        for s in self.structs:
            if s.tparams:
                continue
            if need <= s.mset(False):
                out.append(s.name + "{}")
            if need <= s.mset(True):
                out.append("&" + s.name + "{}")
        for ni in self.nints:
            if need <= ni.mset(False):
                out.append(ni.name + "(0)")
            if need <= ni.mset(True):
                out.append("new(%s)" % ni.name)
        return out

    def body(self, k, params=(), recv_of=None, depth=0):
        out = []
        for _ in range(k):
            out += self.stmt(params, recv_of, depth)
        return "".join("\t" + s + "\n" for s in out)

    def stmt(self, params, recv_of, depth):
        r = self.r
        for _ in range(8):
            c = r.below(34)
            s = self.stmt_kind(c, params, recv_of, depth)
            if s is not None:
                return s
        return ["_ = 0"]

    def stmt_kind(self, c, params, recv_of, depth):
        r = self.r
        if c <= 3 and self.funcs:   # call / function value
            f = r.choice(self.funcs)
            call = self.call(f)
            k = r.below(5)
            self.hit("stmt_call_%d" % k)
            if k == 0:
                return ["%s%s" % ("_ = " if f.result else "", call)]
            if k == 1:
                return ["defer " + call]
            if k == 2:
                return ["go " + call]
            if k == 3:
                return ["_ = " + f.name]
            l = self.local()
            return ["%s := %s" % (l, f.name), "_ = %s" % l]
        if c == 4 and self.vars:
            n, t = r.choice(self.vars)
            k = r.below(4)
            self.hit("stmt_var_%d" % k)
            if k <= 1:
                return ["_ = " + n]
            if k == 2:
                return ["%s = %s" % (n, t.zero)]   # pure store
            if t.kind == "int":
                return [n + "++"]
            return ["%s = %s" % (n, t.zero)]
        if c == 5 and self.consts:
            n, t, _ = r.choice(self.consts)
            self.hit("stmt_const")
            if t.kind == "int" and r.chance(1, 2):
                l = self.local()
                return ["var %s [%s + 1]int" % (l, n), "_ = " + l]
            return ["_ = " + n]
        if c in (6, 7) and self.structs:   # type use
            t = self.any_type()
            k = r.below(8)
            self.hit("stmt_type_%d" % k)
            l = self.local()
            if k == 0:
                return ["var %s %s" % (l, t.expr), "_ = " + l]
            if k == 1:
                return ["_ = new(%s)" % t.expr]
            if k == 2:
                return ["_ = []%s{}" % t.expr]
            if k == 3:
                return ["_ = map[string]%s{}" % t.expr]
            if k == 4:
                return ["_ = (*%s)(nil)" % t.expr]
            if k == 5:
                return ["_ = func(%s) {}" % t.expr]
            if k == 6:
                lt = "lt%d" % self.uid()
                lf = "lf%d" % self.uid()
                use = ["_ = %s{}" % lt] if r.chance(1, 2) else []
                return ["type %s struct{ %s %s }" % (lt, lf, t.expr)] + use
            return ["var %s %s = %s" % (l, t.expr, t.zero), "_ = " + l]
        if c in (8, 9) and self.structs:   # fields
            s = r.choice(self.structs)
            fs = s.all_fields()
            if not fs:
                return None
            own = dict(s.fields)
            f = r.choice(fs)
            l = self.local()
            k = r.below(5)
            self.hit("stmt_field_%d" % k)
            if k == 0:
                return ["var %s %s" % (l, s.name), "_ = %s.%s" % (l, f)]
            if k == 1 and f in own:
                return ["var %s %s" % (l, s.name), "%s.%s = %s" % (l, f, own[f].zero)]
            if k == 2 and f in own:
                return ["_ = %s{%s: %s}" % (s.name, f, own[f].zero)]
            if k == 3 and not s.derived_of or k == 3:
                vals = []
                if s.emb_struct:
                    vals.append("nil" if s.emb_struct[1] else s.emb_struct[0].name + "{}")
                if s.emb_iface:
                    vals.append("nil")
                vals += [t.zero for _, t in s.fields]
                if not vals:
                    return None
                return ["_ = %s{%s}" % (s.name, ", ".join(vals))]
            return ["var %s %s" % (l, s.name), "_ = &%s.%s" % (l, f)]
        if c in (10, 11, 12) and self.structs:   # methods
            s = r.choice(self.structs)
            ms = sorted(s.callable())
            if not ms:
                return None
            m = r.choice(ms)
            l = self.local()
            k = r.below(5)
            self.hit("stmt_method_%d" % k)
            # a nil embedded pointer/interface is fine: nothing is executed
            if k == 0:
                return ["var %s %s" % (l, s.name), "%s.%s()" % (l, m)]
            if k == 1:
                return ["var %s %s" % (l, s.name), "_ = %s.%s" % (l, m)]   # method value
            if k == 2:
                if m in s.mset(False):
                    return ["_ = %s.%s" % (s.name, m)]   # method expression
                return ["_ = (*%s).%s" % (s.name, m)]
            if k == 3:
                return ["var %s %s" % (l, s.name), "defer %s.%s()" % (l, m)]
            return ["%s := &%s{}" % (l, s.name), "%s.%s()" % (l, m)]
        if c in (13, 14) and self.ifaces:   # interface satisfaction
            it = r.choice(self.ifaces)
            impl = self.implementers(it)
            l = self.local()
            m = r.choice(sorted(it.all_methods()))
            k = r.below(5)
            self.hit("stmt_iface_%d" % k)
            if k == 0 and impl:
                return ["var %s %s = %s" % (l, it.name, r.choice(impl)), "%s.%s()" % (l, m)]
            if k == 1 and impl:
                return ["var %s %s = %s" % (l, it.name, r.choice(impl)), "_ = " + l]
            if k == 2:
                return ["var %s any" % l, "_, _ = %s.(%s)" % (l, it.name)]
            if k == 3:
                return ["var %s any" % l, "switch %s.(type) {" % l, "case %s:" % it.name, "}"]
            return ["var %s %s" % (l, it.name), "_ = %s.%s" % (l, m)]
        if c == 15:   # struct conversions
            cands = [s for s in self.structs if s.twin_of or s.derived_of]
            if not cands:
                return None
            s = r.choice(cands)
            o = s.twin_of or s.derived_of
            a, b = (s, o) if r.chance(1, 2) else (o, s)
            l = self.local()
            k = r.below(3)
            self.hit("stmt_conv_%d" % k)
            if k == 0:
                return ["_ = %s(%s{})" % (a.name, b.name)]
            if k == 1:
                return ["var %s %s" % (l, b.name), "_ = (*%s)(&%s)" % (a.name, l)]
            return ["var %s %s" % (l, b.name), "_ = %s(%s)" % (a.name, l)]
        if c == 16 and (self.generics or self.gfuncs or self.cfuncs):
            k = r.below(4)
            l = self.local()
            t = self.any_type()
            self.hit("stmt_generic_%d" % k)
            if k == 0 and self.gfuncs:
                f = r.choice(self.gfuncs)
                return ["_ = %s[%s](%s)" % (f, t.expr, t.zero)] if r.chance(1, 2) and t.zero != "nil" else ["_ = %s[%s](%s)" % (f, t.expr, t.zero)]
            if k == 1 and self.generics:
                g, gf, gm = r.choice(self.generics)
                return ["var %s %s[%s]" % (l, g, t.expr), "_ = %s.%s" % (l, gf)]
            if k == 2 and self.generics:
                g, gf, gm = r.choice(self.generics)
                return ["var %s %s[%s]" % (l, g, t.expr), "_ = %s.%s()" % (l, gm)]
            if k == 3 and self.cfuncs:
                f, it = r.choice(self.cfuncs)
                impl = [x for x in self.implementers(it)]
                if impl:
                    return ["%s(%s)" % (f, r.choice(impl))]
            return None
        if c in (17, 18) and depth < 2:   # closures
            inner = self.stmt(params, recv_of, depth + 1)
            k = r.below(4)
            self.hit("stmt_closure_%d" % k)
            body = "; ".join(x for x in inner)
            nl = any(x.startswith(("switch", "case", "}")) or x.endswith("{") for x in inner)
            if nl:
                body = "\n".join(inner) + "\n"
            if k == 0:
                return ["func() { %s }()" % body]
            if k == 1:
                return ["defer func() { %s }()" % body]
            if k == 2:
                l = self.local()
                return ["%s := func() { %s }" % (l, body), "%s()" % l]
            return ["_ = func() { %s }" % body]
        if c == 19 and depth < 2:   # control flow
            inner = self.stmt(params, recv_of, depth + 1)
            k = r.below(3)
            self.hit("stmt_ctrl_%d" % k)
            if k == 0:
                return ["if true {"] + inner + ["}"]
            if k == 1:
                i = self.local()
                return ["for %s := 0; %s < 1; %s++ {" % (i, i, i)] + inner + ["}"]
            t = self.any_type()
            e = self.local()
            return ["for _, %s := range []%s{} {" % (e, t.expr), "\t_ = %s" % e] + inner + ["}"]
        if c == 20:   # local const / type, possibly unused
            lc = "lc%d" % self.uid()
            self.hit("stmt_local_const")
            return ["const %s = 1" % lc] + (["_ = " + lc] if r.chance(1, 2) else [])
        if c == 21 and params:
            p, t = r.choice(list(params))
            self.hit("stmt_param")
            return ["_ = " + p]
        if c == 22 and recv_of:
            recv, s = recv_of
            fs = s.all_fields()
            self.hit("stmt_recv")
            if fs:
                return ["_ = %s.%s" % (recv, r.choice(fs))]
            return ["_ = " + recv]
        if c == 23 and self.aliases:
            a, s = r.choice(self.aliases)
            l = self.local()
            self.hit("stmt_alias")
            return ["var %s %s" % (l, a), "_ = " + l]
        if c == 24 and self.nints:
            ni = r.choice(self.nints)
            ms = sorted(ni.mset(True))
            l = self.local()
            self.hit("stmt_namedint")
            if ms:
                return ["var %s %s" % (l, ni.name), "%s.%s()" % (l, r.choice(ms))]
            return ["var %s %s" % (l, ni.name), "_ = " + l]
        if c == 25 and self.consts:
            cs = [x for x in self.consts if x[1].kind == "named"]
            if cs:
                n, t, _ = r.choice(cs)
                self.hit("stmt_typed_const")
                return ["_ = %s + %s" % (t.zero, n)]
        if c == 26 and self.pairs:   # two results: define / local var spec with one shared initialiser
            nm, ta, tb = r.choice(self.pairs)
            a, b = self.local(), self.local()
            k = r.below(3)
            self.hit("stmt_two_results_%d" % k)
            if k == 0:
                return ["%s, %s := %s()" % (a, b, nm), "_, _ = %s, %s" % (a, b)]
            if k == 1:
                return ["var %s, %s = %s()" % (a, b, nm), "_ = %s" % a, "_ = %s" % b]
            return ["_, %s := %s()" % (b, nm), "_ = %s" % b]
        if c == 27 and self.structs:   # channels, select
            t = self.any_type()
            ch = self.local()
            k = r.below(3)
            self.hit("stmt_chan_%d" % k)
            if k == 0:
                return ["%s := make(chan %s, 1)" % (ch, t.expr), "%s <- %s" % (ch, t.zero), "_ = <-%s" % ch]
            if k == 1:
                return ["var %s chan %s" % (ch, t.expr), "select {", "case %s <- %s:" % (ch, t.zero), "default:", "}"]
            e = self.local()
            ints = [x for x in self.consts if x[1].kind == "int"]
            if ints and r.chance(1, 2):
                # the value sent / the deferred argument is the only place that mentions the constant
                n, _, _ = r.choice(ints)
                self.hit("stmt_chan_send_const")
                out = ["var %s chan int" % ch, "select {", "case %s <- %s:" % (ch, n), "default:", "}"]
                if self.variadics:
                    n2, _, _ = r.choice(ints)
                    out.append("defer %s(%s)" % (r.choice(self.variadics), n2))
                return out
            return ["var %s chan %s" % (ch, t.expr), "select {", "case %s := <-%s:" % (e, ch), "\t_ = %s" % e, "default:", "}"]
        if c == 28:   # switch on a value, labels
            k = r.below(3)
            self.hit("stmt_switch_%d" % k)
            ints = [x for x in self.consts if x[1].kind == "int"]
            if k == 0 and ints:
                n, _, _ = r.choice(ints)
                return ["switch 0 {", "case %s:" % n, "}"]
            if k == 1 and self.vars:
                n, t = r.choice(self.vars)
                if t.kind == "int":
                    return ["switch %s {" % n, "case 0:", "default:", "}"]
                return ["switch {", "case true:", "\t_ = %s" % n, "}"]
            lb = "L%d" % self.uid()
            return ["%s:" % lb, "for {", "\tbreak %s" % lb, "}"]
        if c == 29 and self.structs:   # index, slice, variadic call
            t = self.any_type()
            l = self.local()
            k = r.below(3)
            self.hit("stmt_index_%d" % k)
            if k == 0:
                return ["%s := []%s{%s}" % (l, t.expr, t.zero), "_ = %s[0]" % l]
            if k == 1:
                return ["%s := map[int]%s{}" % (l, t.expr), "_ = %s[0]" % l, "_ = %s[:0:0]" % ("[]int{}")]
            if self.variadics:
                return ["_ = %s(1, 2)" % r.choice(self.variadics)]
            return ["%s := [2]%s{}" % (l, t.expr), "_ = %s[1:]" % l]
        if c == 30:   # imported packages (the import may become unused after the deletion)
            k = r.below(3)
            self.hit("stmt_import_%d" % k)
            if k == 0:
                return ["_ = utf8.RuneLen('a')"]
            if k == 1:
                return ["_ = bits.Len(1)"]
            return ["_ = utf8.UTFMax + bits.UintSize"]
        if c in (31, 32) and depth == 0 and self.ifaces and self.structs:
            # function-local struct whose only way to satisfy an interface is the embedded field
            it = r.choice(self.ifaces)
            need = it.all_methods()
            cands = [s for s in self.structs if not s.tparams and need <= s.mset(False)]
            if not cands:
                return None
            es = r.choice(cands)
            lt = "lt%d" % self.uid()
            lf = "lf%d" % self.uid()
            l = self.local()
            k = r.below(3)
            self.hit("stmt_local_embed_%d" % k)
            decl = ["type %s struct {" % lt, "\t%s" % es.name, "\t%s int" % lf, "}"]
            if k == 0:
                return decl + ["var %s %s = %s{}" % (l, it.name, lt), "_ = %s" % l]
            if k == 1:
                return decl + ["%s := %s{%s: 1}" % (l, lt, lf), "_ = %s(%s)" % (it.name, l)]
            return decl + ["_ = %s{}" % lt]
        if c == 33 and depth == 0:   # other function-local declarations
            k = r.below(3)
            self.hit("stmt_local_decl_%d" % k)
            a, b = "lc%d" % self.uid(), "lc%d" % self.uid()
            if k == 0:
                return ["const (", "\t%s = iota" % a, "\t%s" % b, ")", "_ = %s" % b]
            if k == 1 and self.ifaces:
                li = "li%d" % self.uid()
                it = r.choice(self.ifaces)
                l = self.local()
                return ["type %s interface {" % li, "\t%s" % it.name, "}", "var %s %s" % (l, li), "_ = %s" % l]
            t = self.any_type()
            x, y = self.local(), self.local()
            return ["var %s, %s %s" % (x, y, t.expr), "_, _ = %s, %s" % (x, y)]
        return None

    # ---- output
    def files(self, nfiles=1, order=None, names=None):
        """{filename: text}; `order` permutes the declarations, which are dealt round-robin
        into nfiles files"""
        decls = list(self.decls) if order is None else [self.decls[i] for i in order]
        names = names or ["f%d.go" % i for i in range(nfiles)]
        out = {}
        rj = self.r.fork("join")
        for i, n in enumerate(names):
            part = decls[i::nfiles]
            # several declarations on one line, separated by `;`
            joined = []
            for d in part:
                single = "\n" not in d and d.startswith(("var ", "const ", "type ")) and "(" not in d.split("=")[0]
                if joined and single and joined[-1][1] and rj.chance(1, 5):
                    joined[-1] = (joined[-1][0] + "; " + d, True)
                    self.hit("decls_joined_on_one_line")
                else:
                    joined.append((d, single))
            out[n] = file_text(self.pkg, [d for d, _ in joined])
        return out

    def test_file(self):
        """an in-package test file whose helper refers to unexported objects (some of them used
        by nothing else), or None"""
        r = self.r.fork("testfile")
        lines = []
        for f in self.funcs:
            if f.name[0].islower() and r.chance(1, 3):
                lines.append("\t_ = %s" % f.name)
        for n, t in self.vars:
            if n[0].islower() and r.chance(1, 4):
                lines.append("\t_ = %s" % n)
        for n, t, _ in self.consts:
            if n[0].islower() and r.chance(1, 5):
                lines.append("\t_ = %s" % n)
        only = "to%d" % self.uid()
        only2 = "to%d" % self.uid()
        th = "Th%d" % self.uid()     # exported: used (1.2), so what it mentions is used by the test variant only
        extra = "func %s() int { return 1 }\n\nfunc %s() int { return 2 }" % (only, only2)
        lines.append("\t_ = %s" % only)
        self.hit("test_file")
        return extra, "package %s\n\nfunc %s() {\n%s\n}\n\nvar Tv%d = %s()\n\nfunc th%d() {}\n" % (
            self.pkg, th, "\n".join(lines), self.uid(), only2, self.uid())


IMPORTS = {"utf8.": "unicode/utf8", "bits.": "math/bits"}


def file_text(pkg, decls):
    body = "\n\n".join(decls)
    imps = sorted(set(p for k, p in IMPORTS.items() if k in body))
    head = "package %s\n\n" % pkg
    if imps:
        head += "import (\n%s\n)\n\n" % "\n".join('\t"%s"' % p for p in imps)
    return head + body + "\n"



# ============================================================================ fragment generator
M1, M2 = "\x01", "\x02"
FPOOL = ["m0", "m1", "m2", "M3"]


class FObj:
    """one declared object of a fragment package"""

    def __init__(self, oid, kind, ident, display=None):
        self.id = oid
        self.kind = kind            # func type var field const
        self.ident = ident          # the identifier as written
        self.display = display or ident   # unused.Object.Name
        self.label = None           # "<kind> <display> @<base>:<line>:<col>" after rendering

    def d(self):
        """the declaring occurrence, with a position marker"""
        return "%s%d%s%s" % (M1, self.id, M2, self.ident)


def cls_of(ident):
    if ident == "_":
        return 2
    return 1 if ident[0].isupper() else 0


class TInfo:
    """type of a variable / field / parameter"""

    def __init__(self, kind, ent=None):
        self.kind, self.ent = kind, ent   # int | struct | ptr | iface | func | named

    def expr(self):
        return {"int": "int", "func": "func()"}.get(self.kind) or (("*" if self.kind == "ptr" else "") + self.ent.name)

    def reads(self):
        return [] if self.kind in ("int", "func") else [self.ent.obj]

    def zero(self):
        """(expression, reads)"""
        if self.kind == "int":
            return "0", []
        if self.kind == "struct":
            return self.ent.name + "{}", [self.ent.obj]
        if self.kind == "named":
            return self.ent.name + "(0)", [self.ent.obj]
        return "nil", []


class FStruct:
    def __init__(self, obj, name, local=False):
        self.obj, self.name, self.local = obj, name, local
        self.fields = []     # (FObj, TInfo)   one entry per name
        self.lines = []      # rendering: list of lists of field indexes sharing one line (`a, b T`)
        self.emb_struct = None   # (FObj field, FStruct, byptr)
        self.emb_iface = None    # (FObj field, FIface)
        self.methods = []    # (FObj, mname, ptr_recv, sig)

    def own_method_names(self):
        return set(m for _, m, _, _ in self.methods)

    def msig(self, ptr):
        """{method name: result signature} of the method set of T / *T"""
        own = self.own_method_names()
        d = {}
        if self.emb_iface:
            for m in self.emb_iface[1].all_methods() - own:
                d[m] = ""
        if self.emb_struct:
            _, es, byptr = self.emb_struct
            for m, sig in es.msig(ptr or byptr).items():
                if m not in own:
                    d[m] = sig
        for _, m, p, sig in self.methods:
            if ptr or not p:
                d[m] = sig
        return d

    def mset(self, ptr):
        return set(self.msig(ptr))

    def implements(self, it, ptr):
        d = self.msig(ptr)
        return all(d.get(m) == "" for m in it.all_methods())

    def has_exported_field(self, seen=None):
        seen = seen or set()
        if id(self) in seen:
            return False
        seen.add(id(self))
        for f, _ in self.fields:
            if cls_of(f.ident) == 1:
                return True
        if self.emb_struct:
            f, es, _ = self.emb_struct
            if cls_of(f.ident) == 1 or es.has_exported_field(seen):
                return True
        if self.emb_iface:
            f, _ = self.emb_iface
            if cls_of(f.ident) == 1:
                return True
        return False


class FIface:
    def __init__(self, obj, name, local=False):
        self.obj, self.name, self.local = obj, name, local
        self.methods = []   # (FObj, mname, sig)
        self.embeds = []    # FIface

    def all_methods(self):
        s = set(m for _, m, _ in self.methods)
        for e in self.embeds:
            s |= e.all_methods()
        return s


class FOther:
    """`type n int` or `type d S` (derived struct)"""

    def __init__(self, obj, name, base=None):
        self.obj, self.name, self.base = obj, name, base   # base: FStruct or None (int)


class FFunc:
    def __init__(self, obj, ident):
        self.obj, self.ident = obj, ident
        self.params = []     # (FObj, TInfo)
        self.results = []    # TInfo
        self.recv = None     # (FObj, entity, ptr)
        self.items = []      # AP items (python form, reads may hold deferred selections)
        self.lines = []      # body text lines


class Deferred:
    """a method selection whose path comes from the go/types facts: (type entity, pointer method set?, method name)"""

    def __init__(self, ent, ptr, mname):
        self.ent, self.ptr, self.mname = ent, ptr, mname


class FragGen:
    """Generator of packages INSIDE the fragment modelled by lean/Verif/C07/Walk.lean.  It
    produces the Go text and, independently of /repo, the abstract package (the reads of
    every expression are known by construction; method sets come from go/types through the
    harness)."""

    def __init__(self, rng, size, pkg="q"):
        self.r = rng
        self.size = size
        self.pkg = pkg
        self.objs = []
        self.n = 0
        self.ifaces, self.structs, self.others, self.aliases = [], [], [], []
        self.funcs, self.vars, self.consts = [], [], []   # vars: (FObj, TInfo) readable package-level vars
        self.tops = []     # (text lines, ap top)   in declaration order
        self.hist = {}
        self.type_ents = {}   # FObj.id of a type -> entity
        self.build()

    # ---------------------------------------------------------------- helpers
    def hit(self, k):
        self.hist[k] = self.hist.get(k, 0) + 1

    def uid(self):
        self.n += 1
        return self.n

    def new(self, kind, prefix, exported=False, display=None, ident=None):
        if ident is None:
            ident = "%s%d" % (prefix, self.uid())
            if exported:
                ident = ident[0].upper() + ident[1:]
        o = FObj(len(self.objs) + 1, kind, ident, display)
        self.objs.append(o)
        return o

    def any_tinfo(self, structs=None, allow_value=True):
        r = self.r
        structs = self.structs if structs is None else structs
        c = r.below(8)
        if c <= 1 or not structs:
            return TInfo("int")
        if c == 2 and allow_value:
            return TInfo("struct", r.choice(structs))
        if c <= 4:
            return TInfo("ptr", r.choice(structs))
        if c == 5 and self.ifaces:
            return TInfo("iface", r.choice(self.ifaces))
        if c == 6:
            return TInfo("func")
        if c == 7 and self.others:
            o = r.choice(self.others)
            if o.base is None:
                return TInfo("named", o)
        return TInfo("int")

    # ---------------------------------------------------------------- declarations
    def mk_struct(self, prefix, earlier, local=False, force_embed=None):
        """a struct type that may embed one earlier struct and one interface"""
        r = self.r
        name_obj = self.new("type", prefix, exported=(not local and r.chance(1, 5)))
        s = FStruct(name_obj, name_obj.ident, local)
        taken = set()
        emb = force_embed
        if emb is None and earlier and r.chance(2, 5):
            emb = r.choice(earlier)
        if emb is not None:
            byptr = r.chance(1, 3)
            f = self.new("field", "", ident=emb.name)
            s.emb_struct = (f, emb, byptr)
            taken |= emb.mset(True)
            self.hit("frag_embedded_struct" + ("_local" if local else ""))
        if self.ifaces and r.chance(1, 5):
            it = r.choice(self.ifaces)
            if not (it.all_methods() & taken):
                f = self.new("field", "", ident=it.name)
                s.emb_iface = (f, it)
                taken |= it.all_methods()
                self.hit("frag_embedded_iface")
        k = r.below(4)
        i = 0
        while i < k:
            t = self.any_tinfo(structs=earlier, allow_value=True)
            group = 2 if (r.chance(1, 3) and i + 1 < k) else 1
            line = []
            for _ in range(group):
                f = self.new("field", "f", exported=r.chance(1, 6))
                s.fields.append((f, t))
                line.append(len(s.fields) - 1)
                i += 1
            if group == 2:
                self.hit("frag_fields_one_line")
            s.lines.append(line)
        if r.chance(1, 12) and not local:
            f = self.new("field", "", ident="_")
            s.fields.append((f, TInfo("int")))
            s.lines.append([len(s.fields) - 1])
            self.hit("frag_blank_field")
        if not local:
            for m in sorted(set(r.choice(FPOOL) for _ in range(r.below(3)))):
                ptr = r.chance(1, 2)
                sig = "int" if (m == "m2" and r.chance(1, 4)) else ""   # a signature that does not match the interfaces' m2()
                disp = ("(*%s).%s" if ptr else "%s.%s") % (s.name, m)
                mo = self.new("func", "", ident=m, display=disp)
                s.methods.append((mo, m, ptr, sig))
                if sig:
                    self.hit("frag_method_other_signature")
                if m in taken:
                    self.hit("frag_method_shadows_promoted")
        return s

    def struct_text_and_ap(self, s):
        lines = []
        if s.emb_struct:
            f, es, byptr = s.emb_struct
            lines.append("\t%s%s" % ("*" if byptr else "", f.d()))
        if s.emb_iface:
            f, it = s.emb_iface
            lines.append("\t" + f.d())
        for line in s.lines:
            t = s.fields[line[0]][1]
            lines.append("\t%s %s" % (", ".join(s.fields[i][0].d() for i in line), t.expr()))
        if lines:
            text = ["type %s struct {" % s.obj.d()] + lines + ["}"]
        else:
            text = ["type %s struct{}" % s.obj.d()]
        fields = [(f, cls_of(f.ident), t.reads()) for f, t in s.fields]
        embs = []
        if s.emb_struct:
            f, es, _ = s.emb_struct
            embs.append((f, cls_of(f.ident) == 1, es.obj, es.has_exported_field()))
        if s.emb_iface:
            f, it = s.emb_iface
            embs.append((f, cls_of(f.ident) == 1, it.obj, False))
        ap = {"obj": s.obj, "cls": cls_of(s.obj.ident), "alias": False, "body": ("S", fields, embs)}
        return text, ap

    def iface_text_and_ap(self, it):
        lines = ["\t" + e.name for e in it.embeds] + ["\t%s()%s" % (m.d(), (" " + sig) if sig else "") for m, _, sig in it.methods]
        text = ["type %s interface {" % it.obj.d()] + lines + ["}"]
        meths = [(m, (mn, sig), []) for m, mn, sig in it.methods]
        ap = {"obj": it.obj, "cls": cls_of(it.obj.ident), "alias": False, "body": ("I", meths, [e.obj for e in it.embeds])}
        return text, ap

    def build(self):
        r, size = self.r, self.size
        # ---- interfaces
        for _ in range(1 + r.below(2 + size // 4)):
            o = self.new("type", "i", exported=r.chance(1, 6))
            it = FIface(o, o.ident)
            if self.ifaces and r.chance(1, 3):
                e = r.choice(self.ifaces)
                it.embeds.append(e)
                self.hit("frag_iface_embeds_iface")
            have = it.all_methods()
            for m in sorted(set(r.choice(FPOOL) for _ in range(1 + r.below(2)))):
                if m in have:
                    continue
                mo = self.new("func", "", ident=m, display="%s.%s" % (it.name, m))
                it.methods.append((mo, m, ""))
            if not it.methods and not it.embeds:
                mo = self.new("func", "", ident="m0", display="%s.m0" % it.name)
                it.methods.append((mo, "m0", ""))
            self.ifaces.append(it)
            self.type_ents[o.id] = it
        # ---- structs
        for _ in range(2 + r.below(2 + size // 3)):
            s = self.mk_struct("t", [x for x in self.structs])
            self.structs.append(s)
            self.type_ents[s.obj.id] = s
        # ---- other named types, aliases
        for _ in range(r.below(3)):
            o = self.new("type", "n")
            base = r.choice(self.structs) if r.chance(1, 2) else None
            ot = FOther(o, o.ident, base)
            self.others.append(ot)
            self.type_ents[o.id] = ot
            self.hit("frag_derived_struct" if base else "frag_named_int")
        for _ in range(r.below(2)):
            o = self.new("type", "a")
            s = r.choice(self.structs)
            self.aliases.append((o, s))
            self.hit("frag_alias")
        # ---- methods of the other named types
        for ot in self.others:
            if ot.base is None and r.chance(1, 2):
                m = r.choice(FPOOL)
                mo = self.new("func", "", ident=m, display="%s.%s" % (ot.name, m))
                ot.methods = [(mo, m, False, "")]
            else:
                ot.methods = []
        # ---- constants
        self.const_tops = []
        for _ in range(r.below(2 + size // 4)):
            c = r.below(4)
            if c == 0:
                o = self.new("const", "c", exported=r.chance(1, 6))
                self.consts.append(o)
                self.const_tops.append((["const %s = %d" % (o.d(), 1 + r.below(7))],
                                        ("G", ("C", [{"names": [(o, cls_of(o.ident))], "typeReads": [], "values": [[]]}], [[o]]))))
                self.hit("frag_const_standalone")
            elif c == 1:
                a, b = self.new("const", "c"), self.new("const", "c", exported=r.chance(1, 6))
                self.consts += [a, b]
                self.const_tops.append((["const %s, %s = 1, 2" % (a.d(), b.d())],
                                        ("G", ("C", [{"names": [(a, 0), (b, cls_of(b.ident))], "typeReads": [], "values": [[], []]}], [[a, b]]))))
                self.hit("frag_const_two_names_one_line")
            else:
                names = [self.new("const", "c", exported=r.chance(1, 8)) for _ in range(2 + r.below(3))]
                self.consts += names
                typed = self.others and r.chance(1, 3) and [x for x in self.others if x.base is None]
                tn = r.choice(typed) if typed else None
                lines = ["const ("] + ["\t%s%s = iota" % (names[0].d(), (" " + tn.name) if tn else "")] + ["\t" + x.d() for x in names[1:]]
                groups = [names]
                specs = [{"names": [(names[0], cls_of(names[0].ident))], "typeReads": [tn.obj] if tn else [], "values": [[]]}] + \
                        [{"names": [(x, cls_of(x.ident))], "typeReads": [], "values": []} for x in names[1:]]
                if r.chance(1, 3):
                    more = [self.new("const", "c") for _ in range(1 + r.below(2))]
                    self.consts += more
                    lines += [""] + ["\t" + x.d() for x in more]
                    groups.append(more)
                    specs += [{"names": [(x, 0)], "typeReads": [], "values": []} for x in more]
                    self.hit("frag_const_two_groups")
                lines.append(")")
                self.const_tops.append((lines, ("G", ("C", specs, groups))))
                self.hit("frag_const_iota_group")
        # ---- function signatures
        n_fn = 3 + r.below(2 + size)
        for k in range(n_fn):
            o = self.new("func", "fn", exported=(k == 0 or r.chance(1, 4)))
            f = FFunc(o, o.ident)
            for _ in range(r.below(3)):
                f.params.append((self.new("var", "p"), self.any_tinfo()))
            nres = r.below(3) if r.chance(1, 3) else 0
            f.results = [self.any_tinfo() for _ in range(nres)]
            self.funcs.append(f)
        # ---- package-level variables
        self.var_tops = []
        for _ in range(r.below(3 + size // 3)):
            c = r.below(6)
            two = [g for g in self.funcs if len(g.results) == 2]
            if c == 0 and two:
                # var a, b = f()   one shared multi-value initialiser
                g = r.choice(two)
                a = self.new("var", "v", exported=r.chance(1, 8))
                b = self.new("var", "v", exported=r.chance(1, 8))
                self.vars += [(a, g.results[0]), (b, g.results[1])]
                call, reads = self.call(g)
                self.var_tops.append((["var %s, %s = %s" % (a.d(), b.d(), call)],
                                      ("G", ("V", [{"names": [(a, cls_of(a.ident)), (b, cls_of(b.ident))], "typeReads": [], "values": [reads]}]))))
                self.hit("frag_var_multi_value_init")
            elif c == 1:
                # var a, b = x, y   two names, two values, one line
                ta, tb = self.any_tinfo(), self.any_tinfo()
                a, b = self.new("var", "v", exported=r.chance(1, 8)), self.new("var", "v")
                self.vars += [(a, ta), (b, tb)]
                (za, ra), (zb, rb) = self.typed_zero(ta), self.typed_zero(tb)
                self.var_tops.append((["var %s, %s = %s, %s" % (a.d(), b.d(), za, zb)],
                                      ("G", ("V", [{"names": [(a, cls_of(a.ident)), (b, 0)], "typeReads": [], "values": [ra, rb]}]))))
                self.hit("frag_var_two_names_one_line")
            elif c == 2:
                t = self.any_tinfo()
                a, b = self.new("var", "v"), self.new("var", "v")
                self.vars += [(a, t), (b, t)]
                self.var_tops.append((["var %s, %s %s" % (a.d(), b.d(), t.expr())],
                                      ("G", ("V", [{"names": [(a, 0), (b, 0)], "typeReads": t.reads(), "values": []}]))))
                self.hit("frag_var_two_names_typed")
            elif c == 3:
                one = [g for g in self.funcs if len(g.results) == 1]
                if not one:
                    continue
                g = r.choice(one)
                a = self.new("var", "v", exported=r.chance(1, 8))
                self.vars.append((a, g.results[0]))
                call, reads = self.call(g)
                self.var_tops.append((["var %s = %s" % (a.d(), call)],
                                      ("G", ("V", [{"names": [(a, cls_of(a.ident))], "typeReads": [], "values": [reads]}]))))
                self.hit("frag_var_init_call")
            else:
                t = self.any_tinfo()
                a = self.new("var", "v", exported=r.chance(1, 8))
                self.vars.append((a, t))
                if r.chance(1, 2):
                    z, rz = t.zero()
                    self.var_tops.append((["var %s %s = %s" % (a.d(), t.expr(), z)],
                                          ("G", ("V", [{"names": [(a, cls_of(a.ident))], "typeReads": t.reads(), "values": [rz]}]))))
                else:
                    self.var_tops.append((["var %s %s" % (a.d(), t.expr())],
                                          ("G", ("V", [{"names": [(a, cls_of(a.ident))], "typeReads": t.reads(), "values": []}]))))
        # ---- bodies
        for s in self.structs:
            for mo, m, ptr, sig in s.methods:
                f = FFunc(mo, m)
                f.recv = (self.new("var", "r"), s, ptr)
                f.results = [TInfo("int")] if sig else []
                self.body(f, 1 + r.below(2))
                s_top = self.func_top(f)
                self.tops.append(s_top)
        for ot in self.others:
            for mo, m, ptr, sig in ot.methods:
                f = FFunc(mo, m)
                f.recv = (self.new("var", "r"), ot, False)
                self.body(f, 1)
                self.tops.append(self.func_top(f))
        for f in self.funcs:
            self.body(f, 1 + r.below(4))
            self.tops.append(self.func_top(f))
        # type declarations first in the AP order does not matter (set semantics); text order: types, consts, vars, funcs
        type_tops = []
        for it in self.ifaces:
            t, ap = self.iface_text_and_ap(it)
            type_tops.append((t, ("G", ("T", [ap]))))
        for s in self.structs:
            t, ap = self.struct_text_and_ap(s)
            type_tops.append((t, ("G", ("T", [ap]))))
        for ot in self.others:
            base = ot.base.name if ot.base else "int"
            type_tops.append((["type %s %s" % (ot.obj.d(), base)],
                              ("G", ("T", [{"obj": ot.obj, "cls": 0, "alias": False, "body": ("O", [ot.base.obj] if ot.base else [])}]))))
        for o, s in self.aliases:
            type_tops.append((["type %s = %s" % (o.d(), s.name)],
                              ("G", ("T", [{"obj": o, "cls": 0, "alias": True, "body": ("O", [s.obj])}]))))
        self.tops = type_tops + self.const_tops + self.var_tops + self.tops

    # ---------------------------------------------------------------- expressions
    def typed_zero(self, t):
        """(expression, reads) of a value whose type is t even without a declared type"""
        if t.kind == "ptr":
            return "(*%s)(nil)" % t.ent.name, [t.ent.obj]
        if t.kind == "iface":
            return "%s(nil)" % t.ent.name, [t.ent.obj]
        if t.kind == "func":
            return "(func())(nil)", []
        return t.zero()

    def call(self, g, avoid=None):
        """(text, reads) of a call of function g with zero arguments"""
        args, reads = [], [g.obj]
        for _, t in g.params:
            z, rz = t.zero()
            args.append(z)
            reads += rz
        return "%s(%s)" % (g.ident, ", ".join(args)), reads

    def implementers(self, it):
        out = []
        for s in self.structs:
            if s.implements(it, False):
                out.append((s.name + "{}", [s.obj]))
            if s.implements(it, True):
                out.append(("&" + s.name + "{}", [s.obj]))
        return out

    # ---------------------------------------------------------------- bodies
    def body(self, f, k):
        """fills f.items and f.lines"""
        items, lines = [], []
        if f.recv:
            ro, ent, ptr = f.recv
            items.append(("s", ro, True))
            items.append(("p", ro, [ent.obj]))
        for p, t in f.params:
            items.append(("s", p, True))
            items.append(("p", p, t.reads()))
        for t in f.results:
            if t.reads():
                items.append(("r", t.reads()))
        # functions with results initialise package-level variables: their bodies stay clear of
        # variables, calls and methods (no initialisation cycle)
        env = {"f": f, "locals": [(p, t) for p, t in f.params], "pure": bool(f.results) and f.recv is None}
        if f.recv:
            ro, ent, ptr = f.recv
            if isinstance(ent, FStruct):
                env["locals"].append((ro, TInfo("ptr" if ptr else "struct", ent)))
        for _ in range(k):
            it, ls = self.stmt(env, 0)
            items += it
            lines += ls
        if f.results:
            zs, reads = [], []
            for t in f.results:
                z, rz = t.zero()
                zs.append(z)
                reads += rz
            lines.append("return " + ", ".join(zs))
            if reads:
                items.append(("r", reads))
        f.items, f.lines = items, lines

    def local(self, prefix="l"):
        return self.new("var", prefix)

    def stmt(self, env, depth):
        r = self.r
        for _ in range(10):
            c = r.below(20)
            if env["pure"] and c in (0, 1, 2, 3, 9, 10, 11, 12, 15):
                continue
            out = self.stmt_kind(c, env, depth)
            if out is not None:
                return out
        return [], ["_ = 0"]

    def stmt_kind(self, c, env, depth):
        r = self.r
        if c <= 2 and self.funcs:     # calls
            g = r.choice(self.funcs)
            call, reads = self.call(g)
            k = r.below(5)
            self.hit("frag_stmt_call_%d" % k)
            if k == 0:
                lhs = ", ".join("_" for _ in g.results)
                return [("r", reads)], [(lhs + " = " if g.results else "") + call]
            if k == 1:
                return [("r", reads)], ["defer " + call]
            if k == 2:
                return [("r", reads)], ["go " + call]
            if k == 3:
                return [("r", [g.obj])], ["_ = " + g.ident]
            if len(g.results) == 2:
                a, b = self.local(), self.local()
                self.hit("frag_define_two_from_call")
                return [("s", a, True), ("s", b, True), ("r", reads), ("r", [a]), ("r", [b])], \
                       ["%s, %s := %s" % (a.d(), b.d(), call), "_ = " + a.ident, "_ = " + b.ident]
            l = self.local()
            return [("s", l, True), ("r", [g.obj]), ("r", [l])], ["%s := %s" % (l.d(), g.ident), "_ = " + l.ident]
        if c == 3 and self.vars:      # package-level variable: read / store
            v, t = r.choice(self.vars)
            k = r.below(3)
            self.hit("frag_stmt_var_%d" % k)
            if k <= 1:
                return [("r", [v])], ["_ = " + v.ident]
            z, rz = t.zero()
            return ([("r", rz)] if rz else []), ["%s = %s" % (v.ident, z)]
        if c == 4 and self.consts:
            co = r.choice(self.consts)
            self.hit("frag_stmt_const")
            return [("r", [co])], ["_ = " + co.ident]
        if c in (5, 6) and self.structs:   # type uses
            s = r.choice(self.structs)
            k = r.below(6)
            self.hit("frag_stmt_type_%d" % k)
            if k == 0:
                l = self.local()
                return [("s", l, True), ("g", ("V", [{"names": [(l, 0)], "typeReads": [s.obj], "values": []}])), ("r", [l])], \
                       ["var %s %s" % (l.d(), s.name), "_ = " + l.ident]
            if k == 1:
                return [("r", [s.obj])], ["_ = new(%s)" % s.name]
            if k == 2:
                return [("r", [s.obj])], ["_ = &%s{}" % s.name]
            if k == 3:
                return [("r", [s.obj])], ["_ = []%s{}" % s.name]
            if k == 4 and self.aliases:
                ao, als = r.choice(self.aliases)
                l = self.local()
                return [("s", l, True), ("g", ("V", [{"names": [(l, 0)], "typeReads": [ao], "values": []}])), ("r", [l])], \
                       ["var %s %s" % (l.d(), ao.ident), "_ = " + l.ident]
            a, b = self.local(), self.local()
            self.hit("frag_local_var_two_names_typed")
            return [("s", a, True), ("s", b, True),
                    ("g", ("V", [{"names": [(a, 0), (b, 0)], "typeReads": [s.obj], "values": []}])), ("r", [a]), ("r", [b])], \
                   ["var %s, %s %s" % (a.d(), b.d(), s.name), "_, _ = %s, %s" % (a.ident, b.ident)]
        if c in (7, 8) and self.structs:   # fields: read, write, keyed literal, promoted
            s = r.choice(self.structs)
            own = [(f, t) for f, t in s.fields if f.ident != "_"]
            k = r.below(4)
            if k == 3 and s.emb_struct:
                ef, es, byptr = s.emb_struct
                cand = [(f, t) for f, t in es.fields if f.ident != "_"]
                if cand and not byptr:
                    f, t = r.choice(cand)
                    l = self.local()
                    self.hit("frag_stmt_promoted_field")
                    return [("s", l, True), ("g", ("V", [{"names": [(l, 0)], "typeReads": [s.obj], "values": []}])),
                            ("r", [l, f, ef, f])], ["var %s %s" % (l.d(), s.name), "_ = %s.%s" % (l.ident, f.ident)]
                return None
            if not own:
                return None
            f, t = r.choice(own)
            self.hit("frag_stmt_field_%d" % k)
            l = self.local()
            decl = [("s", l, True), ("g", ("V", [{"names": [(l, 0)], "typeReads": [s.obj], "values": []}]))]
            if k == 0:
                return decl + [("r", [l, f, f])], ["var %s %s" % (l.d(), s.name), "_ = %s.%s" % (l.ident, f.ident)]
            if k == 1:
                z, rz = t.zero()
                return decl + [("r", [l, f, f] + rz)], ["var %s %s" % (l.d(), s.name), "%s.%s = %s" % (l.ident, f.ident, z)]
            z, rz = t.zero()
            return [("r", [s.obj, f] + rz)], ["_ = %s{%s: %s}" % (s.name, f.ident, z)]
        if c in (9, 10) and self.structs:   # methods: call on a variable, method value, method expression
            s = r.choice(self.structs)
            ms = sorted(s.mset(True))
            if not ms:
                return None
            m = r.choice(ms)
            k = r.below(4)
            self.hit("frag_stmt_method_%d" % k)
            l = self.local()
            decl = [("s", l, True), ("g", ("V", [{"names": [(l, 0)], "typeReads": [s.obj], "values": []}]))]
            sel = Deferred(s, True, m)
            if k == 0:
                return decl + [("r", [l, sel])], ["var %s %s" % (l.d(), s.name), "%s.%s()" % (l.ident, m)]
            if k == 1:
                return decl + [("r", [l, sel])], ["var %s %s" % (l.d(), s.name), "_ = %s.%s" % (l.ident, m)]
            if k == 2:
                if m in s.mset(False):
                    return [("r", [s.obj, Deferred(s, False, m)])], ["_ = %s.%s" % (s.name, m)]
                return [("r", [s.obj, sel])], ["_ = (*%s).%s" % (s.name, m)]
            return decl + [("r", [l, sel])], ["var %s %s" % (l.d(), s.name), "defer %s.%s()" % (l.ident, m)]
        if c in (11, 12) and self.ifaces:   # implicit conversions to interfaces
            it = r.choice(self.ifaces)
            impl = self.implementers(it)
            m = r.choice(sorted(it.all_methods()))
            k = r.below(4)
            self.hit("frag_stmt_iface_%d" % k)
            l = self.local()
            if k == 0 and impl:
                e, re_ = r.choice(impl)
                return [("s", l, True), ("g", ("V", [{"names": [(l, 0)], "typeReads": [it.obj], "values": [re_]}])),
                        ("r", [l, Deferred(it, False, m)])], ["var %s %s = %s" % (l.d(), it.name, e), "%s.%s()" % (l.ident, m)]
            if k == 1 and impl:
                # pass a concrete value where a parameter of interface type is expected
                takers = [g for g in self.funcs if len(g.params) == 1 and g.params[0][1].kind == "iface" and g.params[0][1].ent is it]
                if takers:
                    g = r.choice(takers)
                    e, re_ = r.choice(impl)
                    self.hit("frag_iface_arg_conversion")
                    lhs = ", ".join("_" for _ in g.results)
                    return [("r", [g.obj] + re_)], [(lhs + " = " if g.results else "") + "%s(%s)" % (g.ident, e)]
                e, re_ = r.choice(impl)
                return [("s", l, True), ("g", ("V", [{"names": [(l, 0)], "typeReads": [it.obj], "values": [re_]}])), ("r", [l])], \
                       ["var %s %s = %s" % (l.d(), it.name, e), "_ = " + l.ident]
            if k == 2:
                return [("s", l, True), ("g", ("V", [{"names": [(l, 0)], "typeReads": [it.obj], "values": []}])),
                        ("r", [l, Deferred(it, False, m)])], ["var %s %s" % (l.d(), it.name), "_ = %s.%s" % (l.ident, m)]
            return [("s", l, True), ("g", ("V", [{"names": [(l, 0)], "typeReads": [], "values": []}])), ("r", [l, it.obj])], \
                   ["var %s any" % l.d(), "_, _ = %s.(%s)" % (l.ident, it.name)]
        if c in (13, 14) and depth == 0 and self.structs:   # function-local types
            k = r.below(4)
            if k <= 1:
                # local struct embedding a package-level type, used only through an interface conversion (seeded C07-1-1)
                cands = [(it, s) for it in self.ifaces for s in self.structs if s.implements(it, False)]
                if not cands:
                    return None
                it, es = r.choice(cands)
                lt = self.mk_struct("lt", [], local=True, force_embed=es)
                if lt.emb_struct[2]:
                    lt.emb_struct = (lt.emb_struct[0], es, False)
                self.type_ents[lt.obj.id] = lt
                text, ap = self.struct_text_and_ap(lt)
                l = self.local()
                self.hit("frag_local_struct_embeds_for_iface")
                items = [("s", lt.obj, False), ("g", ("T", [ap])), ("s", l, True),
                         ("g", ("V", [{"names": [(l, 0)], "typeReads": [it.obj], "values": [[lt.obj]]}])), ("r", [l])]
                return items, text + ["var %s %s = %s{}" % (l.d(), it.name, lt.name), "_ = " + l.ident]
            if k == 2:
                lt = self.mk_struct("lt", list(self.structs), local=True)
                self.type_ents[lt.obj.id] = lt
                text, ap = self.struct_text_and_ap(lt)
                self.hit("frag_local_struct")
                items = [("s", lt.obj, False), ("g", ("T", [ap]))]
                lines = list(text)
                if r.chance(2, 3):
                    items.append(("r", [lt.obj]))
                    lines.append("_ = %s{}" % lt.name)
                return items, lines
            o = self.new("type", "li")
            it = FIface(o, o.ident, local=True)
            m = r.choice(FPOOL)
            mo = self.new("func", "", ident=m, display="%s.%s" % (it.name, m))
            it.methods.append((mo, m, ""))
            self.type_ents[o.id] = it
            text, ap = self.iface_text_and_ap(it)
            self.hit("frag_local_iface")
            l = self.local()
            return [("s", o, False), ("g", ("T", [ap])), ("s", l, True),
                    ("g", ("V", [{"names": [(l, 0)], "typeReads": [o], "values": []}])), ("r", [l])], \
                   text + ["var %s %s" % (l.d(), it.name), "_ = " + l.ident]
        if c == 15:   # local constants and multi-value local var
            k = r.below(3)
            two = [g for g in self.funcs if len(g.results) == 2]
            if k == 0 and two:
                g = r.choice(two)
                a, b = self.local(), self.local()
                call, reads = self.call(g)
                self.hit("frag_local_var_multi_value_init")
                return [("s", a, True), ("s", b, True),
                        ("g", ("V", [{"names": [(a, 0), (b, 0)], "typeReads": [], "values": [reads]}])), ("r", [a]), ("r", [b])], \
                       ["var %s, %s = %s" % (a.d(), b.d(), call), "_ = " + a.ident, "_ = " + b.ident]
            lc = self.new("const", "lc")
            self.hit("frag_local_const")
            use = r.chance(1, 2)
            return [("s", lc, False), ("g", ("C", [{"names": [(lc, 0)], "typeReads": [], "values": [[]]}], [[lc]]))] + \
                   ([("r", [lc])] if use else []), ["const %s = 1" % lc.d()] + (["_ = " + lc.ident] if use else [])
        if c == 16 and env["locals"]:
            p, t = r.choice(env["locals"])
            self.hit("frag_stmt_param")
            return [("r", [p])], ["_ = " + p.ident]
        if c in (17, 18) and depth < 2:   # nesting: blocks and closures, same `by`
            inner_items, inner_lines = self.stmt(env, depth + 1)
            k = r.below(5)
            self.hit("frag_stmt_nest_%d" % k)
            if k == 0:
                return inner_items, ["if true {"] + ["\t" + x for x in inner_lines] + ["}"]
            if k == 1:
                i = self.local("i")
                return [("s", i, True), ("r", [i])] + inner_items, \
                       ["for %s := 0; %s < 1; %s++ {" % (i.d(), i.ident, i.ident)] + ["\t" + x for x in inner_lines] + ["}"]
            if k == 2:
                return inner_items, ["func() {"] + ["\t" + x for x in inner_lines] + ["}()"]
            if k == 3:
                return inner_items, ["defer func() {"] + ["\t" + x for x in inner_lines] + ["}()"]
            l = self.local()
            return [("s", l, True), ("r", [l])] + inner_items, \
                   ["%s := func() {" % l.d()] + ["\t" + x for x in inner_lines] + ["}", l.ident + "()"]
        if c == 19 and self.others:
            ot = r.choice(self.others)
            self.hit("frag_stmt_other_type")
            l = self.local()
            return [("s", l, True), ("g", ("V", [{"names": [(l, 0)], "typeReads": [ot.obj], "values": []}])), ("r", [l])], \
                   ["var %s %s" % (l.d(), ot.name), "_ = " + l.ident]
        return None

    def func_top(self, f):
        recv = ""
        if f.recv:
            ro, ent, ptr = f.recv
            recv = "(%s %s%s) " % (ro.d(), "*" if ptr else "", ent.name)
        ps = ", ".join("%s %s" % (p.d(), t.expr()) for p, t in f.params)
        if len(f.results) == 0:
            res = ""
        elif len(f.results) == 1:
            res = " " + f.results[0].expr()
        else:
            res = " (" + ", ".join(t.expr() for t in f.results) + ")"
        name = f.obj.d()
        text = ["func %s%s(%s)%s {" % (recv, name, ps, res)] + ["\t" + x for x in f.lines] + ["}"]
        ident = f.obj.ident
        if ident == "_":
            fname = 4
        elif ident == "init":
            fname = 2
        elif ident == "main":
            fname = 3
        else:
            fname = 1 if ident[0].isupper() else 0
        ap = ("F", {"obj": f.obj, "fname": fname, "isMethod": f.recv is not None, "items": f.items,
                    "params": [(p, False) for p, _ in f.params]})
        return text, ap

    # ---------------------------------------------------------------- output
    def files(self, nfiles=1, join_lines=True):
        """{filename: text}; records the label of every object.  One-line declarations that
        follow each other are sometimes joined with `;` (several objects per line)."""
        tops = self.tops
        names = ["f%d.go" % i for i in range(nfiles)]
        out = {}
        rj = self.r.fork("join")
        for fi, fn in enumerate(names):
            part = tops[fi::nfiles]
            lines = ["package %s" % self.pkg, ""]
            prev_single = False
            for text, _ in part:
                single = len(text) == 1 and text[0].startswith(("var ", "const ", "type "))
                if join_lines and single and prev_single and rj.chance(1, 4):
                    lines[-2] = lines[-2] + "; " + text[0]
                    self.hit("frag_decls_joined_on_one_line")
                    continue
                lines += text + [""]
                prev_single = single
            final = []
            for ln, line in enumerate(lines, start=1):
                res = ""
                i = 0
                while i < len(line):
                    ch = line[i]
                    if ch == M1:
                        j = line.index(M2, i)
                        oid = int(line[i + 1:j])
                        o = self.objs[oid - 1]
                        o.label = "%s %s @%s:%d:%d" % (o.kind, o.display, fn, ln, len(res.encode()) + 1)
                        i = j + 1
                    else:
                        res += ch
                        i += 1
                final.append(res)
            out[fn] = "\n".join(final) + "\n"
        return out

    # ---------------------------------------------------------------- abstract package
    def ap_tokens(self, facts):
        """the `walk` line of the Lean driver; `facts` = TypeFacts of the harness (go/types)"""
        by_label = {o.label: o for o in self.objs if o.label}
        name_ids = {}

        def nid(key):
            if key not in name_ids:
                name_ids[key] = len(name_ids) + 1
            return name_ids[key]

        fact_of = {}
        for tf in facts:
            o = by_label.get(tf["label"])
            if o is None:
                raise vlib.HarnessError("fragment generator: go/types knows a type the generator did not declare: %s" % tf["label"])
            fact_of[o.id] = tf

        def obj_of(label):
            o = by_label.get(label)
            if o is None:
                raise vlib.HarnessError("fragment generator: unknown object %s in a method set" % label)
            return o

        def sels(lst):
            out = []
            for s in lst or []:
                out.append((nid(s["name"]), s["exported"], [obj_of(x).id for x in s["path"]], obj_of(s["obj"]).id))
            return out

        def resolve(reads):
            out = []
            for x in reads:
                if isinstance(x, Deferred):
                    tf = fact_of[x.ent.obj.id]
                    ms = tf["msp"] if x.ptr else tf["msv"]
                    hit = [s for s in ms or [] if s["name"].split("|")[0] == x.mname]
                    if len(hit) != 1:
                        raise vlib.HarnessError("fragment generator: method %s not in the method set of %s" % (x.mname, tf["label"]))
                    m = obj_of(hit[0]["obj"]).id
                    out += [m] + [obj_of(p).id for p in hit[0]["path"]] + [m]
                else:
                    out.append(x.id)
            return out

        def objs(l):
            l = resolve(l)
            return [str(len(l))] + [str(x) for x in l]

        def spec(sp):
            t = [str(len(sp["names"]))]
            for o, c in sp["names"]:
                t += [str(o.id), str(c)]
            t += objs(sp["typeReads"])
            t.append(str(len(sp["values"])))
            for v in sp["values"]:
                t += objs(v)
            return t

        def sel_tokens(lst):
            t = [str(len(lst))]
            for n, ex, path, ob in lst:
                t += [str(n), "1" if ex else "0", str(len(path))] + [str(x) for x in path] + [str(ob)]
            return t

        def typed(ap):
            tf = fact_of.get(ap["obj"].id)
            if tf is None:
                raise vlib.HarnessError("fragment generator: no go/types facts for %s" % ap["obj"].label)
            t = [str(ap["obj"].id), str(ap["cls"]), "1" if ap["alias"] else "0", "1" if tf["under_iface"] else "0"]
            b = ap["body"]
            if b[0] == "S":
                t += ["S", str(len(b[1]))]
                for f, c, tr in b[1]:
                    t += [str(f.id), str(c)] + objs(tr)
                t.append(str(len(b[2])))
                for f, ex, to, he in b[2]:
                    t += [str(f.id), "1" if ex else "0", str(to.id), "1" if he else "0"]
            elif b[0] == "I":
                t += ["I", str(len(b[1]))]
                for m, (mn, sig), sr in b[1]:
                    key = [x for x in tf["full"] if x.split("|")[0] == mn]
                    if len(key) != 1:
                        raise vlib.HarnessError("fragment generator: interface method %s not in go/types' method set of %s" % (mn, tf["label"]))
                    t += [str(m.id), str(nid(key[0]))] + objs(sr)
                t += objs(b[2])
                t += [str(len(tf["full"]))] + [str(nid(x)) for x in tf["full"]]
            else:
                t += ["O"] + objs(b[1])
            t += sel_tokens(sels(tf["msv"])) + sel_tokens(sels(tf["msp"]))
            return t

        def gen(g):
            if g[0] == "T":
                t = ["T", str(len(g[1]))]
                for ap in g[1]:
                    t += typed(ap)
                return t
            if g[0] == "V":
                t = ["V", str(len(g[1]))]
                for sp in g[1]:
                    t += spec(sp)
                return t
            t = ["C", str(len(g[1]))]
            for sp in g[1]:
                t += spec(sp)
            t.append(str(len(g[2])))
            for grp in g[2]:
                t += objs(grp)
            return t

        def item(it):
            if it[0] == "s":
                return ["s", str(it[1].id), "1" if it[2] else "0"]
            if it[0] == "r":
                return ["r"] + objs(it[1])
            if it[0] == "p":
                return ["p", str(it[1].id)] + objs(it[2])
            return ["g"] + gen(it[1])

        toks = ["walk", "1" if self.pkg == "main" else "0", "0", str(len(self.tops))]
        for _, top in self.tops:
            if top[0] == "F":
                f = top[1]
                toks += ["F", str(f["obj"].id), str(f["fname"]), "1" if f["isMethod"] else "0", str(len(f["items"]))]
                for it in f["items"]:
                    toks += item(it)
                toks.append(str(len(f["params"])))
                for p, un in f["params"]:
                    toks += [str(p.id), "1" if un else "0"]
            else:
                toks += ["G"] + gen(top[1])
        return " ".join(toks)


def compare(gen, o, model_line):
    """diffs between the Lean walk model and the real analyzer on one fragment package"""
    diffs = []
    by_label = {x.label: x for x in gen.objs if x.label}
    if not model_line.startswith("ok=1 "):
        return ["model: " + model_line[:200]]
    parts = dict(p.split("=", 1) for p in model_line.split(" "))
    names = o["node_names"]
    node_obj = [0] * len(names)
    for i, lab in enumerate(names):
        if i == 0:
            continue
        x = by_label.get(lab)
        if x is None:
            diffs.append("real node unknown to the abstract package: " + lab)
            node_obj[i] = -i
        else:
            node_obj[i] = x.id
    lab_of = {x.id: x.label for x in gen.objs}
    lab_of[0] = "ROOT"

    def edges(s):
        out = set()
        if s and s != "-":
            for e in s.split(","):
                a, b = e.split(">")
                out.add((node_obj[int(a)], node_obj[int(b)]))
        return out

    def medges(s):
        out = set()
        if s != "-":
            for e in s.split(";"):
                a, b = e.split(">")
                out.add((int(a), int(b)))
        return out

    def show(e):
        return "%s -> %s" % (lab_of.get(e[0], e[0]), lab_of.get(e[1], e[1]))

    for tag, real, model in (("use", edges(o.get("uses")), medges(parts["U"])), ("own", edges(o.get("owns")), medges(parts["O"]))):
        for e in sorted(real - model)[:6]:
            diffs.append("%s edge only in the REAL graph: %s" % (tag, show(e)))
        for e in sorted(model - real)[:6]:
            diffs.append("%s edge only in the MODEL: %s" % (tag, show(e)))
    mv = {}
    if parts["V"] != "-":
        for kv in parts["V"].split(","):
            k, v = kv.split(":")
            mv[int(k)] = v
    rv = {node_obj[i]: o["colors"][i - 1] for i in range(1, len(names))}
    for k in sorted(set(mv) | set(rv)):
        if mv.get(k) != rv.get(k):
            diffs.append("verdict of %s: model %s real %s" % (lab_of.get(k, k), mv.get(k), rv.get(k)))
    # the program's references (go/types) must be references of the abstract package
    mrefs = medges(parts["R"])
    if o.get("refs") and o["refs"] != "-":
        for i, rf in enumerate(o["refs"].split(";")):
            ch, y = rf.split(">")
            d = node_obj[int(ch.split(".")[0])] if ch else 0
            if (d, node_obj[int(y)]) not in mrefs:
                diffs.append("reference of the program missing in refsOf: %s (%s)" % (show((d, node_obj[int(y)])), o["ref_desc"][i]))
    # zero-reference candidates: go/types' ⊆ the model's; the model's are Unused in the REAL result
    mz = set(int(x) for x in parts["Z"].split(",")) if parts["Z"] != "-" else set()
    mz_names = set(lab_of[k].split(" @")[0] for k in mz)
    for nm in (o.get("zeroref") or {}).get("names") or []:
        if nm not in mz_names:
            diffs.append("zero-reference object (go/types) is not a candidate of the model: " + nm)
    for k in mz:
        if rv.get(k) != "X":
            diffs.append("model candidate %s is not Unused in the real result (%s)" % (lab_of[k], rv.get(k)))
    # hypotheses of walk_deletion_safe, evaluated by the driver on this package
    if parts.get("H") != "11":
        diffs.append("hypotheses of walk_deletion_safe fail on this package (rankOk, no Used object inside an Unused one): H=%s" % parts.get("H"))
    return diffs



# ============================================================================ running
def write_pkg(d, files):
    os.makedirs(d, exist_ok=True)
    for n, t in files.items():
        with open(os.path.join(d, n), "w") as f:
            f.write(t)
    return [os.path.join(d, n) for n in files]


def run_jobs(ctx, binary, jobs, extra_env=None, nproc=None, timeout=1500):
    """Distribute job dicts over several c07run processes; returns {id: out}."""
    nproc = nproc or max(1, min(vlib.NCPU, 12, len(jobs)))
    chunks = [jobs[i::nproc] for i in range(nproc)]
    env = vlib.go_env(extra_env or {})

    def one(chunk):
        if not chunk:
            return []
        inp = "".join(json.dumps(j) + "\n" for j in chunk)
        rc, so, se = vlib.run([binary], input=inp, env=env, timeout=timeout)
        if rc != 0:
            raise vlib.HarnessError("c07run exited %d: %s" % (rc, se[-2000:]))
        outs = [json.loads(l) for l in so.splitlines() if l.strip()]
        if len(outs) != len(chunk):
            raise vlib.HarnessError("c07run: %d outputs for %d jobs: %s" % (len(outs), len(chunk), se[-1000:]))
        return outs

    res = {}
    with ThreadPoolExecutor(max_workers=nproc) as ex:
        for outs in ex.map(one, chunks):
            for o in outs:
                res[o["id"]] = o
    return res


def testdata_jobs(want, with_tests=False):
    root = os.path.join(vlib.REPO, TESTDATA)
    jobs = []
    for d in sorted(os.listdir(root)):
        p = os.path.join(root, d)
        if not os.path.isdir(p):
            continue
        fs = sorted(f for f in os.listdir(p) if f.endswith(".go"))
        plain = [os.path.join(p, f) for f in fs if not f.endswith("_test.go")]
        if any('import "C"' in open(f).read() for f in plain):
            continue
        if plain:
            jobs.append({"id": "testdata/" + d, "files": plain, "pkgpath": "example.com/" + d, "want": want})
        tests = [os.path.join(p, f) for f in fs if f.endswith("_test.go")]
        if with_tests and tests:
            pk = set(re.search(r"^package (\w+)", open(f).read(), re.M).group(1) for f in tests)
            if len(pk) == 1 and not list(pk)[0].endswith("_test"):
                jobs.append({"id": "testdata/" + d + "[test]", "files": plain + tests, "pkgpath": "example.com/" + d, "want": want})
    return jobs


def repo_jobs(pkgs, want):
    jobs = []
    for rel in pkgs:
        p = os.path.join(vlib.REPO, rel)
        if not os.path.isdir(p):
            continue
        fs = sorted(f for f in os.listdir(p) if f.endswith(".go") and not f.endswith("_test.go"))
        files = []
        for f in fs:
            txt = open(os.path.join(p, f)).read()
            m = re.search(r"^//go:build (.*)$", txt, re.M)
            if m and not build_ok(m.group(1)):
                continue
            files.append(os.path.join(p, f))
        if files:
            jobs.append({"id": "repo/" + rel, "files": files, "pkgpath": "honnef.co/go/tools/" + rel, "want": want})
    return jobs


def build_ok(expr):
    """tiny evaluator of //go:build lines for linux/amd64, tag verif off"""
    toks = re.findall(r"[\w.]+|&&|\|\||!|\(|\)", expr)
    true = {"linux", "amd64", "unix", "gc"}

    def val(t):
        return t in true or re.fullmatch(r"go1\.\d+", t) is not None

    py = " ".join({"&&": "and", "||": "or", "!": "not "}.get(t, t if t in "()" else str(val(t))) for t in toks)
    try:
        return bool(eval(py))
    except Exception:
        return False


WANT_FULL = ["graph", "objs", "zeroref", "refs", "del", "usedin"]
WANT_FRAG = WANT_FULL + ["nodes", "facts"]
U_KINDS = ["type param", "func", "field", "var", "const", "type", "identifier"]


class Pk:
    """one package of the population"""

    def __init__(self, pid, src, pkgpath, plain, tests=(), texts=None, gen=None, binary=False, decls=None):
        self.id, self.src, self.pkgpath = pid, src, pkgpath
        self.plain, self.tests = list(plain), list(tests)
        self.texts = texts          # {file name: text} for replays (None: read the files)
        self.gen = gen              # FragGen of a fragment package
        self.binary = binary        # goes through the real staticcheck binary
        self.decls = decls          # (list of top-level declaration texts, test file text or None) for shrinking

    def files_for_replay(self):
        if self.texts is not None:
            return self.texts
        return {os.path.basename(f): open(f).read() for f in self.plain + self.tests}


def split_tests(paths):
    """(plain files, in-package test files); external test packages are left out"""
    plain = [f for f in paths if not f.endswith("_test.go")]
    tests = []
    for f in paths:
        if f.endswith("_test.go"):
            m = re.search(r"^package (\w+)", open(f).read(), re.M)
            if m and not m.group(1).endswith("_test"):
                tests.append(f)
    return plain, tests


def run_staticcheck(ctx, sc, root, dirs, tests, cache):
    """the REAL binary, U1000 only, on the given package directories of the module.
    Returns {package dir: [[kind, name, file, line, col], …]}."""
    out = {d: [] for d in dirs}
    if not dirs:
        return out
    env = vlib.go_env({"STATICCHECK_CACHE": cache})
    cmd = [sc, "-checks", "U1000", "-f", "json"] + ([] if tests else ["-tests=false"]) + ["./" + os.path.relpath(d, root) for d in dirs]
    rc, so, se = vlib.run(cmd, cwd=root, env=env, timeout=2400)
    if rc not in (0, 1):
        raise vlib.HarnessError("staticcheck exited %d: %s" % (rc, (so + se)[-1500:]))
    for line in so.splitlines():
        j = json.loads(line)
        if j.get("code") != "U1000":
            raise vlib.HarnessError("unexpected diagnostic of the staticcheck binary on the generated module: %s" % line[:400])
        msg = j["message"]
        if not msg.endswith(" is unused"):
            raise vlib.HarnessError("unexpected U1000 message %r" % msg)
        head = msg[:-len(" is unused")]
        kind = next((k for k in U_KINDS if head.startswith(k + " ")), None)
        if kind is None:
            raise vlib.HarnessError("unexpected U1000 message %r" % msg)
        f = j["location"]["file"]
        rec = [kind, head[len(kind) + 1:], f, str(j["location"]["line"]), str(j["location"]["column"])]
        d = os.path.dirname(f)
        if d not in out:
            raise vlib.HarnessError("U1000 line for a file outside the analysed packages: %s" % f)
        if rec not in out[d]:
            out[d].append(rec)
    return out


def binary_phase(ctx, sc, root, pks, cache):
    """run the binary without tests on all given packages and with tests on those that have
    in-package test files; returns ({id: report}, {id: report with tests})"""
    dirs = [os.path.dirname(p.plain[0]) for p in pks]
    tdirs = [os.path.dirname(p.plain[0]) for p in pks if p.tests]
    with ThreadPoolExecutor(max_workers=2) as ex:
        fa = ex.submit(run_staticcheck, ctx, sc, root, dirs, False, cache)
        fb = ex.submit(run_staticcheck, ctx, sc, root, tdirs, True, cache)
        ra, rb = fa.result(), fb.result()
    a = {p.id: ra[os.path.dirname(p.plain[0])] for p in pks}
    b = {p.id: rb[os.path.dirname(p.plain[0])] for p in pks if p.tests}
    return a, b


def masked_by_same_name(o, missing):
    """known finding unusedkey-no-column: the entries of a binary zero-reference failure
    ("kind name @base:line") that a Used object with the same name on the same line explains"""
    used = set()
    for kind, name, pos, v in o.get("objs") or []:
        if v == "U":
            base, line, _ = pos.rsplit(":", 2)
            used.add((name, base, line))
    out = []
    for m in missing:
        head, pos = m.rsplit(" @", 1)
        name = head.split(" ", 1)[1]
        base, line = pos.rsplit(":", 1)
        if (name, base, line) in used:
            out.append(m)
    return out


def classify(o, known=None):
    """Evaluate the oracles on one c07run output. Returns list of (kind, detail).  Entries
    explained by the known finding unusedkey-no-column go to `known` instead."""
    bad = []
    for key, tag in (("del", ""), ("bdel", "binary-")):
        d = o.get(key)
        if d is not None:
            if d.get("unmapped"):
                bad.append((tag + "unmapped", d["unmapped"]))
            if not d["ok"]:
                bad.append((tag + "deletion", {"errors": d.get("errors"), "reduced_package": d.get("src")}))
    for key, tag in (("zeroref", ""), ("bzero", "binary-")):
        z = o.get(key)
        if z is not None and z.get("missing"):
            missing = list(z["missing"])
            if key == "bzero" and known is not None:
                expl = masked_by_same_name(o, missing)
                if expl:
                    known.append((o["id"], expl))
                    missing = [m for m in missing if m not in expl]
            if missing:
                bad.append((tag + "zeroref", missing))
    return bad


def hexs(s):
    return "-" if s == "" else s.encode().hex()


def emit_line(pkgpath, variants):
    """`emit` line of the Lean driver from per-variant `objs` lists of c07run"""
    toks = ["emit", str(len(variants))]
    for objs in variants:
        used = [x for x in objs if x[3] == "U"]
        unused_ = [x for x in objs if x[3] == "X"]
        toks += [hexs(pkgpath), "1"]
        for lst in (used, unused_):
            toks.append(str(len(lst)))
            for kind, name, pos, _ in lst:
                base, line, col = pos.rsplit(":", 2)
                toks += [hexs(kind), hexs(name), hexs(base), line, col]
    return " ".join(toks)


def parse_emit(s):
    """(keyinj, set of (kind, name, base, line, col))"""
    parts = s.split(" ")
    if not parts[0].startswith("keyinj="):
        return None, None
    out = set()
    for t in parts[1:]:
        if t == "-":
            continue
        k, n, b, l, c = t.split(":")
        dec = lambda h: "" if h == "-" else bytes.fromhex(h).decode()
        out.add((dec(k), dec(n), dec(b), l, c))
    return parts[0] == "keyinj=1", out


def make_jobs(pks, bin_a, bin_b):
    jobs = []
    for p in pks:
        j = {"id": p.id, "files": sorted(p.plain), "pkgpath": p.pkgpath, "want": WANT_FRAG if p.gen is not None else WANT_FULL}
        if p.id in bin_a:
            j["binset"], j["binrep"] = True, bin_a[p.id]
        jobs.append(j)
        if p.tests:
            j = {"id": p.id + "[tests]", "files": sorted(p.plain) + sorted(p.tests), "pkgpath": p.pkgpath, "want": WANT_FULL}
            if p.id in bin_b:
                j["binset"], j["binrep"] = True, bin_b[p.id]
            jobs.append(j)
    return jobs


def shrink(ctx, binary, sc, root, cache, p, kinds, rounds=40):
    """Greedy reduction of a failing generated package: drop top-level declarations while the
    package still type-checks and an oracle of the same kind still fails."""
    decls, test_text = p.decls
    pkgname = re.search(r"^package (\w+)", list(p.files_for_replay().values())[0], re.M).group(1)
    need_binary = any(k.startswith("binary-") for k in kinds)
    tests_mode = p.id.endswith("[tests]") or (test_text is not None and any("tests" in k for k in kinds))
    cur = list(decls)
    trial = [0]

    def fails(ds):
        trial[0] += 1
        d = os.path.join(root, "shrink", re.sub(r"\W", "_", p.id), "s%d" % trial[0])
        os.makedirs(d)
        files = {"f0.go": file_text(pkgname, ds)}
        if test_text is not None:
            files["f0_test.go"] = test_text
        paths = write_pkg(d, files)
        plain, tests = split_tests(paths)
        q = Pk("shrink/%d" % trial[0], "shrink", MODPATH + "/shrink/%s/s%d" % (re.sub(r"\W", "_", p.id), trial[0]), plain, tests, texts=files)
        ba, bb = ({}, {})
        if need_binary:
            try:
                ba, bb = binary_phase(ctx, sc, root, [q], cache)
            except vlib.HarnessError:
                return None
        outs = run_jobs(ctx, binary, make_jobs([q], ba, bb), None, 1)
        for o in outs.values():
            if o.get("type_errs") or o.get("err"):
                return None
        got = set()
        for o in outs.values():
            got |= set(k for k, _ in classify(o))
        return files if (got & set(kinds)) else None

    best = None
    i = len(cur) - 1
    while i >= 0 and trial[0] < rounds:
        cand = cur[:i] + cur[i + 1:]
        res = fails(cand)
        if res is not None:
            cur, best = cand, res
        i -= 1
    return best


def run(ctx):
    import time
    t_phase = [time.time()]
    phases = {}

    def mark(name):
        now = time.time()
        phases[name] = round(now - t_phase[0], 1)
        t_phase[0] = now

    quick = ctx.quick
    n_gen = 200 if quick else 2000
    n_frag = 110 if quick else 1000
    n_bin_gen = 40 if quick else 300       # generated packages that also go through the staticcheck binary
    n_bin_frag = 24 if quick else 200
    with ThreadPoolExecutor(max_workers=3) as ex:
        fl = ex.submit(vlib.std_lean_phase, ctx, MODULES, THEOREMS)
        fh = ex.submit(vlib.build_harness, ctx, "c07run")
        fs = ex.submit(vlib.build_repo_cmd, ctx, "./cmd/staticcheck")
        lean_ok, lean_broke = fl.result()
        binary = fh.result()
        sc = fs.result()
    mark("build_lean_harness_staticcheck")
    rng = vlib.SplitMix(ctx.seed).fork("c07")
    root = ctx.path("mod", "go.mod")[:-len("/go.mod")]
    with open(os.path.join(root, "go.mod"), "w") as f:
        f.write("module %s\n\ngo 1.24\n" % MODPATH)
    cache = ctx.path("sccache", "x")[:-2]

    pks = []
    heavy_jobs = []
    hist = {}
    if ctx.replay:
        rp = json.load(open(ctx.replay))
        for k, case in enumerate(rp.get("cases", [rp])):
            if "files" not in case:
                continue
            d = os.path.join(root, "replay", "r%d" % k)
            paths = write_pkg(d, case["files"])
            plain, tests = split_tests(paths)
            pks.append(Pk(case["id"].replace("[tests]", ""), "replay", MODPATH + "/replay/r%d" % k, plain, tests, texts=case["files"], binary=True))
    else:
        # --- corpus (first)
        if os.path.isdir(CORPUS):
            for dn in sorted(os.listdir(CORPUS)):
                src = os.path.join(CORPUS, dn)
                if not os.path.isdir(src):
                    continue
                files = {f: open(os.path.join(src, f)).read() for f in sorted(os.listdir(src)) if f.endswith(".go")}
                if not files:
                    continue
                paths = write_pkg(os.path.join(root, "corpus", dn), files)
                plain, tests = split_tests(paths)
                pks.append(Pk("corpus/" + dn, "corpus", MODPATH + "/corpus/" + dn, plain, tests, texts=files, binary=True))
        heavy_jobs += testdata_jobs(WANT_FULL, with_tests=True)
        heavy_jobs += repo_jobs(REPO_PKGS_QUICK if quick else REPO_PKGS_THOROUGH, WANT_FULL)
        # --- generated declaration graphs
        for i in range(n_gen):
            g = PkgGen(rng.fork("pkg%d" % i), size=2 + i % 9, pkg="p%d" % i)
            test_text = None
            if i % 5 == 0:
                extra, test_text = g.test_file()
                g.decls.append(extra)
            nfiles = 1 + (i % 3)
            files = g.files(nfiles)
            decl_list = list(g.decls)
            if test_text is not None:
                files["f0_test.go"] = test_text
            paths = write_pkg(os.path.join(root, "gen", "p%d" % i), files)
            plain, tests = split_tests(paths)
            pks.append(Pk("gen/%d" % i, "gen", MODPATH + "/gen/p%d" % i, plain, tests, texts=files, binary=(i < n_bin_gen),
                          decls=(decl_list, test_text)))
            for k, v in g.hist.items():
                hist[k] = hist.get(k, 0) + v
        # --- packages of the modelled fragment
        frng = vlib.SplitMix(ctx.seed).fork("c07frag")
        for i in range(n_frag):
            g = FragGen(frng.fork("q%d" % i), size=2 + i % 8, pkg="q%d" % i)
            files = g.files(1 + i % 2)
            paths = write_pkg(os.path.join(root, "frag", "q%d" % i), files)
            pks.append(Pk("frag/%d" % i, "frag", MODPATH + "/frag/q%d" % i, paths, [], texts=files, gen=g, binary=(i < n_bin_frag),
                          decls=([strip_markers("\n".join(t)) for t, _ in g.tops], None)))
            for k, v in g.hist.items():
                hist[k] = hist.get(k, 0) + v
        ctx.coverage["generator_histogram"] = dict(sorted(hist.items()))

    mark("generate")
    # ---- the real binary (needs nothing from the in-process runs) next to the heavy in-process jobs
    gopath_env = {"GOPATH": os.path.join(vlib.REPO, "unused", "testdata"), "GO111MODULE": "off"}
    with ThreadPoolExecutor(max_workers=2) as ex:
        fb = ex.submit(binary_phase, ctx, sc, root, [p for p in pks if p.binary], cache)
        fh = ex.submit(run_jobs, ctx, binary, heavy_jobs, gopath_env, 8)
        bin_a, bin_b = fb.result()
        outs = dict(fh.result())
    mark("staticcheck_binary_and_heavy_inprocess")
    light_jobs = make_jobs(pks, bin_a, bin_b)
    outs.update(run_jobs(ctx, binary, light_jobs, None, 10))
    mark("inprocess_light")
    jobs = light_jobs + heavy_jobs
    pk_of = {}
    for p in pks:
        pk_of[p.id] = p
        pk_of[p.id + "[tests]"] = p

    # ---- generator sanity, harness errors
    gen_rejected = []
    loaded = []
    for j in jobs:
        o = outs[j["id"]]
        if o.get("type_errs"):
            if j["id"].startswith(("gen/", "frag/", "corpus/")):
                gen_rejected.append((j["id"], o["type_errs"][:2]))
            else:
                ctx.notes.append("skipped %s: does not type-check in the harness loader: %s" % (j["id"], o["type_errs"][0]))
            continue
        if o.get("err"):
            # unused itself panicked or the dump was unreadable: on a package that type-checks this is
            # not a C07 matter (C03 owns totality) but we must not silently lose it
            raise vlib.HarnessError("c07run failed on %s: %s" % (j["id"], o["err"]))
        loaded.append(j)
    if gen_rejected:
        raise vlib.HarnessError("generator/corpus produced %d packages the type checker rejects, e.g. %s" % (len(gen_rejected), gen_rejected[:2]))

    # ---- Lean: Results on the dumped graph, certificate; walk model; emission model
    lines = []
    plan = []     # (what, job id)
    for j in loaded:
        o = outs[j["id"]]
        lines.append("verdicts %d %s %s" % (o["n"], o.get("uses") or "-", o.get("owns") or "-"))
        lines.append("refs %d %s %s" % (o["n"], o.get("uses") or "-", o.get("refs") or "-"))
        plan += [("verdicts", j["id"]), ("refs", j["id"])]
    for p in pks:
        if p.gen is not None and p.id in outs and not outs[p.id].get("type_errs"):
            lines.append(p.gen.ap_tokens(outs[p.id].get("facts") or []))
            plan.append(("walk", p.id))
    for p in pks:
        if not p.binary:
            continue
        lines.append(emit_line(p.pkgpath, [outs[p.id].get("objs") or []]))
        plan.append(("emitA", p.id))
        if p.tests:
            lines.append(emit_line(p.pkgpath, [outs[p.id].get("objs") or [], outs[p.id + "[tests]"].get("objs") or []]))
            plan.append(("emitB", p.id))
    model = vlib.run_model(ctx, "C07", lines)
    mark("lean_driver")
    mout = {}
    for (what, jid), m in zip(plan, model):
        if m == "bad-op":
            raise vlib.HarnessError("model rejected the %s line of %s" % (what, jid))
        mout[(what, jid)] = m

    corr_diffs = []
    uncovered = {}
    n_uncovered = 0
    zr_hyp = 0
    programs = 0
    nontrivial = set()
    violations = []
    samples = []
    sizes = {"nodes": 0, "use_edges": 0, "own_edges": 0, "refs": 0, "refs_without_target_node": 0, "reported": 0, "blanked_writes": 0,
             "removed_imports": 0, "zero_ref_candidates": 0, "binary_reported": 0, "binary_removed_imports": 0,
             "binary_zero_ref_candidates": 0, "used_objects_inside_reported_ones": 0}
    by_source = {}
    known_hits = []   # (job id, entries) explained by the known finding unusedkey-no-column
    for k, j in enumerate(loaded):
        o = outs[j["id"]]
        mv, mr = mout[("verdicts", j["id"])], mout[("refs", j["id"])]
        programs += 1
        src = j["id"].split("/")[0]
        by_source[src] = by_source.get(src, 0) + 1
        if o.get("dot_vs_result") != "ok":
            corr_diffs.append({"id": j["id"], "what": "Result lists are not the partition of nodes[1:] by the dumped colours", "detail": o.get("dot_vs_result")})
        if mv.startswith("wf=0"):
            corr_diffs.append({"id": j["id"], "what": "dumped graph is not well-formed (edge to a missing node)"})
        else:
            parts = mv.split()
            mcol = parts[1] if o["n"] > 1 and len(parts) == 3 else ""
            if mcol != (o.get("colors") or ""):
                corr_diffs.append({"id": j["id"], "what": "Lean Results differ from the real colouring",
                                   "model": mcol[:200], "impl": (o.get("colors") or "")[:200]})
            zk, zok = parts[-1][3:].split("/")
            zr_hyp += int(zk)
        if mr.startswith("uncovered"):
            # ENFORCED certificate: the hypothesis of deletion_safe_graph fails on this dump
            idx = [int(x) for x in mr.split()[1].split(",")]
            n_uncovered += len(idx)
            uncovered[j["id"]] = [o["ref_desc"][i] for i in idx[:6]]
            corr_diffs.append({"id": j["id"], "what": "certificate refsCovered fails: a reference of the program is not covered by a use-path "
                               "from an enclosing declaration (hypothesis of deletion_safe_graph)", "references": uncovered[j["id"]]})
        # informational only: a Used object inside a reported one is legal (rule 5.1 lets the fields of two convertible
        # structs use each other from a conversion inside unused code); the deletion oracle decides
        sizes["used_objects_inside_reported_ones"] += len(o.get("used_inside_reported") or [])
        c = o["counts"]
        sizes["nodes"] += o["n"]
        sizes["use_edges"] += c["uses"]
        sizes["own_edges"] += c["owns"]
        rs = o.get("ref_stats") or {}
        sizes["refs"] += rs.get("refs", 0)
        sizes["refs_without_target_node"] += rs.get("no_target_node", 0)
        d = o.get("del") or {}
        sizes["reported"] += d.get("reported", 0)
        sizes["blanked_writes"] += d.get("blanked_writes", 0)
        sizes["removed_imports"] += d.get("removed_imports", 0)
        sizes["zero_ref_candidates"] += (o.get("zeroref") or {}).get("candidates", 0)
        bd = o.get("bdel") or {}
        sizes["binary_reported"] += bd.get("reported", 0)
        sizes["binary_removed_imports"] += bd.get("removed_imports", 0)
        sizes["binary_zero_ref_candidates"] += (o.get("bzero") or {}).get("candidates", 0)
        used_unexp = sum(1 for ob in o.get("objs", []) if ob[3] == "U" and ob[1][:1].islower())
        if c["unused"] >= 1 and used_unexp >= 1:
            nontrivial.add(j["id"])
        bad = classify(o, known_hits)
        if bad:
            violations.append((j, o, bad))
        if len(samples) < 6 and (k % max(1, len(loaded) // 6) == 0):
            samples.append({"id": j["id"], "nodes": o["n"], "counts": c, "reported": [ob[0] + " " + ob[1] for ob in o.get("objs", []) if ob[3] == "X"][:8],
                            "deletion_ok": d.get("ok"), "zero_ref": o.get("zeroref"), "binary_deletion_ok": bd.get("ok") if bd else None,
                            "lean": mv[:80], "certificate": mr[:60]})

    # ---- walk model vs the real analyzer (fragment packages)
    walk_checked = walk_edges = walk_cands = 0
    for p in pks:
        if ("walk", p.id) not in mout:
            continue
        walk_checked += 1
        m = mout[("walk", p.id)]
        dd = compare(p.gen, outs[p.id], m)
        if dd:
            corr_diffs.append({"id": p.id, "what": "Lean walk model and the real AST walk of unused disagree", "diffs": dd[:10]})
        if m.startswith("ok=1 "):
            parts = dict(x.split("=", 1) for x in m.split(" "))
            walk_edges += 0 if parts["U"] == "-" else parts["U"].count(";") + 1
            walk_cands += 0 if parts["Z"] == "-" else parts["Z"].count(",") + 1
    # ---- emission model vs the real binary
    emit_checked = 0
    keyinj_fail = 0
    for p in pks:
        for what, rep in (("emitA", bin_a.get(p.id)), ("emitB", bin_b.get(p.id))):
            if (what, p.id) not in mout or rep is None:
                continue
            emit_checked += 1
            inj, em = parse_emit(mout[(what, p.id)])
            real = set((r[0], r[1], os.path.basename(r[2]), r[3], r[4]) for r in rep)
            if not inj:
                # two distinct objects share (package, file, line, name): exactly the known finding unusedkey-no-column
                keyinj_fail += 1
                known_hits.append((p.id, ["KeyInj (hypothesis of emit_complete) fails, " + what]))
            if em != real:
                corr_diffs.append({"id": p.id, "what": "U1000 lines of the staticcheck binary differ from the Lean merge/emission model "
                                   "(lint.go: used[key] merge keyed by package, file, line, name)", "mode": "with tests" if what == "emitB" else "-tests=false",
                                   "only_model": sorted(em - real)[:6], "only_binary": sorted(real - em)[:6]})

    # ---- violation search when only a correspondence broke: the rest of the population through the binary
    searched = 0
    if corr_diffs and not violations and not ctx.replay:
        rest = [p for p in pks if not p.binary and p.src in ("gen", "frag")][:150 if quick else 600]
        if rest:
            sa, sb = binary_phase(ctx, sc, root, rest, cache)
            sjobs = make_jobs(rest, sa, sb)
            for j in sjobs:
                j["want"] = ["objs"]
            souts = run_jobs(ctx, binary, sjobs, None, 10)
            searched = len(rest)
            for j in sjobs:
                o = souts[j["id"]]
                if o.get("type_errs") or o.get("err"):
                    continue
                bad = classify(o)
                if bad:
                    violations.append((j, o, bad))

    ctx.coverage.update({
        "programs": programs,
        "programs_by_source": by_source,
        "evaluations": programs * 4 + walk_checked + emit_checked + 2 * sum(1 for j in loaded if outs[j["id"]].get("bdel") is not None),
        "disagreements_checked": programs + walk_checked + emit_checked,
        "distinct_nontrivial": len(nontrivial),
        "rule": "one program = one package (variant) run through the real unused.Analyzer; per program: Lean Results vs real colouring, "
                "enforced certificate refsCovered, deletion oracle (types.Check of the reduced package), zero-reference oracle; for the "
                "packages that also go through the real staticcheck binary both oracles again on what the binary printed, and the Lean "
                "emission model vs the binary; for fragment packages the Lean walk model vs the real graph; "
                "non-trivial = package with >=1 reported object and >=1 used unexported object",
        "sizes": sizes,
        "zero_ref_hypothesis_nodes": zr_hyp,
        "certificate": {"references_not_covered_by_a_use_path": n_uncovered, "examples": dict(list(uncovered.items())[:8]), "enforced": True},
        "walk_model": {"packages_compared": walk_checked, "use_edges_compared": walk_edges, "zero_ref_candidates_of_the_model": walk_cands},
        "emission_model": {"binary_runs_compared": emit_checked, "packages_through_binary": sum(1 for p in pks if p.binary),
                           "with_tests": len(bin_b), "keyinj_failures": keyinj_fail},
        "violation_search_packages": searched,
        "phase_wall_s": phases,
        "samples": samples,
    })
    ctx.assumptions += [
        "go/types (types.Check) is the judge of 'still type-checks'; go/parser, go/printer are trusted for the reduction",
        "the AST walk of unused is modelled in Lean for the fragment of Walk.lean only (checked edge-for-edge against the real graph on fragment packages); "
        "outside the fragment (generics, struct conversions, unkeyed literals, anonymous structs, directives, cgo, linkname, generated files) it is validated "
        "per program by the oracles; the quantifier over programs is sampled",
        "method sets, complete interface method sets and 'embedded struct has an exported field' are inputs of the walk model (go/types facts)",
        "reading: removing a reported variable removes the pure stores into it (x = e becomes _ = e, x++ disappears) — rule 9.7 reports write-only variables by design",
        "Go's quieten closure has no visited bit; the model's has — identical whenever the Go code terminates (owns is a containment forest)",
        "compiled Lean driver evaluates Results/refsCovered/walk/emitted (kernel-checked theorems, compiled evaluation)",
        "external test packages (package p_test) are not part of the variants handed to the oracles; the binary runs with the default build configuration",
    ]

    # ---- report
    known = vlib.load_known_findings("C07")
    for jid, entries in known_hits:
        if "unusedkey-no-column" in known:
            ctx.known_finding("key=unusedkey-no-column %s: %s" % (jid, "; ".join(entries)))
        else:
            violations.append(({"id": jid, "pkgpath": pk_of[jid].pkgpath if jid in pk_of else "", "files": []}, outs.get(jid, {}),
                               [("binary-zeroref", entries)]))
    shrunk = 0
    remaining = []
    for (j, o, bad) in violations:
        p = pk_of.get(j["id"])
        try:
            fs = p.files_for_replay() if p is not None else {os.path.basename(f): open(f).read() for f in j["files"]}
            why = const_implicit_type_finding(fs, o.get("objs", []), bad) if KEY_CONST_TYPE in known else None
        except Exception:
            why = None
        if why:
            ctx.known_finding("key=%s %s: %s" % (KEY_CONST_TYPE, j["id"], why))
        else:
            remaining.append((j, o, bad))
    violations = remaining
    for (j, o, bad) in violations[:12]:
        p = pk_of.get(j["id"])
        files = p.files_for_replay() if p is not None else {os.path.basename(f): open(f).read() for f in j["files"]}
        kinds = "+".join(k for k, _ in bad)
        name = "c07_%s_%s.json" % (kinds, j["id"].replace("/", "_").replace("[", "_").replace("]", ""))
        text = "C07: %s on %s: %s" % (kinds, j["id"], json.dumps(bad[0][1])[:600])
        small = None
        if p is not None and p.decls is not None and shrunk < 2 and not ctx.replay:
            try:
                small = shrink(ctx, binary, sc, root, cache, p, [k for k, _ in bad])
            except Exception as e:   # shrinking is a convenience: never lose the violation over it
                ctx.notes.append("shrinking %s failed: %s" % (j["id"], e))
            shrunk += 1
        ctx.violation(name, {
            "id": j["id"], "pkgpath": j["pkgpath"], "files": small or files, "original_files": files if small else None,
            "failed": [{"oracle": k, "detail": dt} for k, dt in bad],
            "reported_by_unused_Analyzer": [ob for ob in o.get("objs", []) if ob[3] == "X"],
            "reported_by_staticcheck_binary": j.get("binrep"),
            "how_to_replay": "./check C07 --replay <this file>  (writes `files` into a scratch module, runs the real staticcheck binary "
                             "(-checks U1000, without and with tests) and harness/cmd/c07run (real unused.Analyzer) on it, removes the reported "
                             "objects and calls types.Check; by hand: staticcheck -checks U1000 ./..., delete what it reports, go vet)",
        }, text=text)
    if len(violations) > 12:
        ctx.notes.append("%d further failing programs not written as replays" % (len(violations) - 12))
    if not violations and (corr_diffs or not lean_ok):
        ctx.violation("correspondence.json", {
            "what": "a Lean model (colouring / AST-walk rules / U1000 merge and emission) no longer agrees with the real code, a certificate fails, or a proof "
                    "no longer checks; both oracles hold on every explored program (a violation search through the staticcheck binary over %d more "
                    "packages found nothing)" % searched,
            "diffs": corr_diffs[:20], "lean": lean_broke,
            "correspondence": "c07driver streams verdicts/refs/walk/emit vs unused.Debug dumps and staticcheck output; theorems " + ", ".join(THEOREMS),
        }, nofail=True)
    elif corr_diffs:
        ctx.notes.append("correspondence diffs (next to the violations): %s" % json.dumps(corr_diffs[:4])[:1500])
    return vlib.finish(ctx, "translation_validation")


KEY_CONST_TYPE = "const-implicit-type-across-groups"


def const_implicit_type_finding(files, objs, bad):
    """known finding const-implicit-type-across-groups: in a const block, a spec WITHOUT type and value that follows a blank
    line implicitly repeats `T = iota`-style type+value of an earlier spec of ANOTHER group (rule 10.1 groups constants by blank
    lines); when only that later constant is used, U1000 reports the type T (and the constants of the first group) although the
    used constant has type T, so deleting T breaks the package ("undefined: T"). Returns a description if EVERY failure of this
    package is exactly that, else None."""
    if not bad or any(not k.endswith("deletion") for k, _ in bad):
        return None
    errs = []
    for _, dt in bad:
        es = (dt or {}).get("errors") or []
        if not es:
            return None
        errs += es
    und = set()
    for e in errs:
        m = re.search(r": undefined: ([A-Za-z_]\w*)\s*$", e.strip())
        if not m:
            return None
        und.add(m.group(1))
    reported_types = set(ob[1] for ob in objs if ob[0] == "type" and ob[3] == "X")
    reported_consts = set(ob[1] for ob in objs if ob[0] == "const" and ob[3] == "X")
    witnesses = {}
    for text in files.values():
        text = strip_markers(text) if "strip_markers" in globals() else text
        for blk in re.finditer(r"^const \(\n(.*?)^\)", text, re.S | re.M):
            cur_t, broke = None, False
            for line in blk.group(1).split("\n"):
                if line.strip() == "":
                    broke = True
                    continue
                m = re.match(r"^\s*([A-Za-z_]\w*(?:\s*,\s*[A-Za-z_]\w*)*)\s+([A-Za-z_][\w.]*)\s*=", line)
                if m:
                    cur_t, broke = m.group(2), False
                    continue
                if re.match(r"^\s*[A-Za-z_]\w*(?:\s*,\s*[A-Za-z_]\w*)*\s*=", line):
                    cur_t, broke = None, False      # untyped explicit spec: nothing inherited from before
                    continue
                m = re.match(r"^\s*([A-Za-z_]\w*(?:\s*,\s*[A-Za-z_]\w*)*)\s*(//.*)?$", line)
                if m and cur_t and broke:
                    names = [x.strip() for x in m.group(1).split(",")]
                    kept = [n for n in names if n not in reported_consts and n != "_"]
                    if kept and cur_t in reported_types:
                        witnesses.setdefault(cur_t, []).extend(kept)
    if und and und <= set(witnesses):
        return "; ".join("type %s reported although the used constant(s) %s implicitly repeat `%s = …` across a blank line" %
                         (t, ",".join(sorted(set(witnesses[t]))), t) for t in sorted(und))
    return None



def strip_markers(s):
    return re.sub(M1 + r"\d+" + M2, "", s)


META = {
    "level": "translation_validation",
    "technique": "Lean 4 theorems over (a) the use/own graph model, (b) a model of the rules of unused's AST walk for a declaration language "
                 "(abstract package -> builder calls -> graph -> Results) and (c) a model of lintcmd's U1000 merge/emission; per-program validation of the real "
                 "analyzer (dumped graph = Lean Results, enforced certificate, walk model = real graph edge for edge on fragment packages, emission model = "
                 "lines of the real staticcheck binary) + compile-level oracles judged by go/types on the analyzer's Result and on the binary's output",
    "text": "Proved for all graphs: Used = root-reachability, closed under uses; a checked certificate implies no surviving reference dangles; unreachable "
            "unowned nodes are Unused; Quiet only below unused owners. Proved for every abstract package of the modelled fragment (package-level and "
            "function-local types/vars/consts incl. multi-name specs and shared multi-value initialisers, structs with embedded fields, interfaces, methods, "
            "method sets, implements): every identifier inside a Used declaration denotes a Used object; every name of `var a, b = f()` keeps the initialiser; "
            "a Used named type (also a local one) that implements a known interface keeps the implementing methods and the embedded fields they are promoted "
            "through; every unexported package-level func/type/var/stand-alone const that no identifier refers to is Unused. Proved for all result lists: "
            "the binary emits an object iff a variant has it Unused and no variant has a Used object with the same (package, file, line, name) key; emitted "
            "objects are Used in no variant; with injective keys every such object is emitted. Sampled: generated declaration graphs, fragment packages, "
            "corpus regressions, unused/testdata, repository packages; both bracket facts of the statement are checked with the type checker on the "
            "analyzer's Result and on the staticcheck binary's U1000 lines (without and with tests).",
    "note": "Trusted: Lean kernel; compiled c07driver; harness/cmd/c07run + internal/c07pkg (go/ast reduction, reference relation, go/types facts); python "
            "generators; go/types as oracle. Outside the walk model: generics, struct conversions, unkeyed/anonymous struct literals, directives, cgo, "
            "linkname, generated files, non-default Options — validated per program by the oracles only.",
    "design_ref": "DESIGN.md section 5, C07",
}
