"""C07 — U1000 is deletion-safe and catches every zero-reference object.

Lean: Verif/C07/{Graph,Lemmas,Theorems}.lean — the use/own graph, `color`,
`colorAndQuieten`, `Results` transliterated from unused.go; theorems used_closed,
deletion_safe_graph, zero_ref_reported, quiet_only_under_unused_owner (for all graphs).

Tie V (translation validation, per package): harness/cmd/c07run runs the REAL
unused.Analyzer in-process, dumps the real graph through unused.Debug and
  * the Lean model's Results on the dumped graph must equal the colours/Result of the real
    code (correspondence),
  * the hypotheses of the theorems are evaluated by the Lean driver on the dump: graph
    well-formedness, `refsCovered` for the reference relation computed independently from
    go/types (certificate of deletion_safe_graph), zero-reference nodes.
Oracle (the statement's own bracket, judged by go/types, not by unused's rules):
  (1) remove every reported object (and what is declared inside it), drop imports that
      became unused, types.Check must succeed;
  (2) every unexported package-level func / defined type / var / stand-alone const without
      any referring identifier must be in Result.Unused.
Programs: seeded declaration-graph generator (type-correct by construction, verified with
go/types), /repo/unused/testdata packages, packages of the repository (thorough: more).
"""
import json
import os
import re
import shutil
from concurrent.futures import ThreadPoolExecutor

import vlib

MODULES = ["Verif.C07.Theorems"]
THEOREMS = [
    "Verif.C07.Graph.used_iff_reachable",
    "Verif.C07.Graph.used_closed",
    "Verif.C07.Graph.deletion_safe_graph",
    "Verif.C07.Graph.zero_ref_reported",
    "Verif.C07.Graph.zero_ref_unowned_reported",
    "Verif.C07.Graph.quiet_only_under_unused_owner",
    "Verif.C07.Graph.quiet_has_unused_ancestor",
    "Verif.C07.Graph.results_partition",
    "Verif.C07.Graph.verdict_used_iff",
    "Verif.C07.Graph.verdict_quiet_iff",
    "Verif.C07.Graph.verdict_unused_iff",
]
CORPUS = os.path.join(vlib.VERIF, "corpus", "C07")
TESTDATA = "unused/testdata/src/example.com"
# repository packages that type-check from source with the stdlib source importer only
# (no third-party imports), small enough for the quick tier
REPO_PKGS_QUICK = ["go/ir/irutil", "analysis/facts/tokenfile", "go/gcsizes", "internal/sync", "printf"]
REPO_PKGS_THOROUGH = REPO_PKGS_QUICK + [
    "unused", "pattern", "lintcmd/version", "analysis/edit", "config", "go/types/typeutil", "knowledge",
    "analysis/facts/generated", "analysis/facts/deprecated", "structlayout", "internal/robustio", "internal/renameio",
    "go/ast/astutil", "analysis/lint", "sarif",
]


# ============================================================================ generator
class Ty:
    """a Go type of the generated package"""

    def __init__(self, expr, zero, kind, ref=None):
        self.expr = expr    # Go syntax
        self.zero = zero    # a Go expression of that type
        self.kind = kind    # int string struct ptr iface func named generic
        self.ref = ref      # the entity it refers to


class Struct:
    def __init__(self, name):
        self.name = name
        self.fields = []        # (name, Ty)
        self.emb_struct = None  # (Struct, byptr)
        self.emb_iface = None   # Iface
        self.methods = []       # (name, ptr_recv)
        self.twin_of = None
        self.derived_of = None  # `type d struct-of-other`: shares the field objects, no methods inherited
        self.tparams = False

    def all_fields(self):
        """(selector name) of fields reachable through promotion, incl. own"""
        out = [f for f, _ in self.fields]
        if self.emb_struct:
            out += self.emb_struct[0].all_fields()
            out.append(self.emb_struct[0].name)
        return out

    def mset(self, ptr):
        """method names in the method set of T (ptr=False) or *T (ptr=True)"""
        own = set(m for m, _ in self.methods)   # own methods shadow promoted ones, whatever their receiver
        s = set(m for m, p in self.methods if ptr or not p)
        if self.emb_iface:
            s |= self.emb_iface.all_methods() - own
        if self.emb_struct:
            es, byptr = self.emb_struct
            s |= es.mset(ptr or byptr) - own
        return s

    def callable(self):
        """methods callable on an addressable variable of type T"""
        return self.mset(True)


class Iface:
    def __init__(self, name):
        self.name = name
        self.methods = []   # names
        self.embeds = None  # Iface

    def all_methods(self):
        s = set(self.methods)
        if self.embeds:
            s |= self.embeds.all_methods()
        return s


class NamedInt:
    def __init__(self, name):
        self.name = name
        self.methods = []  # (name, ptr_recv)

    def mset(self, ptr):
        return set(m for m, p in self.methods if ptr or not p)


class Func:
    def __init__(self, name, params, result):
        self.name, self.params, self.result = name, params, result


POOL = ["m0", "m1", "m2", "m3", "M4", "M5"]


class PkgGen:
    """Seeded generator of one type-correct package without imports.  Every top-level
    declaration is one string in self.decls (so that declarations can be permuted and
    spread over files); every package-level name, field name and local name is unique
    except for the fields of convertible twin structs."""

    def __init__(self, rng, size, pkg="p"):
        self.r = rng
        self.pkg = pkg
        self.size = size
        self.n = 0
        self.decls = []
        self.structs, self.ifaces, self.nints, self.funcs = [], [], [], []
        self.vars, self.consts, self.aliases, self.generics, self.gfuncs, self.cfuncs = [], [], [], [], [], []
        self.hist = {}
        self.build()

    # ---- helpers
    def uid(self):
        self.n += 1
        return self.n

    def hit(self, k):
        self.hist[k] = self.hist.get(k, 0) + 1

    def name(self, prefix, exported_chance=(1, 4)):
        n = "%s%d" % (prefix, self.uid())
        if self.r.chance(*exported_chance):
            n = n[0].upper() + n[1:]
        return n

    T_INT = Ty("int", "0", "int")
    T_STR = Ty("string", '""', "string")

    def struct_ty(self, s):
        return Ty(s.name, s.name + "{}", "struct", s)

    def ptr_ty(self, s):
        return Ty("*" + s.name, "nil", "ptr", s)

    def iface_ty(self, i):
        return Ty(i.name, "nil", "iface", i)

    def nint_ty(self, n):
        return Ty(n.name, n.name + "(0)", "named", n)

    def any_type(self, allow_struct_value_below=None):
        """a random type; struct values only of structs with index < allow_struct_value_below"""
        r = self.r
        c = r.below(10)
        if c <= 1 or not self.structs:
            return self.T_INT if r.chance(2, 3) else self.T_STR
        if c <= 3:
            lim = len(self.structs) if allow_struct_value_below is None else allow_struct_value_below
            if lim > 0:
                return self.struct_ty(self.structs[r.below(lim)])
            return self.T_INT
        if c <= 5:
            return self.ptr_ty(r.choice(self.structs))
        if c == 6 and self.ifaces:
            return self.iface_ty(r.choice(self.ifaces))
        if c == 7 and self.nints:
            return self.nint_ty(r.choice(self.nints))
        if c == 8 and self.aliases:
            a, s = r.choice(self.aliases)
            lim = len(self.structs) if allow_struct_value_below is None else allow_struct_value_below
            if self.structs.index(s) < lim:
                return Ty(a, a + "{}", "struct", s)
            return Ty("*" + a, "nil", "ptr", s)
        if c == 9:
            return Ty("func()", "nil", "func")
        return self.T_INT

    # ---- declarations
    def build(self):
        r, size = self.r, self.size
        n_if = 1 + r.below(2 + size // 3)
        n_st = 2 + r.below(2 + size // 2)
        n_ni = r.below(3)
        # interfaces
        for _ in range(n_if):
            it = Iface(self.name("i", (1, 5)))
            k = 1 + r.below(3)
            it.methods = sorted(set(r.choice(POOL) for _ in range(k)))
            if self.ifaces and r.chance(1, 3):
                e = r.choice(self.ifaces)
                if not (set(it.methods) & e.all_methods()):
                    it.embeds = e
                    self.hit("iface_embeds_iface")
            self.ifaces.append(it)
        # named ints
        for _ in range(n_ni):
            ni = NamedInt(self.name("n"))
            for m in sorted(set(r.choice(POOL) for _ in range(r.below(3)))):
                ni.methods.append((m, r.chance(1, 3)))
            self.nints.append(ni)
        # structs
        for si in range(n_st):
            s = Struct(self.name("t"))
            if self.structs and r.chance(1, 5):
                tw = r.choice(self.structs)
                if not tw.tparams:
                    if r.chance(1, 3):
                        s.derived_of = tw
                        self.hit("derived_struct")
                    else:
                        s.twin_of = tw
                        s.fields = list(tw.fields)
                        s.emb_struct, s.emb_iface = tw.emb_struct, tw.emb_iface
                        self.hit("twin_struct")
            if not s.twin_of and not s.derived_of:
                for _ in range(r.below(4)):
                    fname = self.name("f", (1, 6))
                    if r.chance(1, 8):
                        q = "q%d" % self.uid()
                        inner = self.any_type(allow_struct_value_below=si)
                        s.fields.append((fname, Ty("struct{ %s %s }" % (q, inner.expr), "struct{ %s %s }{}" % (q, inner.expr), "anon")))
                        self.hit("anon_struct_field")
                    else:
                        s.fields.append((fname, self.any_type(allow_struct_value_below=si)))
                if si > 0 and r.chance(2, 5):
                    e = self.structs[r.below(si)]
                    if not e.derived_of:
                        s.emb_struct = (e, r.chance(1, 2))
                        self.hit("embedded_struct")
                if r.chance(1, 4):
                    e = r.choice(self.ifaces)
                    taken = s.emb_struct[0].mset(True) if s.emb_struct else set()
                    if not (e.all_methods() & taken):
                        s.emb_iface = e
                        self.hit("embedded_iface")
            base = s.derived_of
            if base is not None:
                # `type d t`: same underlying struct => same field objects, promoted methods of embedded fields
                s.fields, s.emb_struct, s.emb_iface = base.fields, base.emb_struct, base.emb_iface
            for m in sorted(set(r.choice(POOL) for _ in range(r.below(4)))):
                s.methods.append((m, r.chance(1, 2)))
            self.structs.append(s)
        # aliases
        for _ in range(r.below(3)):
            s = r.choice(self.structs)
            self.aliases.append((self.name("a"), s))
            self.hit("alias")
        # emit type declarations
        for it in self.ifaces:
            body = ["\t%s()" % m for m in it.methods]
            if it.embeds:
                body.insert(0, "\t" + it.embeds.name)
            self.decls.append("type %s interface {\n%s\n}" % (it.name, "\n".join(body)))
        for ni in self.nints:
            self.decls.append("type %s int" % ni.name)
        for s in self.structs:
            if s.derived_of:
                self.decls.append("type %s %s" % (s.name, s.derived_of.name))
                continue
            body = []
            if s.emb_struct:
                body.append("\t%s%s" % ("*" if s.emb_struct[1] else "", s.emb_struct[0].name))
            if s.emb_iface:
                body.append("\t" + s.emb_iface.name)
            for f, t in s.fields:
                body.append("\t%s %s" % (f, t.expr))
            self.decls.append("type %s struct {\n%s\n}" % (s.name, "\n".join(body)) if body else "type %s struct{}" % s.name)
        for a, s in self.aliases:
            self.decls.append("type %s = %s" % (a, s.name))
        # generics
        for _ in range(r.below(3)):
            g = self.name("g")
            gf = self.name("gf", (1, 6))
            gm = self.name("gm", (1, 3))
            self.generics.append((g, gf, gm))
            self.decls.append("type %s[T any] struct {\n\t%s T\n}" % (g, gf))
            self.decls.append("func (x %s[T]) %s() T { return x.%s }" % (g, gm, gf))
            self.hit("generic_type")
        for _ in range(r.below(3)):
            f = self.name("gfn")
            self.gfuncs.append(f)
            self.decls.append("func %s[T any](x T) T { return x }" % f)
            self.hit("generic_func")
        for _ in range(r.below(2)):
            it = r.choice(self.ifaces)
            f = self.name("gcn")
            m = sorted(it.all_methods())[0]
            self.cfuncs.append((f, it))
            self.decls.append("func %s[T %s](x T) { x.%s() }" % (f, it.name, m))
            self.hit("generic_constraint_func")
        # consts
        for _ in range(r.below(3 + size // 4)):
            c = r.below(4)
            if c == 0:
                n = self.name("cs")
                self.consts.append((n, self.T_INT, True))
                self.decls.append("const %s = %d" % (n, 1 + r.below(5)))
                self.hit("const_standalone")
            elif c == 1:
                n = self.name("cs")
                self.consts.append((n, self.T_STR, True))
                self.decls.append('const %s = "s"' % n)
                self.hit("const_standalone")
            elif c == 2 or not self.nints:
                names = [self.name("ci", (1, 8)) for _ in range(2 + r.below(3))]
                lines = ["\t%s = iota" % names[0]] + ["\t" + x for x in names[1:]]
                if r.chance(1, 3):
                    # second group (separated by a blank line) that repeats the first group's expression
                    more = [self.name("ci", (1, 8)) for _ in range(1 + r.below(2))]
                    lines += [""] + ["\t" + x for x in more]
                    names += more
                    self.hit("const_two_groups")
                for x in names:
                    self.consts.append((x, self.T_INT, False))
                self.decls.append("const (\n%s\n)" % "\n".join(lines))
                self.hit("const_iota_group")
            else:
                ni = r.choice(self.nints)
                names = [self.name("ct", (1, 8)) for _ in range(2 + r.below(2))]
                lines = ["\t%s %s = iota" % (names[0], ni.name)] + ["\t" + x for x in names[1:]]
                for x in names:
                    self.consts.append((x, self.nint_ty(ni), False))
                self.decls.append("const (\n%s\n)" % "\n".join(lines))
                self.hit("const_typed_group")
        # function signatures first (bodies may call any function)
        n_fn = 3 + r.below(3 + size)
        for k in range(n_fn):
            nm = self.name("fn", (1, 3) if k else (1, 1))
            params = [("p%d" % self.uid(), self.any_type()) for _ in range(r.below(3))]
            res = self.any_type() if r.chance(1, 3) else None
            self.funcs.append(Func(nm, params, res))
        # vars
        for _ in range(r.below(3 + size // 3)):
            n = self.name("v", (1, 5))
            t = self.any_type()
            if r.chance(1, 3):
                # initialiser function of its own (never refers to variables: no initialisation cycle)
                mk = "mk%d" % self.uid()
                inner = []
                for _ in range(r.below(3)):
                    st = self.stmt_kind(r.choice([5, 6, 7, 20]), (), None, 2)
                    inner += st or []
                self.decls.append("func %s() %s {\n%s\treturn %s\n}" % (mk, t.expr, "".join("\t" + x + "\n" for x in inner), t.zero))
                self.decls.append("var %s = %s()" % (n, mk))
                self.vars.append((n, t))
                self.hit("var_init_call")
            else:
                self.decls.append("var %s %s" % (n, t.expr) if r.chance(1, 2) else "var %s %s = %s" % (n, t.expr, t.zero))
                self.vars.append((n, t))
        # methods
        for s in self.structs:
            for m, p in s.methods:
                recv = "r%d" % self.uid()
                self.decls.append("func (%s %s%s) %s() {\n%s}" % (recv, "*" if p else "", s.name, m, self.body(2, recv_of=(recv, s))))
        for ni in self.nints:
            for m, p in ni.methods:
                recv = "r%d" % self.uid()
                self.decls.append("func (%s %s%s) %s() {\n%s}" % (recv, "*" if p else "", ni.name, m, self.body(1)))
        # functions
        for f in self.funcs:
            ps = ", ".join("%s %s" % (p, t.expr) for p, t in f.params)
            res = " " + f.result.expr if f.result else ""
            body = self.body(1 + self.r.below(4), params=f.params)
            if f.result:
                same = [g for g in self.funcs if g.result is not None and g.result.expr == f.result.expr and g is not f]
                if same and self.r.chance(1, 3):
                    body += "\treturn %s\n" % self.call(self.r.choice(same))
                    self.hit("return_call")
                else:
                    body += "\treturn %s\n" % f.result.zero
            self.decls.append("func %s(%s)%s {\n%s}" % (f.name, ps, res, body))
        if self.r.chance(1, 3):
            self.decls.append("func init() {\n%s}" % self.body(2))
            self.hit("init_func")

    def call(self, f):
        return "%s(%s)" % (f.name, ", ".join(t.zero for _, t in f.params))

    def local(self):
        return "l%d" % self.uid()

    def implementers(self, it):
        """(zero expression, description) of concrete values assignable to interface it"""
        need = it.all_methods()
        out = []
        for s in self.structs:
            if s.tparams:
                continue
            if need <= s.mset(False):
                out.append(s.name + "{}")
            if need <= s.mset(True):
                out.append("&" + s.name + "{}")
        for ni in self.nints:
            if need <= ni.mset(False):
                out.append(ni.name + "(0)")
            if need <= ni.mset(True):
                out.append("new(%s)" % ni.name)
        return out

    def body(self, k, params=(), recv_of=None, depth=0):
        out = []
        for _ in range(k):
            out += self.stmt(params, recv_of, depth)
        return "".join("\t" + s + "\n" for s in out)

    def stmt(self, params, recv_of, depth):
        r = self.r
        for _ in range(8):
            c = r.below(26)
            s = self.stmt_kind(c, params, recv_of, depth)
            if s is not None:
                return s
        return ["_ = 0"]

    def stmt_kind(self, c, params, recv_of, depth):
        r = self.r
        if c <= 3 and self.funcs:   # call / function value
            f = r.choice(self.funcs)
            call = self.call(f)
            k = r.below(5)
            self.hit("stmt_call_%d" % k)
            if k == 0:
                return ["%s%s" % ("_ = " if f.result else "", call)]
            if k == 1:
                return ["defer " + call]
            if k == 2:
                return ["go " + call]
            if k == 3:
                return ["_ = " + f.name]
            l = self.local()
            return ["%s := %s" % (l, f.name), "_ = %s" % l]
        if c == 4 and self.vars:
            n, t = r.choice(self.vars)
            k = r.below(4)
            self.hit("stmt_var_%d" % k)
            if k <= 1:
                return ["_ = " + n]
            if k == 2:
                return ["%s = %s" % (n, t.zero)]   # pure store
            if t.kind == "int":
                return [n + "++"]
            return ["%s = %s" % (n, t.zero)]
        if c == 5 and self.consts:
            n, t, _ = r.choice(self.consts)
            self.hit("stmt_const")
            if t.kind == "int" and r.chance(1, 2):
                l = self.local()
                return ["var %s [%s + 1]int" % (l, n), "_ = " + l]
            return ["_ = " + n]
        if c in (6, 7) and self.structs:   # type use
            t = self.any_type()
            k = r.below(8)
            self.hit("stmt_type_%d" % k)
            l = self.local()
            if k == 0:
                return ["var %s %s" % (l, t.expr), "_ = " + l]
            if k == 1:
                return ["_ = new(%s)" % t.expr]
            if k == 2:
                return ["_ = []%s{}" % t.expr]
            if k == 3:
                return ["_ = map[string]%s{}" % t.expr]
            if k == 4:
                return ["_ = (*%s)(nil)" % t.expr]
            if k == 5:
                return ["_ = func(%s) {}" % t.expr]
            if k == 6:
                lt = "lt%d" % self.uid()
                lf = "lf%d" % self.uid()
                use = ["_ = %s{}" % lt] if r.chance(1, 2) else []
                return ["type %s struct{ %s %s }" % (lt, lf, t.expr)] + use
            return ["var %s %s = %s" % (l, t.expr, t.zero), "_ = " + l]
        if c in (8, 9) and self.structs:   # fields
            s = r.choice(self.structs)
            fs = s.all_fields()
            if not fs:
                return None
            own = dict(s.fields)
            f = r.choice(fs)
            l = self.local()
            k = r.below(5)
            self.hit("stmt_field_%d" % k)
            if k == 0:
                return ["var %s %s" % (l, s.name), "_ = %s.%s" % (l, f)]
            if k == 1 and f in own:
                return ["var %s %s" % (l, s.name), "%s.%s = %s" % (l, f, own[f].zero)]
            if k == 2 and f in own:
                return ["_ = %s{%s: %s}" % (s.name, f, own[f].zero)]
            if k == 3 and not s.derived_of or k == 3:
                vals = []
                if s.emb_struct:
                    vals.append("nil" if s.emb_struct[1] else s.emb_struct[0].name + "{}")
                if s.emb_iface:
                    vals.append("nil")
                vals += [t.zero for _, t in s.fields]
                if not vals:
                    return None
                return ["_ = %s{%s}" % (s.name, ", ".join(vals))]
            return ["var %s %s" % (l, s.name), "_ = &%s.%s" % (l, f)]
        if c in (10, 11, 12) and self.structs:   # methods
            s = r.choice(self.structs)
            ms = sorted(s.callable())
            if not ms:
                return None
            m = r.choice(ms)
            l = self.local()
            k = r.below(5)
            self.hit("stmt_method_%d" % k)
            # a nil embedded pointer/interface is fine: nothing is executed
            if k == 0:
                return ["var %s %s" % (l, s.name), "%s.%s()" % (l, m)]
            if k == 1:
                return ["var %s %s" % (l, s.name), "_ = %s.%s" % (l, m)]   # method value
            if k == 2:
                if m in s.mset(False):
                    return ["_ = %s.%s" % (s.name, m)]   # method expression
                return ["_ = (*%s).%s" % (s.name, m)]
            if k == 3:
                return ["var %s %s" % (l, s.name), "defer %s.%s()" % (l, m)]
            return ["%s := &%s{}" % (l, s.name), "%s.%s()" % (l, m)]
        if c in (13, 14) and self.ifaces:   # interface satisfaction
            it = r.choice(self.ifaces)
            impl = self.implementers(it)
            l = self.local()
            m = r.choice(sorted(it.all_methods()))
            k = r.below(5)
            self.hit("stmt_iface_%d" % k)
            if k == 0 and impl:
                return ["var %s %s = %s" % (l, it.name, r.choice(impl)), "%s.%s()" % (l, m)]
            if k == 1 and impl:
                return ["var %s %s = %s" % (l, it.name, r.choice(impl)), "_ = " + l]
            if k == 2:
                return ["var %s any" % l, "_, _ = %s.(%s)" % (l, it.name)]
            if k == 3:
                return ["var %s any" % l, "switch %s.(type) {" % l, "case %s:" % it.name, "}"]
            return ["var %s %s" % (l, it.name), "_ = %s.%s" % (l, m)]
        if c == 15:   # struct conversions
            cands = [s for s in self.structs if s.twin_of or s.derived_of]
            if not cands:
                return None
            s = r.choice(cands)
            o = s.twin_of or s.derived_of
            a, b = (s, o) if r.chance(1, 2) else (o, s)
            l = self.local()
            k = r.below(3)
            self.hit("stmt_conv_%d" % k)
            if k == 0:
                return ["_ = %s(%s{})" % (a.name, b.name)]
            if k == 1:
                return ["var %s %s" % (l, b.name), "_ = (*%s)(&%s)" % (a.name, l)]
            return ["var %s %s" % (l, b.name), "_ = %s(%s)" % (a.name, l)]
        if c == 16 and (self.generics or self.gfuncs or self.cfuncs):
            k = r.below(4)
            l = self.local()
            t = self.any_type()
            self.hit("stmt_generic_%d" % k)
            if k == 0 and self.gfuncs:
                f = r.choice(self.gfuncs)
                return ["_ = %s[%s](%s)" % (f, t.expr, t.zero)] if r.chance(1, 2) and t.zero != "nil" else ["_ = %s[%s](%s)" % (f, t.expr, t.zero)]
            if k == 1 and self.generics:
                g, gf, gm = r.choice(self.generics)
                return ["var %s %s[%s]" % (l, g, t.expr), "_ = %s.%s" % (l, gf)]
            if k == 2 and self.generics:
                g, gf, gm = r.choice(self.generics)
                return ["var %s %s[%s]" % (l, g, t.expr), "_ = %s.%s()" % (l, gm)]
            if k == 3 and self.cfuncs:
                f, it = r.choice(self.cfuncs)
                impl = [x for x in self.implementers(it)]
                if impl:
                    return ["%s(%s)" % (f, r.choice(impl))]
            return None
        if c in (17, 18) and depth < 2:   # closures
            inner = self.stmt(params, recv_of, depth + 1)
            k = r.below(4)
            self.hit("stmt_closure_%d" % k)
            body = "; ".join(x for x in inner)
            nl = any(x.startswith(("switch", "case", "}")) or x.endswith("{") for x in inner)
            if nl:
                body = "\n".join(inner) + "\n"
            if k == 0:
                return ["func() { %s }()" % body]
            if k == 1:
                return ["defer func() { %s }()" % body]
            if k == 2:
                l = self.local()
                return ["%s := func() { %s }" % (l, body), "%s()" % l]
            return ["_ = func() { %s }" % body]
        if c == 19 and depth < 2:   # control flow
            inner = self.stmt(params, recv_of, depth + 1)
            k = r.below(3)
            self.hit("stmt_ctrl_%d" % k)
            if k == 0:
                return ["if true {"] + inner + ["}"]
            if k == 1:
                i = self.local()
                return ["for %s := 0; %s < 1; %s++ {" % (i, i, i)] + inner + ["}"]
            return ["for range []int{} {"] + inner + ["}"]
        if c == 20:   # local const / type, possibly unused
            lc = "lc%d" % self.uid()
            self.hit("stmt_local_const")
            return ["const %s = 1" % lc] + (["_ = " + lc] if r.chance(1, 2) else [])
        if c == 21 and params:
            p, t = r.choice(list(params))
            self.hit("stmt_param")
            return ["_ = " + p]
        if c == 22 and recv_of:
            recv, s = recv_of
            fs = s.all_fields()
            self.hit("stmt_recv")
            if fs:
                return ["_ = %s.%s" % (recv, r.choice(fs))]
            return ["_ = " + recv]
        if c == 23 and self.aliases:
            a, s = r.choice(self.aliases)
            l = self.local()
            self.hit("stmt_alias")
            return ["var %s %s" % (l, a), "_ = " + l]
        if c == 24 and self.nints:
            ni = r.choice(self.nints)
            ms = sorted(ni.mset(True))
            l = self.local()
            self.hit("stmt_namedint")
            if ms:
                return ["var %s %s" % (l, ni.name), "%s.%s()" % (l, r.choice(ms))]
            return ["var %s %s" % (l, ni.name), "_ = " + l]
        if c == 25 and self.consts:
            cs = [x for x in self.consts if x[1].kind == "named"]
            if cs:
                n, t, _ = r.choice(cs)
                self.hit("stmt_typed_const")
                return ["_ = %s + %s" % (t.zero, n)]
        return None

    # ---- output
    def files(self, nfiles=1, order=None, names=None):
        """{filename: text}; `order` permutes the declarations, which are dealt round-robin
        into nfiles files"""
        decls = list(self.decls) if order is None else [self.decls[i] for i in order]
        names = names or ["f%d.go" % i for i in range(nfiles)]
        out = {}
        for i, n in enumerate(names):
            part = decls[i::nfiles]
            out[n] = "package %s\n\n%s\n" % (self.pkg, "\n\n".join(part))
        return out


def write_pkg(d, files):
    os.makedirs(d, exist_ok=True)
    for n, t in files.items():
        with open(os.path.join(d, n), "w") as f:
            f.write(t)
    return [os.path.join(d, n) for n in files]


# ============================================================================ running
def run_jobs(ctx, binary, jobs, extra_env=None, nproc=None, timeout=1500):
    """Distribute job dicts over several c07run processes; returns {id: out}."""
    nproc = nproc or max(1, min(vlib.NCPU, 12, len(jobs)))
    chunks = [jobs[i::nproc] for i in range(nproc)]
    env = vlib.go_env(extra_env or {})

    def one(chunk):
        if not chunk:
            return []
        inp = "".join(json.dumps(j) + "\n" for j in chunk)
        rc, so, se = vlib.run([binary], input=inp, env=env, timeout=timeout)
        if rc != 0:
            raise vlib.HarnessError("c07run exited %d: %s" % (rc, se[-2000:]))
        outs = [json.loads(l) for l in so.splitlines() if l.strip()]
        if len(outs) != len(chunk):
            raise vlib.HarnessError("c07run: %d outputs for %d jobs: %s" % (len(outs), len(chunk), se[-1000:]))
        return outs

    res = {}
    with ThreadPoolExecutor(max_workers=nproc) as ex:
        for outs in ex.map(one, chunks):
            for o in outs:
                res[o["id"]] = o
    return res


def testdata_jobs(want, with_tests=False):
    root = os.path.join(vlib.REPO, TESTDATA)
    jobs = []
    for d in sorted(os.listdir(root)):
        p = os.path.join(root, d)
        if not os.path.isdir(p):
            continue
        fs = sorted(f for f in os.listdir(p) if f.endswith(".go"))
        plain = [os.path.join(p, f) for f in fs if not f.endswith("_test.go")]
        if any('import "C"' in open(f).read() for f in plain):
            continue
        if plain:
            jobs.append({"id": "testdata/" + d, "files": plain, "pkgpath": "example.com/" + d, "want": want})
        tests = [os.path.join(p, f) for f in fs if f.endswith("_test.go")]
        if with_tests and tests:
            pk = set(re.search(r"^package (\w+)", open(f).read(), re.M).group(1) for f in tests)
            if len(pk) == 1 and not list(pk)[0].endswith("_test"):
                jobs.append({"id": "testdata/" + d + "[test]", "files": plain + tests, "pkgpath": "example.com/" + d, "want": want})
    return jobs


def repo_jobs(pkgs, want):
    jobs = []
    for rel in pkgs:
        p = os.path.join(vlib.REPO, rel)
        if not os.path.isdir(p):
            continue
        fs = sorted(f for f in os.listdir(p) if f.endswith(".go") and not f.endswith("_test.go"))
        files = []
        for f in fs:
            txt = open(os.path.join(p, f)).read()
            m = re.search(r"^//go:build (.*)$", txt, re.M)
            if m and not build_ok(m.group(1)):
                continue
            files.append(os.path.join(p, f))
        if files:
            jobs.append({"id": "repo/" + rel, "files": files, "pkgpath": "honnef.co/go/tools/" + rel, "want": want})
    return jobs


def build_ok(expr):
    """tiny evaluator of //go:build lines for linux/amd64, tag verif off"""
    toks = re.findall(r"[\w.]+|&&|\|\||!|\(|\)", expr)
    true = {"linux", "amd64", "unix", "gc"}

    def val(t):
        return t in true or re.fullmatch(r"go1\.\d+", t) is not None

    py = " ".join({"&&": "and", "||": "or", "!": "not "}.get(t, t if t in "()" else str(val(t))) for t in toks)
    try:
        return bool(eval(py))
    except Exception:
        return False


WANT_FULL = ["graph", "objs", "zeroref", "refs", "del"]


def classify(ctx, o, src_of=None):
    """Evaluate the oracles on one c07run output. Returns list of (kind, detail)."""
    bad = []
    d = o.get("del")
    if d is not None:
        if d.get("unmapped"):
            bad.append(("unmapped", d["unmapped"]))
        if not d["ok"]:
            bad.append(("deletion", {"errors": d.get("errors"), "reduced_package": d.get("src")}))
    z = o.get("zeroref")
    if z is not None and z.get("missing"):
        bad.append(("zeroref", z["missing"]))
    return bad


def run(ctx):
    lean_ok, lean_broke = vlib.std_lean_phase(ctx, MODULES, THEOREMS)
    binary = vlib.build_harness(ctx, "c07run")
    rng = vlib.SplitMix(ctx.seed).fork("c07")
    quick = ctx.quick
    n_gen = 220 if quick else 3000

    jobs = []
    srcs = {}      # id -> {file: text}   (for replays)
    meta = {}      # id -> generator histogram
    # --- replay
    if ctx.replay:
        rp = json.load(open(ctx.replay))
        for case in rp.get("cases", [rp]):
            if "files" not in case:
                continue
            d = ctx.path("replay", case["id"].replace("/", "_"), "x")
            files = write_pkg(os.path.dirname(d), case["files"])
            jobs.append({"id": case["id"], "files": sorted(files), "pkgpath": case.get("pkgpath", "example.com/replay"), "want": WANT_FULL})
            srcs[case["id"]] = case["files"]
    else:
        # --- corpus
        if os.path.isdir(CORPUS):
            for d in sorted(os.listdir(CORPUS)):
                p = os.path.join(CORPUS, d)
                if os.path.isdir(p):
                    fs = sorted(os.path.join(p, f) for f in os.listdir(p) if f.endswith(".go"))
                    if fs:
                        jobs.append({"id": "corpus/" + d, "files": fs, "pkgpath": "example.com/" + d, "want": WANT_FULL})
        jobs += testdata_jobs(WANT_FULL, with_tests=True)
        jobs += repo_jobs(REPO_PKGS_QUICK if quick else REPO_PKGS_THOROUGH, WANT_FULL)
        # --- generated
        hist = {}
        for i in range(n_gen):
            g = PkgGen(rng.fork("pkg%d" % i), size=2 + i % 9)
            nfiles = 1 + (i % 3)
            files = g.files(nfiles)
            pid = "gen/%d" % i
            fl = write_pkg(ctx.path("gen", "p%d" % i, "x")[:-2], files)
            jobs.append({"id": pid, "files": sorted(fl), "pkgpath": "example.com/gen/p%d" % i, "want": WANT_FULL})
            srcs[pid] = files
            for k, v in g.hist.items():
                hist[k] = hist.get(k, 0) + v
        ctx.coverage["generator_histogram"] = dict(sorted(hist.items()))

    gopath_env = {"GOPATH": os.path.join(vlib.REPO, "unused", "testdata"), "GO111MODULE": "off"}
    # generated packages import nothing: run them apart from the ones needing the source importer
    light = [j for j in jobs if j["id"].startswith(("gen/", "corpus/", "replay"))]
    heavy = [j for j in jobs if j not in light]
    outs = {}
    with ThreadPoolExecutor(max_workers=2) as ex:
        fa = ex.submit(run_jobs, ctx, binary, light, None, 8)
        fb = ex.submit(run_jobs, ctx, binary, heavy, gopath_env, 8)
        outs.update(fa.result())
        outs.update(fb.result())

    # ---- generator sanity, harness errors
    gen_rejected = []
    loaded = []
    for j in jobs:
        o = outs[j["id"]]
        if o.get("type_errs"):
            if j["id"].startswith("gen/"):
                gen_rejected.append((j["id"], o["type_errs"][:2]))
            else:
                ctx.notes.append("skipped %s: does not type-check in the harness loader: %s" % (j["id"], o["type_errs"][0]))
            continue
        if o.get("err"):
            # unused itself panicked or the dump was unreadable: on a package that type-checks this is
            # not a C07 matter (C03 owns totality) but we must not silently lose it
            raise vlib.HarnessError("c07run failed on %s: %s" % (j["id"], o["err"]))
        loaded.append(j)
    if gen_rejected:
        raise vlib.HarnessError("generator produced %d packages the type checker rejects, e.g. %s" % (len(gen_rejected), gen_rejected[:2]))

    # ---- Lean: Results on the dumped graph, certificate, hypotheses
    lines = []
    big = 0
    for j in loaded:
        o = outs[j["id"]]
        lines.append("verdicts %d %s %s" % (o["n"], o.get("uses") or "-", o.get("owns") or "-"))
        lines.append("refs %d %s %s" % (o["n"], o.get("uses") or "-", o.get("refs") or "-"))
    model = vlib.run_model(ctx, "C07", lines)

    corr_diffs = []
    uncovered = {}
    n_uncovered = 0
    zr_hyp = 0
    programs = 0
    nontrivial = set()
    violations = []
    samples = []
    sizes = {"nodes": 0, "use_edges": 0, "own_edges": 0, "refs": 0, "reported": 0, "blanked_writes": 0, "removed_imports": 0,
             "zero_ref_candidates": 0}
    by_source = {}
    for k, j in enumerate(loaded):
        o = outs[j["id"]]
        mv, mr = model[2 * k], model[2 * k + 1]
        programs += 1
        src = j["id"].split("/")[0]
        by_source[src] = by_source.get(src, 0) + 1
        if mv == "bad-op" or mr == "bad-op":
            raise vlib.HarnessError("model rejected the dump of %s" % j["id"])
        if o.get("dot_vs_result") != "ok":
            corr_diffs.append({"id": j["id"], "what": "Result lists are not the partition of nodes[1:] by the dumped colours", "detail": o.get("dot_vs_result")})
        if mv.startswith("wf=0"):
            corr_diffs.append({"id": j["id"], "what": "dumped graph is not well-formed (edge to a missing node)"})
        else:
            parts = mv.split()
            mcol = parts[1] if o["n"] > 1 and len(parts) == 3 else ""
            if mcol != (o.get("colors") or ""):
                corr_diffs.append({"id": j["id"], "what": "Lean Results differ from the real colouring",
                                   "model": mcol[:200], "impl": (o.get("colors") or "")[:200]})
            zk, zok = parts[-1][3:].split("/")
            zr_hyp += int(zk)
            if zk != zok:
                corr_diffs.append({"id": j["id"], "what": "zero_ref_unowned_reported hypotheses met but node not Unused in the model", "zr": parts[-1]})
        if mr.startswith("uncovered"):
            idx = [int(x) for x in mr.split()[1].split(",")]
            n_uncovered += len(idx)
            uncovered[j["id"]] = [o["ref_desc"][i] for i in idx[:6]]
        c = o["counts"]
        sizes["nodes"] += o["n"]
        sizes["use_edges"] += c["uses"]
        sizes["own_edges"] += c["owns"]
        sizes["refs"] += (o.get("ref_stats") or {}).get("refs", 0)
        d = o.get("del") or {}
        sizes["reported"] += d.get("reported", 0)
        sizes["blanked_writes"] += d.get("blanked_writes", 0)
        sizes["removed_imports"] += d.get("removed_imports", 0)
        sizes["zero_ref_candidates"] += (o.get("zeroref") or {}).get("candidates", 0)
        used_unexp = sum(1 for ob in o.get("objs", []) if ob[3] == "U" and ob[1][:1].islower())
        if c["unused"] >= 1 and used_unexp >= 1:
            nontrivial.add(j["id"])
        bad = classify(ctx, o)
        if bad:
            violations.append((j, o, bad))
        if len(samples) < 6 and (k % max(1, len(loaded) // 6) == 0):
            samples.append({"id": j["id"], "nodes": o["n"], "counts": c, "reported": [ob[0] + " " + ob[1] for ob in o.get("objs", []) if ob[3] == "X"][:8],
                            "deletion_ok": d.get("ok"), "zero_ref": o.get("zeroref"), "lean": mv[:80], "certificate": mr[:60]})

    ctx.coverage.update({
        "programs": programs,
        "programs_by_source": by_source,
        "evaluations": programs * 4,
        "disagreements_checked": programs,
        "distinct_nontrivial": len(nontrivial),
        "rule": "one program = one package run through the real unused.Analyzer; per program: Lean Results vs real colouring, "
                "certificate refsCovered, deletion oracle (types.Check of the reduced package), zero-reference oracle; "
                "non-trivial = package with >=1 reported object and >=1 used unexported object",
        "sizes": sizes,
        "zero_ref_hypothesis_nodes": zr_hyp,
        "certificate": {"references_not_covered_by_a_use_path": n_uncovered, "examples": dict(list(uncovered.items())[:8])},
        "samples": samples,
    })
    ctx.assumptions += [
        "go/types (types.Check) is the judge of 'still type-checks'; go/parser, go/printer are trusted for the reduction",
        "the AST walk of unused (entry/decl/stmt/read/write/namedType, implements.go, runtime.go) is NOT modelled: it is validated per program (translation validation), the quantifier over programs is sampled",
        "reading: removing a reported variable removes the pure stores into it (x = e becomes _ = e, x++ disappears) — rule 9.7 reports write-only variables by design",
        "Go's quieten closure has no visited bit; the model's has — identical whenever the Go code terminates (owns is a containment forest)",
        "compiled Lean driver evaluates Results/refsCovered on dumps (kernel-checked theorems, compiled evaluation)",
    ]

    # ---- report
    known = vlib.load_known_findings("C07")
    for (j, o, bad) in violations[:12]:
        files = srcs.get(j["id"])
        if files is None:
            files = {os.path.basename(f): open(f).read() for f in j["files"]}
        kinds = "+".join(k for k, _ in bad)
        name = "c07_%s_%s.json" % (kinds, j["id"].replace("/", "_").replace("[", "_").replace("]", ""))
        text = "C07: %s on %s: %s" % (kinds, j["id"], json.dumps(bad[0][1])[:600])
        ctx.violation(name, {
            "id": j["id"], "pkgpath": j["pkgpath"], "files": files,
            "failed": [{"oracle": k, "detail": dt} for k, dt in bad],
            "reported_by_U1000": [ob for ob in o.get("objs", []) if ob[3] == "X"],
            "how_to_replay": "./check C07 --replay <this file>  (writes `files` to a scratch dir, runs harness/cmd/c07run on it: real unused.Analyzer, "
                             "then removes the reported objects and calls types.Check; or by hand: staticcheck -checks U1000 on the files, delete what it reports, go vet)",
        }, text=text)
    if len(violations) > 12:
        ctx.notes.append("%d further failing programs not written as replays" % (len(violations) - 12))
    if not violations and (corr_diffs or not lean_ok):
        ctx.violation("correspondence.json", {
            "what": "the Lean model of color/colorAndQuieten/Results no longer agrees with the real code on dumped graphs, or a proof no longer checks; "
                    "both oracles hold on every explored program",
            "diffs": corr_diffs[:20], "lean": lean_broke,
            "correspondence": "c07driver `verdicts` stream vs colours printed by (*SerializedGraph).Dot; theorems " + ", ".join(THEOREMS),
        }, nofail=True)
    elif corr_diffs:
        ctx.notes.append("correspondence diffs: %s" % corr_diffs[:3])
    return vlib.finish(ctx, "translation_validation")


META = {
    "level": "translation_validation",
    "technique": "Lean 4 theorems over the use/own graph model + per-program validation of the real unused analyzer's dumped graph (Lean Results, proved certificate check) + compile-level oracles judged by go/types",
    "text": "For all graphs: Used is exactly root-reachability over uses, closed under uses; a checked certificate (every reference covered by a use-path from an enclosing declaration) implies no surviving reference dangles after deleting everything not Used; nodes without incoming use edge and without unseen owner are Unused; Quiet only below non-used owners. Per program (sampled: generated declaration graphs, unused/testdata, repository packages) the real analyzer's graph is dumped, the Lean Results are compared with the real Result, the certificate and hypotheses are evaluated, and the statement's two bracket facts are checked directly with the type checker.",
    "note": "Trusted: Lean kernel; compiled c07driver; harness/cmd/c07run + internal/c07pkg (go/ast reduction, reference relation); go/types as oracle. The AST walk that builds the graph is validated per program, not proved.",
    "design_ref": "DESIGN.md section 5, C07",
}
