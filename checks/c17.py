"""C17 — U1000 verdicts are order-independent, monotone, merged over variants.

Lean (Verif/C17/{Build,Model,Merge,Rule65,Theorems,TheoremsMerge,TheoremsRule65}.lean, on the
graph of Verif/C07/Graph.lean):
  * the verdict of a node is a function of root-reachability over `uses` and of the
    "below an unseen owner" relation only (results_perm_invariant, for all graphs and all
    renumberings / edge orders / multiplicities),
  * more use edges never shrink Used (used_mono_embed, add_uses_monotone),
  * the graph builder (graph.node/newNode/addEdge/addUse/addOwned/use/see) as a fold over an
    event list: the verdict of every object depends only on the SET of events
    (build_perm_invariant), and appending use events keeps Used objects Used,
  * the variant merge of lintcmd.lint (reported_iff, merge_order_independent),
  * the GRAPH-LEVEL merge `SerializedGraph.Merge` (nodes identified by path, else by position;
    edge lists unioned): one node per position, merge-then-colour = colouring of the union of
    the variants' use relations on positions (gmerge_used_iff), hence commutative / associative /
    idempotent up to node identity (gmerge_set_invariant), an object used in any variant is used
    in the merge, a node not Used in the merge is Used in no variant,
  * rule 6.5 of graph.namedType (`hasExportedField`, visited set pre-seeded with the declaring
    struct, early returns) is a reachability fact of the struct table (rule65_iff), independent of
    field and declaration order; negative examples for the memoised variant and for the
    "path only" lookup.
Tie X (checked on every run against the current tree):
  * harness/cmd/c17run runs the REAL unused.Analyzer in-process; the dumped graph
    (unused.Debug) is fed to the compiled model, whose Results must equal the colours of the
    real code; for every permuted / repeated / extended copy of a package the executable
    hypotheses of the theorems (isomorphism resp. embedding of the REAL graphs, well-formedness)
    are evaluated by the Lean driver (`iso`, `embed`, proved sound);
  * the struct table and the embedded fields of every struct declaration are read off go/types;
    the model's rule-6.5 verdict must match the use edge type -> embedded field of the real graph;
  * the real unused.Graph of every variant of a package (plain, with in-package tests, external
    test package) is merged in-process by the REAL SerializedGraph.Merge in every order (and
    repeatedly); the model's mergeAll of the same raw graphs must be that graph node for node and
    edge for edge, with the same colours; the theorems' hypotheses are probed on the real graphs;
  * the REAL staticcheck binary runs on a generated module with in-package and external
    tests (-debug.unused-graph gives the graph of every variant the runner analysed); the
    model's merge of the model's Results of those graphs must equal the U1000 lines printed.
Oracle (the statement itself, on the real code's outputs): permuting files / top-level
declarations / repeating the run leaves the set of reported objects unchanged (small programs
around cycles of embedded structs are run in EVERY order of their declarations); adding one
reference from a used function turns no used object into a non-used one; an object reported
with tests analysed — by `staticcheck`, or by the merged graph — is used in no variant of its
package, whatever the order in which the variants are merged.
"""
import json
import os
import re
import shutil
import tempfile
from concurrent.futures import ThreadPoolExecutor

import vlib

MODULES = ["Verif.C17.Theorems", "Verif.C17.TheoremsMerge", "Verif.C17.TheoremsRule65"]
THEOREMS = [
    "Verif.C17.results_perm_invariant",
    "Verif.C17.results_edge_order_invariant",
    "Verif.C17.iso_check_sound",
    "Verif.C17.used_mono_embed",
    "Verif.C17.embed_check_sound",
    "Verif.C17.add_uses_monotone",
    "Verif.C17.add_use_monotone",
    "Verif.C17.add_use_target_used",
    "Verif.C17.build_wf",
    "Verif.C17.build_used_iff",
    "Verif.C17.build_perm_invariant",
    "Verif.C17.build_mono",
    "Verif.C17.build_add_use_monotone",
    "Verif.C17.build_add_use_target_used",
    "Verif.C17.reported_iff",
    "Verif.C17.reported_only_if_unused_everywhere",
    "Verif.C17.merge_order_independent",
    "Verif.C17.gmerge_pos_unique",
    "Verif.C17.gmerge_used_iff",
    "Verif.C17.gmerge_usedAt_iff",
    "Verif.C17.unionUsed_iff",
    "Verif.C17.gmerge_set_invariant",
    "Verif.C17.gmerge_perm_invariant",
    "Verif.C17.gmerge_idempotent",
    "Verif.C17.gmerge_used_of_variant_used",
    "Verif.C17.gmerge_reported_only_if_unused_everywhere",
    "Verif.C17.rule65_iff",
    "Verif.C17.rule65_field_order_invariant",
    "Verif.C17.rule65_calls_perm",
    "Verif.C17.rule65Run_spec",
]
CORPUS = os.path.join(vlib.VERIF, "corpus", "C17")
TESTDATA = "unused/testdata/src/example.com"
# repository packages that import only the standard library (the harness loader type-checks
# imports from source in GOPATH mode; module-mode resolution through `go list` costs minutes)
REPO_PKGS_QUICK = ["go/gcsizes", "printf", "structlayout", "sarif"]
REPO_PKGS_THOROUGH = REPO_PKGS_QUICK + ["internal/sync", "lintcmd/version", "knowledge"]


# ============================================================================ generator
# (declaration-graph generator of checks/c07.py, copied: C17 owns this copy)
# ============================================================================ generator
class Ty:
    """a Go type of the generated package"""

    def __init__(self, expr, zero, kind, ref=None):
        self.expr = expr    # Go syntax
        self.zero = zero    # a Go expression of that type
        self.kind = kind    # int string struct ptr iface func named generic
        self.ref = ref      # the entity it refers to


class Struct:
    def __init__(self, name):
        self.name = name
        self.fields = []        # (name, Ty)
        self.emb_struct = None  # (Struct, byptr)
        self.emb_iface = None   # Iface
        self.methods = []       # (name, ptr_recv)
        self.twin_of = None
        self.derived_of = None  # `type d struct-of-other`: shares the field objects, no methods inherited
        self.tparams = False

    def all_fields(self):
        """(selector name) of fields reachable through promotion, incl. own"""
        out = [f for f, _ in self.fields]
        if self.emb_struct:
            out += self.emb_struct[0].all_fields()
            out.append(self.emb_struct[0].name)
        return out

    def mset(self, ptr):
        """method names in the method set of T (ptr=False) or *T (ptr=True)"""
        own = set(m for m, _ in self.methods)   # own methods shadow promoted ones, whatever their receiver
        s = set(m for m, p in self.methods if ptr or not p)
        if self.emb_iface:
            s |= self.emb_iface.all_methods() - own
        if self.emb_struct:
            es, byptr = self.emb_struct
            s |= es.mset(ptr or byptr) - own
        return s

    def callable(self):
        """methods callable on an addressable variable of type T"""
        return self.mset(True)


class Iface:
    def __init__(self, name):
        self.name = name
        self.methods = []   # names
        self.embeds = None  # Iface

    def all_methods(self):
        s = set(self.methods)
        if self.embeds:
            s |= self.embeds.all_methods()
        return s


class NamedInt:
    def __init__(self, name):
        self.name = name
        self.methods = []  # (name, ptr_recv)

    def mset(self, ptr):
        return set(m for m, p in self.methods if ptr or not p)


class Func:
    def __init__(self, name, params, result):
        self.name, self.params, self.result = name, params, result


POOL = ["m0", "m1", "m2", "m3", "M4", "M5"]


class PkgGen:
    """Seeded generator of one type-correct package without imports.  Every top-level
    declaration is one string in self.decls (so that declarations can be permuted and
    spread over files); every package-level name, field name and local name is unique
    except for the fields of convertible twin structs."""

    def __init__(self, rng, size, pkg="p"):
        self.r = rng
        self.pkg = pkg
        self.size = size
        self.n = 0
        self.decls = []
        self.structs, self.ifaces, self.nints, self.funcs = [], [], [], []
        self.vars, self.consts, self.aliases, self.generics, self.gfuncs, self.cfuncs = [], [], [], [], [], []
        self.hist = {}
        self.build()

    # ---- helpers
    def uid(self):
        self.n += 1
        return self.n

    def hit(self, k):
        self.hist[k] = self.hist.get(k, 0) + 1

    def name(self, prefix, exported_chance=(1, 4)):
        n = "%s%d" % (prefix, self.uid())
        if self.r.chance(*exported_chance):
            n = n[0].upper() + n[1:]
        return n

    T_INT = Ty("int", "0", "int")
    T_STR = Ty("string", '""', "string")

    def struct_ty(self, s):
        return Ty(s.name, s.name + "{}", "struct", s)

    def ptr_ty(self, s):
        return Ty("*" + s.name, "nil", "ptr", s)

    def iface_ty(self, i):
        return Ty(i.name, "nil", "iface", i)

    def nint_ty(self, n):
        return Ty(n.name, n.name + "(0)", "named", n)

    def any_type(self, allow_struct_value_below=None):
        """a random type; struct values only of structs with index < allow_struct_value_below"""
        r = self.r
        c = r.below(10)
        if c <= 1 or not self.structs:
            return self.T_INT if r.chance(2, 3) else self.T_STR
        if c <= 3:
            lim = len(self.structs) if allow_struct_value_below is None else allow_struct_value_below
            if lim > 0:
                return self.struct_ty(self.structs[r.below(lim)])
            return self.T_INT
        if c <= 5:
            return self.ptr_ty(r.choice(self.structs))
        if c == 6 and self.ifaces:
            return self.iface_ty(r.choice(self.ifaces))
        if c == 7 and self.nints:
            return self.nint_ty(r.choice(self.nints))
        if c == 8 and self.aliases:
            a, s = r.choice(self.aliases)
            lim = len(self.structs) if allow_struct_value_below is None else allow_struct_value_below
            if self.structs.index(s) < lim:
                return Ty(a, a + "{}", "struct", s)
            return Ty("*" + a, "nil", "ptr", s)
        if c == 9:
            return Ty("func()", "nil", "func")
        return self.T_INT

    # ---- declarations
    def build(self):
        r, size = self.r, self.size
        n_if = 1 + r.below(2 + size // 3)
        n_st = 2 + r.below(2 + size // 2)
        n_ni = r.below(3)
        # interfaces
        for _ in range(n_if):
            it = Iface(self.name("i", (1, 5)))
            k = 1 + r.below(3)
            it.methods = sorted(set(r.choice(POOL) for _ in range(k)))
            if self.ifaces and r.chance(1, 3):
                e = r.choice(self.ifaces)
                if not (set(it.methods) & e.all_methods()):
                    it.embeds = e
                    self.hit("iface_embeds_iface")
            self.ifaces.append(it)
        # named ints
        for _ in range(n_ni):
            ni = NamedInt(self.name("n"))
            for m in sorted(set(r.choice(POOL) for _ in range(r.below(3)))):
                ni.methods.append((m, r.chance(1, 3)))
            self.nints.append(ni)
        # structs
        for si in range(n_st):
            s = Struct(self.name("t"))
            if self.structs and r.chance(1, 5):
                tw = r.choice(self.structs)
                if not tw.tparams:
                    if r.chance(1, 3):
                        s.derived_of = tw
                        self.hit("derived_struct")
                    else:
                        s.twin_of = tw
                        s.fields = list(tw.fields)
                        s.emb_struct, s.emb_iface = tw.emb_struct, tw.emb_iface
                        self.hit("twin_struct")
            if not s.twin_of and not s.derived_of:
                for _ in range(r.below(4)):
                    fname = self.name("f", (1, 6))
                    if r.chance(1, 8):
                        q = "q%d" % self.uid()
                        inner = self.any_type(allow_struct_value_below=si)
                        s.fields.append((fname, Ty("struct{ %s %s }" % (q, inner.expr), "struct{ %s %s }{}" % (q, inner.expr), "anon")))
                        self.hit("anon_struct_field")
                    else:
                        s.fields.append((fname, self.any_type(allow_struct_value_below=si)))
                if si > 0 and r.chance(2, 5):
                    e = self.structs[r.below(si)]
                    if not e.derived_of:
                        s.emb_struct = (e, r.chance(1, 2))
                        self.hit("embedded_struct")
                if r.chance(1, 4):
                    e = r.choice(self.ifaces)
                    taken = s.emb_struct[0].mset(True) if s.emb_struct else set()
                    if not (e.all_methods() & taken):
                        s.emb_iface = e
                        self.hit("embedded_iface")
            base = s.derived_of
            if base is not None:
                # `type d t`: same underlying struct => same field objects, promoted methods of embedded fields
                s.fields, s.emb_struct, s.emb_iface = base.fields, base.emb_struct, base.emb_iface
            for m in sorted(set(r.choice(POOL) for _ in range(r.below(4)))):
                s.methods.append((m, r.chance(1, 2)))
            self.structs.append(s)
        # aliases
        for _ in range(r.below(3)):
            s = r.choice(self.structs)
            self.aliases.append((self.name("a"), s))
            self.hit("alias")
        # emit type declarations
        for it in self.ifaces:
            body = ["\t%s()" % m for m in it.methods]
            if it.embeds:
                body.insert(0, "\t" + it.embeds.name)
            self.decls.append("type %s interface {\n%s\n}" % (it.name, "\n".join(body)))
        for ni in self.nints:
            self.decls.append("type %s int" % ni.name)
        for s in self.structs:
            if s.derived_of:
                self.decls.append("type %s %s" % (s.name, s.derived_of.name))
                continue
            body = []
            if s.emb_struct:
                body.append("\t%s%s" % ("*" if s.emb_struct[1] else "", s.emb_struct[0].name))
            if s.emb_iface:
                body.append("\t" + s.emb_iface.name)
            for f, t in s.fields:
                body.append("\t%s %s" % (f, t.expr))
            self.decls.append("type %s struct {\n%s\n}" % (s.name, "\n".join(body)) if body else "type %s struct{}" % s.name)
        for a, s in self.aliases:
            self.decls.append("type %s = %s" % (a, s.name))
        # generics
        for _ in range(r.below(3)):
            g = self.name("g")
            gf = self.name("gf", (1, 6))
            gm = self.name("gm", (1, 3))
            self.generics.append((g, gf, gm))
            self.decls.append("type %s[T any] struct {\n\t%s T\n}" % (g, gf))
            self.decls.append("func (x %s[T]) %s() T { return x.%s }" % (g, gm, gf))
            self.hit("generic_type")
        for _ in range(r.below(3)):
            f = self.name("gfn")
            self.gfuncs.append(f)
            self.decls.append("func %s[T any](x T) T { return x }" % f)
            self.hit("generic_func")
        for _ in range(r.below(2)):
            it = r.choice(self.ifaces)
            f = self.name("gcn")
            m = sorted(it.all_methods())[0]
            self.cfuncs.append((f, it))
            self.decls.append("func %s[T %s](x T) { x.%s() }" % (f, it.name, m))
            self.hit("generic_constraint_func")
        # consts
        for _ in range(r.below(3 + size // 4)):
            c = r.below(4)
            if c == 0:
                n = self.name("cs")
                self.consts.append((n, self.T_INT, True))
                self.decls.append("const %s = %d" % (n, 1 + r.below(5)))
                self.hit("const_standalone")
            elif c == 1:
                n = self.name("cs")
                self.consts.append((n, self.T_STR, True))
                self.decls.append('const %s = "s"' % n)
                self.hit("const_standalone")
            elif c == 2 or not self.nints:
                names = [self.name("ci", (1, 8)) for _ in range(2 + r.below(3))]
                lines = ["\t%s = iota" % names[0]] + ["\t" + x for x in names[1:]]
                if r.chance(1, 3):
                    # second group (separated by a blank line) that repeats the first group's expression
                    more = [self.name("ci", (1, 8)) for _ in range(1 + r.below(2))]
                    lines += [""] + ["\t" + x for x in more]
                    names += more
                    self.hit("const_two_groups")
                for x in names:
                    self.consts.append((x, self.T_INT, False))
                self.decls.append("const (\n%s\n)" % "\n".join(lines))
                self.hit("const_iota_group")
            else:
                ni = r.choice(self.nints)
                names = [self.name("ct", (1, 8)) for _ in range(2 + r.below(2))]
                lines = ["\t%s %s = iota" % (names[0], ni.name)] + ["\t" + x for x in names[1:]]
                for x in names:
                    self.consts.append((x, self.nint_ty(ni), False))
                self.decls.append("const (\n%s\n)" % "\n".join(lines))
                self.hit("const_typed_group")
        # function signatures first (bodies may call any function)
        n_fn = 3 + r.below(3 + size)
        for k in range(n_fn):
            nm = self.name("fn", (1, 3) if k else (1, 1))
            params = [("p%d" % self.uid(), self.any_type()) for _ in range(r.below(3))]
            res = self.any_type() if r.chance(1, 3) else None
            self.funcs.append(Func(nm, params, res))
        # vars
        for _ in range(r.below(3 + size // 3)):
            n = self.name("v", (1, 5))
            t = self.any_type()
            if r.chance(1, 3):
                # initialiser function of its own (never refers to variables: no initialisation cycle)
                mk = "mk%d" % self.uid()
                inner = []
                for _ in range(r.below(3)):
                    st = self.stmt_kind(r.choice([5, 6, 7, 20]), (), None, 2)
                    inner += st or []
                self.decls.append("func %s() %s {\n%s\treturn %s\n}" % (mk, t.expr, "".join("\t" + x + "\n" for x in inner), t.zero))
                self.decls.append("var %s = %s()" % (n, mk))
                self.vars.append((n, t))
                self.hit("var_init_call")
            else:
                self.decls.append("var %s %s" % (n, t.expr) if r.chance(1, 2) else "var %s %s = %s" % (n, t.expr, t.zero))
                self.vars.append((n, t))
        # methods
        for s in self.structs:
            for m, p in s.methods:
                recv = "r%d" % self.uid()
                self.decls.append("func (%s %s%s) %s() {\n%s}" % (recv, "*" if p else "", s.name, m, self.body(2, recv_of=(recv, s))))
        for ni in self.nints:
            for m, p in ni.methods:
                recv = "r%d" % self.uid()
                self.decls.append("func (%s %s%s) %s() {\n%s}" % (recv, "*" if p else "", ni.name, m, self.body(1)))
        # functions
        for f in self.funcs:
            ps = ", ".join("%s %s" % (p, t.expr) for p, t in f.params)
            res = " " + f.result.expr if f.result else ""
            body = self.body(1 + self.r.below(4), params=f.params)
            if f.result:
                same = [g for g in self.funcs if g.result is not None and g.result.expr == f.result.expr and g is not f]
                if same and self.r.chance(1, 3):
                    body += "\treturn %s\n" % self.call(self.r.choice(same))
                    self.hit("return_call")
                else:
                    body += "\treturn %s\n" % f.result.zero
            self.decls.append("func %s(%s)%s {\n%s}" % (f.name, ps, res, body))
        if self.r.chance(1, 3):
            self.decls.append("func init() {\n%s}" % self.body(2))
            self.hit("init_func")

    def call(self, f):
        return "%s(%s)" % (f.name, ", ".join(t.zero for _, t in f.params))

    def local(self):
        return "l%d" % self.uid()

    def implementers(self, it):
        """(zero expression, description) of concrete values assignable to interface it"""
        need = it.all_methods()
        out = []
        for s in self.structs:
            if s.tparams:
                continue
            if need <= s.mset(False):
                out.append(s.name + "{}")
            if need <= s.mset(True):
                out.append("&" + s.name + "{}")
        for ni in self.nints:
            if need <= ni.mset(False):
                out.append(ni.name + "(0)")
            if need <= ni.mset(True):
                out.append("new(%s)" % ni.name)
        return out

    def body(self, k, params=(), recv_of=None, depth=0):
        out = []
        for _ in range(k):
            out += self.stmt(params, recv_of, depth)
        return "".join("\t" + s + "\n" for s in out)

    def stmt(self, params, recv_of, depth):
        r = self.r
        for _ in range(8):
            c = r.below(26)
            s = self.stmt_kind(c, params, recv_of, depth)
            if s is not None:
                return s
        return ["_ = 0"]

    def stmt_kind(self, c, params, recv_of, depth):
        r = self.r
        if c <= 3 and self.funcs:   # call / function value
            f = r.choice(self.funcs)
            call = self.call(f)
            k = r.below(5)
            self.hit("stmt_call_%d" % k)
            if k == 0:
                return ["%s%s" % ("_ = " if f.result else "", call)]
            if k == 1:
                return ["defer " + call]
            if k == 2:
                return ["go " + call]
            if k == 3:
                return ["_ = " + f.name]
            l = self.local()
            return ["%s := %s" % (l, f.name), "_ = %s" % l]
        if c == 4 and self.vars:
            n, t = r.choice(self.vars)
            k = r.below(4)
            self.hit("stmt_var_%d" % k)
            if k <= 1:
                return ["_ = " + n]
            if k == 2:
                return ["%s = %s" % (n, t.zero)]   # pure store
            if t.kind == "int":
                return [n + "++"]
            return ["%s = %s" % (n, t.zero)]
        if c == 5 and self.consts:
            n, t, _ = r.choice(self.consts)
            self.hit("stmt_const")
            if t.kind == "int" and r.chance(1, 2):
                l = self.local()
                return ["var %s [%s + 1]int" % (l, n), "_ = " + l]
            return ["_ = " + n]
        if c in (6, 7) and self.structs:   # type use
            t = self.any_type()
            k = r.below(8)
            self.hit("stmt_type_%d" % k)
            l = self.local()
            if k == 0:
                return ["var %s %s" % (l, t.expr), "_ = " + l]
            if k == 1:
                return ["_ = new(%s)" % t.expr]
            if k == 2:
                return ["_ = []%s{}" % t.expr]
            if k == 3:
                return ["_ = map[string]%s{}" % t.expr]
            if k == 4:
                return ["_ = (*%s)(nil)" % t.expr]
            if k == 5:
                return ["_ = func(%s) {}" % t.expr]
            if k == 6:
                lt = "lt%d" % self.uid()
                lf = "lf%d" % self.uid()
                use = ["_ = %s{}" % lt] if r.chance(1, 2) else []
                return ["type %s struct{ %s %s }" % (lt, lf, t.expr)] + use
            return ["var %s %s = %s" % (l, t.expr, t.zero), "_ = " + l]
        if c in (8, 9) and self.structs:   # fields
            s = r.choice(self.structs)
            fs = s.all_fields()
            if not fs:
                return None
            own = dict(s.fields)
            f = r.choice(fs)
            l = self.local()
            k = r.below(5)
            self.hit("stmt_field_%d" % k)
            if k == 0:
                return ["var %s %s" % (l, s.name), "_ = %s.%s" % (l, f)]
            if k == 1 and f in own:
                return ["var %s %s" % (l, s.name), "%s.%s = %s" % (l, f, own[f].zero)]
            if k == 2 and f in own:
                return ["_ = %s{%s: %s}" % (s.name, f, own[f].zero)]
            if k == 3 and not s.derived_of or k == 3:
                vals = []
                if s.emb_struct:
                    vals.append("nil" if s.emb_struct[1] else s.emb_struct[0].name + "{}")
                if s.emb_iface:
                    vals.append("nil")
                vals += [t.zero for _, t in s.fields]
                if not vals:
                    return None
                return ["_ = %s{%s}" % (s.name, ", ".join(vals))]
            return ["var %s %s" % (l, s.name), "_ = &%s.%s" % (l, f)]
        if c in (10, 11, 12) and self.structs:   # methods
            s = r.choice(self.structs)
            ms = sorted(s.callable())
            if not ms:
                return None
            m = r.choice(ms)
            l = self.local()
            k = r.below(5)
            self.hit("stmt_method_%d" % k)
            # a nil embedded pointer/interface is fine: nothing is executed
            if k == 0:
                return ["var %s %s" % (l, s.name), "%s.%s()" % (l, m)]
            if k == 1:
                return ["var %s %s" % (l, s.name), "_ = %s.%s" % (l, m)]   # method value
            if k == 2:
                if m in s.mset(False):
                    return ["_ = %s.%s" % (s.name, m)]   # method expression
                return ["_ = (*%s).%s" % (s.name, m)]
            if k == 3:
                return ["var %s %s" % (l, s.name), "defer %s.%s()" % (l, m)]
            return ["%s := &%s{}" % (l, s.name), "%s.%s()" % (l, m)]
        if c in (13, 14) and self.ifaces:   # interface satisfaction
            it = r.choice(self.ifaces)
            impl = self.implementers(it)
            l = self.local()
            m = r.choice(sorted(it.all_methods()))
            k = r.below(5)
            self.hit("stmt_iface_%d" % k)
            if k == 0 and impl:
                return ["var %s %s = %s" % (l, it.name, r.choice(impl)), "%s.%s()" % (l, m)]
            if k == 1 and impl:
                return ["var %s %s = %s" % (l, it.name, r.choice(impl)), "_ = " + l]
            if k == 2:
                return ["var %s any" % l, "_, _ = %s.(%s)" % (l, it.name)]
            if k == 3:
                return ["var %s any" % l, "switch %s.(type) {" % l, "case %s:" % it.name, "}"]
            return ["var %s %s" % (l, it.name), "_ = %s.%s" % (l, m)]
        if c == 15:   # struct conversions
            cands = [s for s in self.structs if s.twin_of or s.derived_of]
            if not cands:
                return None
            s = r.choice(cands)
            o = s.twin_of or s.derived_of
            a, b = (s, o) if r.chance(1, 2) else (o, s)
            l = self.local()
            k = r.below(3)
            self.hit("stmt_conv_%d" % k)
            if k == 0:
                return ["_ = %s(%s{})" % (a.name, b.name)]
            if k == 1:
                return ["var %s %s" % (l, b.name), "_ = (*%s)(&%s)" % (a.name, l)]
            return ["var %s %s" % (l, b.name), "_ = %s(%s)" % (a.name, l)]
        if c == 16 and (self.generics or self.gfuncs or self.cfuncs):
            k = r.below(4)
            l = self.local()
            t = self.any_type()
            self.hit("stmt_generic_%d" % k)
            if k == 0 and self.gfuncs:
                f = r.choice(self.gfuncs)
                return ["_ = %s[%s](%s)" % (f, t.expr, t.zero)] if r.chance(1, 2) and t.zero != "nil" else ["_ = %s[%s](%s)" % (f, t.expr, t.zero)]
            if k == 1 and self.generics:
                g, gf, gm = r.choice(self.generics)
                return ["var %s %s[%s]" % (l, g, t.expr), "_ = %s.%s" % (l, gf)]
            if k == 2 and self.generics:
                g, gf, gm = r.choice(self.generics)
                return ["var %s %s[%s]" % (l, g, t.expr), "_ = %s.%s()" % (l, gm)]
            if k == 3 and self.cfuncs:
                f, it = r.choice(self.cfuncs)
                impl = [x for x in self.implementers(it)]
                if impl:
                    return ["%s(%s)" % (f, r.choice(impl))]
            return None
        if c in (17, 18) and depth < 2:   # closures
            inner = self.stmt(params, recv_of, depth + 1)
            k = r.below(4)
            self.hit("stmt_closure_%d" % k)
            body = "; ".join(x for x in inner)
            nl = any(x.startswith(("switch", "case", "}")) or x.endswith("{") for x in inner)
            if nl:
                body = "\n".join(inner) + "\n"
            if k == 0:
                return ["func() { %s }()" % body]
            if k == 1:
                return ["defer func() { %s }()" % body]
            if k == 2:
                l = self.local()
                return ["%s := func() { %s }" % (l, body), "%s()" % l]
            return ["_ = func() { %s }" % body]
        if c == 19 and depth < 2:   # control flow
            inner = self.stmt(params, recv_of, depth + 1)
            k = r.below(3)
            self.hit("stmt_ctrl_%d" % k)
            if k == 0:
                return ["if true {"] + inner + ["}"]
            if k == 1:
                i = self.local()
                return ["for %s := 0; %s < 1; %s++ {" % (i, i, i)] + inner + ["}"]
            return ["for range []int{} {"] + inner + ["}"]
        if c == 20:   # local const / type, possibly unused
            lc = "lc%d" % self.uid()
            self.hit("stmt_local_const")
            return ["const %s = 1" % lc] + (["_ = " + lc] if r.chance(1, 2) else [])
        if c == 21 and params:
            p, t = r.choice(list(params))
            self.hit("stmt_param")
            return ["_ = " + p]
        if c == 22 and recv_of:
            recv, s = recv_of
            fs = s.all_fields()
            self.hit("stmt_recv")
            if fs:
                return ["_ = %s.%s" % (recv, r.choice(fs))]
            return ["_ = " + recv]
        if c == 23 and self.aliases:
            a, s = r.choice(self.aliases)
            l = self.local()
            self.hit("stmt_alias")
            return ["var %s %s" % (l, a), "_ = " + l]
        if c == 24 and self.nints:
            ni = r.choice(self.nints)
            ms = sorted(ni.mset(True))
            l = self.local()
            self.hit("stmt_namedint")
            if ms:
                return ["var %s %s" % (l, ni.name), "%s.%s()" % (l, r.choice(ms))]
            return ["var %s %s" % (l, ni.name), "_ = " + l]
        if c == 25 and self.consts:
            cs = [x for x in self.consts if x[1].kind == "named"]
            if cs:
                n, t, _ = r.choice(cs)
                self.hit("stmt_typed_const")
                return ["_ = %s + %s" % (t.zero, n)]
        return None

    # ---- output
    def files(self, nfiles=1, order=None, names=None):
        """{filename: text}; `order` permutes the declarations, which are dealt round-robin
        into nfiles files"""
        decls = list(self.decls) if order is None else [self.decls[i] for i in order]
        names = names or ["f%d.go" % i for i in range(nfiles)]
        out = {}
        for i, n in enumerate(names):
            part = decls[i::nfiles]
            out[n] = "package %s\n\n%s\n" % (self.pkg, "\n\n".join(part))
        return out



class MiniGen:
    """A package of at most five declarations around a cycle of embedded structs: small
    enough to run the real analyzer on EVERY order of its declarations."""

    def __init__(self, rng, pkg, fixed=None):
        self.r, self.pkg, self.n, self.hist = rng, pkg, 0, {}
        if fixed is not None:
            self.decls = list(fixed)
            self.hit("fixed_shape")
        else:
            self.decls = rng.shuffle(embed_cycle_decls(rng, self.uid, self.hit, max_decls=5))
        self.funcs = self.vars = self.consts = self.structs = self.ifaces = self.nints = self.aliases = []

    def uid(self):
        self.n += 1
        return self.n

    def hit(self, k):
        self.hist[k] = self.hist.get(k, 0) + 1


MINI_FIXED = [
    # the shape of seeded/C17-1-3: p before r caches q=false while the cycle is cut at p
    ["type p struct {\n\t*q\n\tX int\n}", "type q struct {\n\t*p\n}", "type r struct {\n\tq\n}", "type s struct {\n\tr\n}",
     "func Use() {\n\tvar a p\n\t_ = a.q\n\tvar b q\n\t_ = b.p\n\t_ = r{}\n\t_ = s{}\n}"],
    # 3-cycle, exported field behind an embedded unexported leaf
    ["type l struct {\n\tY int\n}", "type a struct {\n\t*b\n\tl\n}", "type b struct {\n\t*c\n}", "type c struct {\n\t*a\n}",
     "type d struct {\n\tc\n}"],
]


class Gen17(PkgGen):
    """C07's generator plus shapes that matter for order dependence: //lint:ignore U1000
    (entry() iterates the g.objects map while adding edges), type switches with a bound
    variable (several objects at one position), chains of identical anonymous struct types
    (rule 11.1: 'de-duplicating struct types leads to order-dependent reports')."""

    def embed_cycle(self):
        self.decls += embed_cycle_decls(self.r, self.uid, self.hit)

    def build(self):
        PkgGen.build(self)
        r = self.r
        if r.chance(1, 2):
            n = "ts%d" % self.uid()
            if r.chance(1, 3):
                n = n.capitalize()
            y = "y%d" % self.uid()
            self.decls.append("func %s(x any) int {\n\tswitch %s := x.(type) {\n\tcase int:\n\t\treturn %s\n\tcase string:\n\t\treturn len(%s)\n\t}\n\treturn 0\n}" % (n, y, y, y))
            self.funcs.append(Func(n, [("x", Ty("any", "nil", "iface"))], self.T_INT))
            self.hit("type_switch_bind")
        if r.chance(1, 2):
            a, b = "an%d" % self.uid(), "an%d" % self.uid()
            fa, fb = "af%d" % self.uid(), "af%d" % self.uid()
            if r.chance(1, 3):
                a = a.capitalize()
            st = "struct {\n\t%s int\n\t%s int\n}" % (fa, fb)
            self.decls.append("func %s(t %s) {\n\t_ = t.%s\n\t%s(t)\n}" % (a, st, fa, b))
            self.decls.append("func %s(t %s) {\n\t_ = t.%s\n}" % (b, st, fb))
            if r.chance(1, 2):
                c = "An%d" % self.uid()
                self.decls.append("func %s() {\n\t%s(%s{})\n}" % (c, a, st))
            self.hit("anon_struct_chain")
        if r.chance(1, 4):
            # a long use chain with forward shortcuts: the depth at which the colouring reaches an
            # object depends on the order of the edges, its verdict must not
            k = 30 + r.below(45)
            base = self.uid()
            nm = lambda i: ("Dc%d_%d" if i == 0 else "dc%d_%d") % (base, i)
            for i in range(k + 1):
                calls = [nm(i + 1)] if i < k else []
                if i + 2 < k and r.chance(1, 4):
                    calls.append(nm(i + 2 + r.below(k - i - 2)))
                if r.chance(1, 2):
                    calls.reverse()
                self.decls.append("func %s() {\n%s}" % (nm(i), "".join("\t%s()\n" % c for c in calls)))
                self.funcs.append(Func(nm(i), [], None))
            self.hit("deep_chain")
        for _ in range(1 + r.below(2) if r.chance(2, 3) else 0):
            self.embed_cycle()
        # //lint:ignore U1000 on some declarations
        for i, d in enumerate(self.decls):
            if d.startswith(("func ", "type ", "var ", "const ")) and r.chance(1, 14):
                self.decls[i] = "//lint:ignore U1000 generated by the C17 check\n" + d
                self.hit("lint_ignore")


def embed_cycle_decls(r, uid, hit, max_decls=None):
    """Mutually recursive embedded structs (2- and 3-cycles through pointers) for rule 6.5
    ("structs use embedded structs that have exported fields, recursively"): an exported field
    that is reachable only through embedded unexported structs, structs outside the cycle that
    embed a member of it, and a function that mentions the types and selects SOME embedded fields
    explicitly — the others are used only if rule 6.5 says so, whatever the declaration order.
    Returns a list of one-declaration strings."""
    k = uid()
    n = 2 + r.below(2)
    hit("embed_cycle_%d" % n)
    cyc = ["cy%d_%d" % (k, i) for i in range(n)]
    mode = r.below(5)
    if max_decls is not None and n == 3 and mode == 1:
        mode = 0
    decls, leaf = [], None
    if mode == 1:
        leaf = "lf%d" % k
        decls.append("type %s struct {\n\tY%d int\n\tz%d int\n}" % (leaf, k, k))
        hit("embed_cycle_exported_via_leaf")
    elif mode == 2:
        hit("embed_cycle_without_exported_field")
    holder = r.below(n)
    for i, nm in enumerate(cyc):
        body = ["\t*%s" % cyc[(i + 1) % n]]
        if i == holder:
            if mode in (0, 3, 4):
                body.append("\tX%d_%d int" % (k, i))
            elif mode == 1:
                body.append("\t" + leaf)
        if r.chance(1, 2):
            body.append("\tf%d_%d int" % (k, i))
        if r.chance(1, 2):
            body.reverse()
        decls.append("type %s struct {\n%s\n}" % (nm, "\n".join(body)))
    outs = []
    n_out = 1 + r.below(3)
    if max_decls is not None:
        n_out = max(1, min(n_out, max_decls - len(decls) - 1))
    for j in range(n_out):
        nm = "ou%d_%d" % (k, j)
        base = r.choice(cyc + outs) if outs and r.chance(1, 2) else r.choice(cyc)
        ptr = "*" if r.chance(1, 3) else ""
        decls.append("type %s struct {\n\t%s%s\n}" % (nm, ptr, base))
        outs.append(nm)
        hit("embed_cycle_outsider")
    body = []
    for i, nm in enumerate(cyc):
        if r.chance(1, 3):
            body.append("\tvar a%d_%d %s\n\t_ = a%d_%d.%s\n" % (k, i, nm, k, i, cyc[(i + 1) % n]))
            hit("embed_cycle_field_selected")
        else:
            body.append("\t_ = %s{}\n" % nm)
    for nm in outs:
        body.append("\t_ = %s{}\n" % nm if r.chance(2, 3) else "\t_ = new(%s)\n" % nm)
    fn = ("UseCy%d" if r.chance(2, 3) else "useCy%d") % k
    decls.append("func %s() {\n%s}" % (fn, "".join(body)))
    return decls


def render(pkg, decls, nfiles, names=None):
    """decls: list of (stable index, text).  Deals them round-robin into nfiles files.
    Returns ([(name, text)], layout) with layout[name] = [(index, first line, number of lines)]."""
    names = names or ["f%d.go" % i for i in range(nfiles)]
    files, layout = [], {}
    for i, n in enumerate(names):
        part = decls[i::nfiles]
        lay, line = [], 3
        for idx, text in part:
            k = text.count("\n") + 1
            lay.append((idx, line, k))
            line += k + 1
        files.append((n, "package %s\n\n%s\n" % (pkg, "\n\n".join(t for _, t in part))))
        layout[n] = lay
    return files, layout


def stable_ids(nodes, layout):
    """node -> identity that survives moving declarations around: (declaration index, line
    within the declaration, column, kind, name, occurrence).  Without layout: position."""
    seen = {}
    out = []
    for nd in nodes:
        if layout is None:
            key = (nd["b"], nd["l"], nd["c"], nd["k"], nd["n"])
        else:
            key = None
            for idx, start, k in layout.get(nd["b"], ()):
                if start <= nd["l"] < start + k:
                    key = (idx, nd["l"] - start, nd["c"], nd["k"], nd["n"])
                    break
            if key is None:
                key = (-1, nd["l"], nd["c"], nd["k"], nd["n"] + "@" + nd["b"])
        occ = seen.get(key, 0)
        seen[key] = occ + 1
        out.append(key + (occ,))
    return out


# ============================================================================ running the real code
def run_jobs(ctx, binary, jobs, extra_env=None, nproc=8, timeout=1500, cwd=None):
    """Distribute job dicts over several c17run processes; returns {id: out}."""
    nproc = max(1, min(nproc, len(jobs)))
    # all copies of one program go to the same process (its imports are type-checked from source once)
    groups = {}
    for j in jobs:
        groups.setdefault("/".join(j["id"].split("/")[:2]), []).append(j)

    def weight(js):
        return sum(len(f["src"]) for j in js for f in (j.get("files") or [])) + \
            sum(len(f["src"]) * (2 + len(j.get("orders") or [])) for j in js for v in (j.get("variants") or []) for f in v["files"])

    chunks = [[] for _ in range(nproc)]
    for k, g in enumerate(sorted(groups.values(), key=lambda g: -weight(g))):
        min(chunks, key=weight).extend(g)
    env = vlib.go_env(extra_env or {})

    def one(chunk):
        if not chunk:
            return []
        inp = "".join(json.dumps(j) + "\n" for j in chunk)
        rc, so, se = vlib.run([binary], input=inp, env=env, timeout=timeout, cwd=cwd)
        if rc != 0:
            raise vlib.HarnessError("c17run exited %d: %s" % (rc, se[-2000:]))
        outs = [json.loads(l) for l in so.splitlines() if l.strip()]
        if len(outs) != len(chunk):
            raise vlib.HarnessError("c17run: %d outputs for %d jobs: %s" % (len(outs), len(chunk), se[-1000:]))
        return outs

    res = {}
    with ThreadPoolExecutor(max_workers=nproc) as ex:
        for outs in ex.map(one, chunks):
            for o in outs:
                res[o["id"]] = o
    return res


def job(jid, pkgpath, files):
    return {"id": jid, "pkgpath": pkgpath, "facts": True, "files": [{"name": n, "src": s} for n, s in files]}


def r65_line(o):
    """Lean `r65` input for the struct table / embedded fields the harness read off go/types;
    returns (line, queries) or None when there is nothing to ask"""
    qs = [f for f in (o.get("facts") or []) if f["u"] >= 0]
    if not (o.get("facts") or []):
        return None
    if not qs or not o.get("structs"):
        return "r65 1 -", []
    return "r65 %d %s %s" % (len(o["structs"]), " ".join(o["structs"]), " ".join("%d.%d" % (f["st"], f["u"]) for f in qs)), qs


def r65_compare(o, qs, bits):
    """rule 6.5 predicted by the model vs. the use edge (type -> embedded field) of the REAL graph"""
    idx = {}
    for i, nd in enumerate(o.get("nodes") or []):
        idx.setdefault((nd["k"], nd["n"], nd["b"], nd["l"], nd["c"]), i + 1)
    uses = set(edges_of(o.get("uses")))
    diffs, checked, pos = [], 0, 0
    asked = {id(f): b for f, b in zip(qs, bits)}
    for f in (o.get("facts") or []):
        if f.get("exported") or f.get("host"):
            continue
        t = idx.get(("type", f["tn"], f["tb"], f["tl"], f["tc"]))
        v = idx.get(("field", f["fn"], f["fb"], f["fl"], f["fc"]))
        if t is None or v is None:
            continue
        want = asked.get(id(f), "0") == "1"
        if not want and f.get("meth"):
            continue   # rules 6.3 / 6.4 / 8.2 (promoted methods) may add the same edge
        checked += 1
        pos += want
        if ((t, v) in uses) != want:
            diffs.append({"type": f["tn"], "embedded_field": f["fn"], "at": "%s:%d:%d" % (f["fb"], f["fl"], f["fc"]),
                          "model_rule_6_5": want, "real_graph_has_use_edge": (t, v) in uses})
    return diffs, checked, pos


def split_files(binary, files):
    """[(name, text)] -> [(name, header, [declaration chunks])] through `c17run -split` (go/parser)"""
    inp = "".join(json.dumps({"name": n, "src": t}) + "\n" for n, t in files)
    rc, so, se = vlib.run([binary, "-split"], input=inp, env=vlib.go_env(), timeout=600)
    if rc != 0:
        raise vlib.HarnessError("c17run -split failed: %s" % se[-1000:])
    outs = [json.loads(l) for l in so.splitlines() if l.strip()]
    if len(outs) != len(files):
        raise vlib.HarnessError("c17run -split: %d outputs for %d files" % (len(outs), len(files)))
    res = []
    for (n, t), o in zip(files, outs):
        if o.get("err"):
            res.append((n, t, []))      # does not parse: the loader will say so
        else:
            chunks = o.get("chunks") or []
            if o["header"] + "".join(chunks) not in (t, t + "\n"):
                raise vlib.HarnessError("c17run -split does not partition %s" % n)
            res.append((n, o["header"], chunks))
    return res


def render_disk(parts, file_order, chunk_orders):
    """parts: [(name, header, chunks)].  Returns ([(name, text)], layout) like render()."""
    files, layout = [], {}
    for fi in file_order:
        name, header, chunks = parts[fi]
        line = header.count("\n") + 1
        text, lay = header, []
        for ci in chunk_orders[fi]:
            c = chunks[ci]
            k = c.count("\n")
            lay.append((fi * 100000 + ci, line, k))
            line += k
            text += c
        files.append((name, text))
        layout[os.path.basename(name)] = lay
    return files, layout


def build_ok(expr):
    """tiny evaluator of //go:build lines for linux/amd64, tag verif off"""
    toks = re.findall(r"[\w.]+|&&|\|\||!|\(|\)", expr)
    true = {"linux", "amd64", "unix", "gc"}

    def val(t):
        return t in true or re.fullmatch(r"go1\.\d+", t) is not None

    py = " ".join({"&&": "and", "||": "or", "!": "not "}.get(t, t if t in "()" else str(val(t))) for t in toks)
    try:
        return bool(eval(py))
    except Exception:
        return False


def disk_packages(quick):
    """(id, pkgpath, [(abs path, text)], needs_gopath) for unused/testdata and repository packages"""
    out = []
    root = os.path.join(vlib.REPO, TESTDATA)
    for d in sorted(os.listdir(root)):
        p = os.path.join(root, d)
        if not os.path.isdir(p):
            continue
        fs = sorted(f for f in os.listdir(p) if f.endswith(".go"))
        texts = {f: open(os.path.join(p, f)).read() for f in fs}
        plain = [f for f in fs if not f.endswith("_test.go")]
        if any('import "C"' in texts[f] for f in plain):
            continue
        intests = [f for f in fs if f.endswith("_test.go") and not re.search(r"^package \w+_test\b", texts[f], re.M)]
        if plain:
            out.append(("testdata/" + d, "example.com/" + d, [(os.path.join(p, f), texts[f]) for f in plain], True))
        if plain and intests:
            out.append(("testdata/" + d + "[test]", "example.com/" + d, [(os.path.join(p, f), texts[f]) for f in plain + intests], True))
    for rel in (REPO_PKGS_QUICK if quick else REPO_PKGS_THOROUGH):
        p = os.path.join(vlib.REPO, rel)
        if not os.path.isdir(p):
            continue
        files = []
        for f in sorted(os.listdir(p)):
            if not f.endswith(".go") or f.endswith("_test.go"):
                continue
            txt = open(os.path.join(p, f)).read()
            m = re.search(r"^//go:build (.*)$", txt, re.M)
            if m and not build_ok(m.group(1)):
                continue
            files.append((os.path.join(p, f), txt))
        if files:
            out.append(("repo/" + rel, "honnef.co/go/tools/" + rel, files, True))
    if os.path.isdir(CORPUS):
        for d in sorted(os.listdir(CORPUS)):
            p = os.path.join(CORPUS, d)
            if os.path.isdir(p):
                fs = sorted(f for f in os.listdir(p) if f.endswith(".go"))
                if fs:
                    out.append(("corpus/" + d, "example.com/" + d, [(os.path.join(p, f), open(os.path.join(p, f)).read()) for f in fs], True))
    return out


def run_model_par(ctx, lines, nproc=6):
    if not lines:
        return []
    nproc = max(1, min(nproc, len(lines) // 50 + 1))
    chunks = [lines[i::nproc] for i in range(nproc)]
    with ThreadPoolExecutor(max_workers=nproc) as ex:
        outs = list(ex.map(lambda c: vlib.run_model(ctx, "C17", c) if c else [], chunks))
    res = [None] * len(lines)
    for i, o in enumerate(outs):
        res[i::nproc] = o
    return res


def edges_of(es):
    if not es or es == "-":
        return []
    return [tuple(int(x) for x in e.split(">")) for e in es.split(",")]


def graph_line(o):
    return "%d %s %s" % (o["n"], o.get("uses") or "-", o.get("owns") or "-")


def verdict_map(o, ids):
    return {ids[i]: o["colors"][i] for i in range(len(ids))}


def reported_names(o):
    return sorted((nd["k"], nd["n"]) for nd, c in zip(o.get("nodes") or [], o["colors"]) if c == "X")


# ============================================================================ phase 1+2: in-process
class Prog:
    """one base package and its permuted / repeated / extended copies"""

    def __init__(self, pid, pkgpath):
        self.pid, self.pkgpath = pid, pkgpath
        self.gen = None
        self.base = None          # (files, layout)
        self.variants = []        # (tag, jobid, files, layout)
        self.exts = []            # (jobid, files, layout, info)
        self.gopath = False


def perm_of(rng, n):
    return rng.shuffle(list(range(n)))


def make_generated(rng, i, nperm):
    g = Gen17(rng.fork("pkg%d" % i), size=2 + i % 9, pkg="p%d" % i)
    p = Prog("gen/%d" % i, "example.com/c17/p%d" % i)
    p.gen = g
    nfiles = 1 + (i % 3)
    decls = list(enumerate(g.decls))
    p.base = render(g.pkg, decls, nfiles)
    r = rng.fork("perm%d" % i)
    p.variants.append(("repeat", p.pid + "/repeat", p.base[0], p.base[1]))
    for k in range(nperm):
        if nfiles > 1:
            fs = r.shuffle(p.base[0])
            if [n for n, _ in fs] == [n for n, _ in p.base[0]]:
                fs = fs[1:] + fs[:1]
            p.variants.append(("files", "%s/files%d" % (p.pid, k), fs, p.base[1]))
        order = perm_of(r, len(decls))
        nf2 = 1 + r.below(3)
        files, layout = render(g.pkg, [decls[j] for j in order], nf2)
        p.variants.append(("decls", "%s/decls%d" % (p.pid, k), files, layout))
    return p


def all_perms(n):
    import itertools
    return [list(p) for p in itertools.permutations(range(n))]


def make_mini(rng, i):
    """a package of <= 5 declarations, run in EVERY order of its declarations (single file)
    and in every order of a three-file split"""
    fixed = MINI_FIXED[i] if i < len(MINI_FIXED) else None
    g = MiniGen(rng.fork("mini%d" % i), "m%d" % i, fixed)
    p = Prog("mini/%d" % i, "example.com/c17/m%d" % i)
    p.gen = g
    decls = list(enumerate(g.decls))
    p.base = render(g.pkg, decls, 1)
    p.variants.append(("repeat", p.pid + "/repeat", p.base[0], p.base[1]))
    for k, order in enumerate(all_perms(len(decls))):
        if order == list(range(len(decls))):
            continue
        files, layout = render(g.pkg, [decls[j] for j in order], 1)
        p.variants.append(("decls", "%s/decls%d" % (p.pid, k), files, layout))
    split, lay = render(g.pkg, decls, 3)
    for k, fo in enumerate(all_perms(3)):
        p.variants.append(("files", "%s/files%d" % (p.pid, k), [split[j] for j in fo], lay))
    return p


def make_disk(rng, ent, nperm, parts):
    pid, pkgpath, files, gopath = ent
    p = Prog(pid, pkgpath)
    p.gopath = gopath
    nf = len(parts)
    ident = [list(range(len(c))) for _, _, c in parts]
    p.base = render_disk(parts, list(range(nf)), ident)
    r = rng.fork(pid)
    p.variants.append(("repeat", pid + "/repeat", p.base[0], p.base[1]))
    for k in range(nperm):
        if nf > 1:
            fo = r.shuffle(list(range(nf)))
            if fo == list(range(nf)):
                fo = fo[1:] + fo[:1]
            files2, layout2 = render_disk(parts, fo, ident)
            p.variants.append(("files", "%s/files%d" % (pid, k), files2, layout2))
        co = [r.shuffle(x) for x in ident]
        files3, layout3 = render_disk(parts, r.shuffle(list(range(nf))), co)
        p.variants.append(("decls", "%s/decls%d" % (pid, k), files3, layout3))
    return p


def extension_candidates(p, o, ids):
    """(F, Y) pairs for the monotonicity clause: F a used top-level function or method of the
    generated package (a node of kind func on the first code line of a `func` declaration
    that the real code coloured Used), Y a package-level object and a Go expression that
    refers to it exactly once."""
    g = p.gen
    col = dict(zip(ids, o["colors"]))
    fs = []
    for idx, text in enumerate(g.decls):
        lines = text.split("\n")
        k = 0
        while k < len(lines) and not lines[k].startswith("func "):
            k += 1
        if k == len(lines) or not lines[k].endswith(") {") and not re.search(r"\) [\w*.\[\]]+ \{$", lines[k]):
            continue   # the line must end with the brace that opens the function body
        if lines[k].startswith("func mk") or lines[k].startswith("func init("):
            continue   # variable initialisers: a reference to a variable could close an initialisation cycle
        for sid in ids:
            if sid[0] == idx and sid[1] == k and sid[3] == "func" and sid[5] == 0 and col[sid] == "U":
                fs.append((idx, k, sid))
    ys = []
    by_name = {}
    for sid in ids:
        by_name.setdefault((sid[3], sid[4]), []).append(sid)

    def add(kind, name, expr):
        c = by_name.get((kind, name))
        if c and len(c) == 1:
            ys.append((c[0], expr))

    for f in g.funcs:
        add("func", f.name, f.name)
    for n, _ in g.vars:
        add("var", n, n)
    for n, _, _ in g.consts:
        add("const", n, n)
    for s in g.structs:
        add("type", s.name, "(*%s)(nil)" % s.name)
        if not s.derived_of and not s.twin_of:
            for fn, _ in s.fields:
                add("field", fn, "%s{}.%s" % (s.name, fn))
        for m, ptr in s.methods:
            nm = "(*%s).%s" % (s.name, m) if ptr else "%s.%s" % (s.name, m)
            add("func", nm, nm)
    for it in g.ifaces:
        add("type", it.name, "(*%s)(nil)" % it.name)
    for ni in g.nints:
        add("type", ni.name, "%s(0)" % ni.name)
        for m, ptr in ni.methods:
            nm = "(*%s).%s" % (ni.name, m) if ptr else "%s.%s" % (ni.name, m)
            add("func", nm, nm)
    for a, s in g.aliases:
        add("type", a, "(*%s)(nil)" % a)
    return fs, ys, col


def make_extensions(p, o, ids, rng, n_ext):
    fs, ys, col = extension_candidates(p, o, ids)
    if not fs or not ys:
        return
    g = p.gen
    not_used = [y for y in ys if col[y[0]] != "U"]
    for k in range(n_ext):
        idx, line, fsid = rng.choice(fs)
        pool = not_used if not_used and not rng.chance(1, 4) else ys
        ysid, expr = rng.choice(pool)
        if ysid == fsid:
            continue
        decls = list(enumerate(g.decls))
        lines = g.decls[idx].split("\n")
        lines[line] = lines[line] + " _ = " + expr
        decls[idx] = (idx, "\n".join(lines))
        nfiles = len(p.base[0])
        files, layout = render(g.pkg, decls, nfiles)
        p.exts.append(("%s/ext%d" % (p.pid, k), files, layout,
                       {"from": list(fsid), "to": list(ysid), "expr": expr, "to_was": col[ysid], "inserted": lines[line]}))


def iso_line(ob, ov, idb, idv):
    """Lean `iso` input for base output ob / variant output ov; None when the node sets differ"""
    if ob["n"] != ov["n"] or sorted(idb) != sorted(idv) or len(set(idb)) != len(idb):
        return None
    pos = {sid: i + 1 for i, sid in enumerate(idv)}
    f = [0] + [pos[sid] for sid in idb]
    finv = [0] * len(f)
    for a, b in enumerate(f):
        finv[b] = a
    return "iso %s %s %s %s %s" % (graph_line(ob), ov.get("uses") or "-", ov.get("owns") or "-",
                                   ",".join(map(str, f)), ",".join(map(str, finv)))


def embed_line(ob, ov, idb, idv, x, y):
    if len(set(idb)) != len(idb) or len(set(idv)) != len(idv) or not set(idb) <= set(idv):
        return None
    pos = {sid: i + 1 for i, sid in enumerate(idv)}
    f = [0] + [pos[sid] for sid in idb]
    return "embed %s %s %s %d %d" % (graph_line(ob), graph_line(ov), ",".join(map(str, f)), x, y)


def replay_case(kind, p, tag, base_files, var_files, detail):
    return {
        "kind": kind, "id": p.pid, "pkgpath": p.pkgpath, "variant": tag, "gopath": p.gopath,
        "base_files": [[n, s] for n, s in base_files], "variant_files": [[n, s] for n, s in var_files],
        "detail": detail,
        "how_to_replay": "./check C17 --replay <this file>  — runs harness/cmd/c17run (the real unused.Analyzer in-process) on base_files and on "
                         "variant_files in the listed order and compares the reported objects; by hand: put each file list into a directory "
                         "(file names decide the order `go list` hands them to staticcheck) and run `staticcheck -checks U1000 .` on both",
    }


def explore(ctx, binary, rng, n_gen, nperm, n_ext, with_disk, tag="main", replay_progs=None, n_mini=0):
    """Phases 1 and 2.  Returns a dict with violations (oracle failures on the real code),
    correspondence diffs (tie), statistics."""
    quick = ctx.quick
    progs = []
    if replay_progs is not None:
        progs = replay_progs
    else:
        if with_disk:
            ents = disk_packages(quick)
            allfiles = [f for ent in ents for f in ent[2]]
            parts = split_files(binary, allfiles)
            k = 0
            for ent in ents:
                progs.append(make_disk(rng, ent, 1 if quick else nperm, parts[k:k + len(ent[2])]))
                k += len(ent[2])
        for i in range(n_gen):
            progs.append(make_generated(rng.fork(tag), i, nperm))
        for i in range(n_mini):
            progs.append(make_mini(rng.fork(tag + "/mini"), i))
    gopath_env = {"GOPATH": os.path.join(vlib.REPO, "unused", "testdata"), "GO111MODULE": "off"}

    # ---- round 1: base + repeat + permutations
    light, heavy = [], []
    for p in progs:
        dst = heavy if p.gopath else light
        dst.append(job(p.pid, p.pkgpath, p.base[0]))
        for (vt, jid, files, layout) in p.variants:
            dst.append(job(jid, p.pkgpath, files))
    outs = {}
    with ThreadPoolExecutor(max_workers=2) as ex:
        fa = ex.submit(run_jobs, ctx, binary, light, None, 5)
        fb = ex.submit(run_jobs, ctx, binary, heavy, gopath_env, 2)
        outs.update(fa.result())
        outs.update(fb.result())

    res = {"violations": [], "corr": [], "programs": 0, "runs": 0, "pairs": {"repeat": 0, "files": 0, "decls": 0, "ext": 0},
           "nontrivial": set(), "hist": {}, "samples": [], "skipped": [], "nodes": 0, "ext_newly_used": 0, "ext_target_was": {},
           "iso_checked": 0, "embed_checked": 0, "build_lines": 0, "verdict_lines": 0, "ambiguous_identity": 0, "max_nodes": 0,
           "r65_lines": 0, "r65_fields": 0, "r65_fields_used_by_rule": 0, "mini_programs": 0, "mini_orders": 0}
    lean_lines, lean_meta = [], []
    usable = []
    rejected = []
    for p in progs:
        ob = outs[p.pid]
        if ob.get("type_errs"):
            if p.gen is not None:
                rejected.append((p.pid, ob["type_errs"][:2]))
            else:
                res["skipped"].append("%s: does not type-check in the harness loader: %s" % (p.pid, ob["type_errs"][0]))
            continue
        if ob.get("err"):
            raise vlib.HarnessError("c17run failed on %s: %s" % (p.pid, ob["err"]))
        usable.append(p)
    if rejected:
        raise vlib.HarnessError("generator produced %d packages the type checker rejects, e.g. %s" % (len(rejected), rejected[:2]))

    # ---- round 2: extensions (need the base verdicts)
    ext_jobs = []
    for p in usable:
        if p.gen is None or n_ext == 0:
            continue
        ob = outs[p.pid]
        idb = stable_ids(ob.get("nodes") or [], p.base[1])
        if replay_progs is None:
            make_extensions(p, ob, idb, rng.fork("ext/" + p.pid), n_ext)
        for (jid, files, layout, info) in p.exts:
            ext_jobs.append(job(jid, p.pkgpath, files))
    if ext_jobs:
        outs.update(run_jobs(ctx, binary, ext_jobs, None, 5))

    # ---- evaluate
    ext_rejected = 0
    for p in usable:
        ob = outs[p.pid]
        nodes_b = ob.get("nodes") or []
        idb = stable_ids(nodes_b, p.base[1])
        vb = verdict_map(ob, idb)
        res["programs"] += 1
        res["runs"] += 1
        res["nodes"] += ob["n"]
        res["max_nodes"] = max(res["max_nodes"], ob["n"])
        if len(set(idb)) != len(idb):
            res["ambiguous_identity"] += 1
        if ob.get("dot_vs_result") != "ok":
            res["corr"].append({"id": p.pid, "what": "unused.Result is not the partition of nodes[1:] by the dumped colours", "detail": ob.get("dot_vs_result")})
        lean_lines.append("verdicts " + graph_line(ob))
        lean_meta.append(("verdicts", p, p.pid, ob))
        rl = r65_line(ob)
        if rl:
            lean_lines.append(rl[0])
            lean_meta.append(("r65", p, p.pid, (ob, rl[1])))
        if p.pid.startswith("mini/"):
            res["mini_programs"] += 1
            res["mini_orders"] += sum(1 for v in p.variants if v[0] == "decls") + 1
        # the builder model (Build.lean) fed with the calls the real graph records, in a random order
        evs = ["s%d.0" % i for i in range(1, ob["n"])]
        for a, b in edges_of(ob.get("uses")):
            evs.append("u%d.%d" % (b, a))
        for a, b in edges_of(ob.get("owns")):
            evs.append("s%d.%d" % (b, a))
        lean_lines.append("build " + " ".join(rng.fork("build/" + p.pid).shuffle(evs)))
        lean_meta.append(("build", p, p.pid, ob))
        if p.gen is not None:
            for k, v in p.gen.hist.items():
                res["hist"][k] = res["hist"].get(k, 0) + v
        nX = ob["colors"].count("X")
        nU = sum(1 for nd, c in zip(nodes_b, ob["colors"]) if c == "U" and nd["n"][:1].islower())
        if nX >= 1 and nU >= 1 and ob["n"] >= 6:
            res["nontrivial"].add(p.pid)
        for (vt, jid, files, layout) in p.variants:
            ov = outs[jid]
            if ov.get("type_errs") or ov.get("err"):
                # the same package in another order must load as well
                raise vlib.HarnessError("variant %s does not load: %s" % (jid, ov.get("type_errs") or ov.get("err")))
            res["runs"] += 1
            res["pairs"][vt] += 1
            idv = stable_ids(ov.get("nodes") or [], layout)
            vv = verdict_map(ov, idv)
            rep_b = sorted(k for k, c in vb.items() if c == "X")
            rep_v = sorted(k for k, c in vv.items() if c == "X")
            if rep_b != rep_v or reported_names(ob) != reported_names(ov):
                only_b = [list(k) for k in rep_b if k not in set(rep_v)]
                only_v = [list(k) for k in rep_v if k not in set(rep_b)]
                res["violations"].append(("order_%s" % vt, p, jid, replay_case(
                    "order", p, vt, p.base[0], files,
                    {"reported_only_in_base_order": only_b[:10], "reported_only_in_variant_order": only_v[:10],
                     "reported_base": reported_names(ob)[:40], "reported_variant": reported_names(ov)[:40],
                     "identity": "(declaration index, line in declaration, column, kind, name, occurrence)"})))
            if ov.get("dot_vs_result") != "ok":
                res["corr"].append({"id": jid, "what": "unused.Result is not the partition of nodes[1:] by the dumped colours", "detail": ov.get("dot_vs_result")})
            line = iso_line(ob, ov, idb, idv)
            if line is None:
                if len(set(idb)) == len(idb):
                    res["corr"].append({"id": jid, "what": "the permuted run creates a different set of nodes",
                                        "only_base": [list(k) for k in sorted(set(idb) - set(idv))][:6], "only_variant": [list(k) for k in sorted(set(idv) - set(idb))][:6]})
            else:
                lean_lines.append(line)
                lean_meta.append(("iso", p, jid, None))
            lean_lines.append("verdicts " + graph_line(ov))
            lean_meta.append(("verdicts", p, jid, ov))
            rl = r65_line(ov)
            if rl:
                lean_lines.append(rl[0])
                lean_meta.append(("r65", p, jid, (ov, rl[1])))
        for (jid, files, layout, info) in p.exts:
            oe = outs[jid]
            if oe.get("type_errs"):
                ext_rejected += 1
                res["skipped"].append("%s: extension `%s` rejected by the type checker: %s" % (jid, info["inserted"], oe["type_errs"][0]))
                continue
            if oe.get("err"):
                raise vlib.HarnessError("c17run failed on %s: %s" % (jid, oe["err"]))
            res["runs"] += 1
            res["pairs"]["ext"] += 1
            ide = stable_ids(oe.get("nodes") or [], layout)
            ve = verdict_map(oe, ide)
            lost = [list(k) for k, c in sorted(vb.items()) if c == "U" and ve.get(k) != "U"]
            newly = sum(1 for k, c in vb.items() if c != "U" and ve.get(k) == "U")
            res["ext_newly_used"] += newly
            res["ext_target_was"][info["to_was"]] = res["ext_target_was"].get(info["to_was"], 0) + 1
            if lost:
                res["violations"].append(("monotone", p, jid, replay_case(
                    "monotone", p, "ext", p.base[0], files,
                    {"added_reference": info, "used_before_but_not_after": lost[:10],
                     "verdict_after": [ve.get(tuple(k)) for k in lost[:10]]})))
            if oe.get("dot_vs_result") != "ok":
                res["corr"].append({"id": jid, "what": "unused.Result is not the partition of nodes[1:] by the dumped colours", "detail": oe.get("dot_vs_result")})
            x = idb.index(tuple(info["from"])) + 1
            y = idb.index(tuple(info["to"])) + 1
            line = embed_line(ob, oe, idb, ide, x, y)
            if line is None:
                res["corr"].append({"id": jid, "what": "the extended package lacks nodes of the base package",
                                    "missing": [list(k) for k in sorted(set(idb) - set(ide))][:6]})
            else:
                lean_lines.append(line)
                lean_meta.append(("embed", p, jid, info))
            lean_lines.append("verdicts " + graph_line(oe))
            lean_meta.append(("verdicts", p, jid, oe))
        if len(res["samples"]) < 6 and (res["programs"] % max(1, len(usable) // 6) == 1 or len(usable) < 6):
            res["samples"].append({"id": p.pid, "nodes": ob["n"], "use_edges": (ob.get("uses") or "-").count(">"),
                                   "reported": ["%s %s" % t for t in reported_names(ob)][:8],
                                   "variants": [jid.split("/")[-1] for (_, jid, _, _) in p.variants],
                                   "extensions": [i["inserted"] + "  (target was %s)" % i["to_was"] for (_, _, _, i) in p.exts]})
    n_ext_total = sum(len(p.exts) for p in usable)
    if n_ext_total and ext_rejected * 10 > n_ext_total:
        raise vlib.HarnessError("%d of %d single-reference extensions do not type-check: %s" % (ext_rejected, n_ext_total, res["skipped"][-3:]))

    # ---- the model (several driver processes)
    model = run_model_par(ctx, lean_lines)
    for (kind, p, jid, aux), line, mo in zip(lean_meta, lean_lines, model):
        if mo == "bad-op":
            raise vlib.HarnessError("model rejected a line for %s: %s" % (jid, line[:200]))
        if kind == "verdicts":
            res["verdict_lines"] += 1
            if mo.startswith("wf=0"):
                res["corr"].append({"id": jid, "what": "dumped graph is not well-formed (edge to a missing node): the theorems' hypothesis g.wf fails on a real graph"})
                continue
            parts = mo.split()
            mcol = parts[1] if aux["n"] > 1 and len(parts) >= 2 and not parts[1].startswith("zr=") else ""
            if mcol != (aux.get("colors") or ""):
                res["corr"].append({"id": jid, "what": "Lean Results differ from the real colouring (tie X)",
                                    "model": mcol[:300], "impl": (aux.get("colors") or "")[:300]})
        elif kind == "build":
            res["build_lines"] += 1
            objs, vs = mo.split()
            got = {} if objs == "-" else dict(zip(objs.split(","), vs))
            want = {str(i + 1): c for i, c in enumerate(aux.get("colors") or "")}
            if got != want:
                res["corr"].append({"id": jid, "what": "builder model run on the calls recorded by the real graph (shuffled) gives other verdicts than the real code",
                                    "differs_at": [k for k in sorted(want, key=int) if got.get(k) != want[k]][:10]})
        elif kind == "r65":
            res["r65_lines"] += 1
            if not mo.startswith("wf=1 "):
                res["corr"].append({"id": jid, "what": "struct table read off go/types rejected by the rule-6.5 model", "lean": mo})
                continue
            diffs, checked, posn = r65_compare(aux[0], aux[1], (mo.split() + [""])[1])
            res["r65_fields"] += checked
            res["r65_fields_used_by_rule"] += posn
            if diffs:
                res["corr"].append({"id": jid, "what": "rule 6.5 (hasExportedField): the model's reachability verdict differs from the use edge type -> embedded field of the real graph",
                                    "fields": diffs[:6]})
        elif kind == "iso":
            res["iso_checked"] += 1
            if mo != "hyp=1 same=1":
                res["corr"].append({"id": jid, "what": "real graphs of the two orders: hypotheses of results_perm_invariant (isomorphism) / verdict correspondence", "lean": mo})
        elif kind == "embed":
            res["embed_checked"] += 1
            if not mo.startswith("hyp=1 mono=1 edge=1 target=1"):
                res["corr"].append({"id": jid, "what": "real graph after the added reference: hypotheses of used_mono_embed (super-graph) / new edge / target used", "lean": mo, "added": aux})
    return res


# ============================================================================ phase 3: variants through the real binary
KINDS = ["type param", "func", "var", "const", "type", "field", "identifier"]
IN_TEST, EXT_TEST = "zin_test.go", "zext_test.go"


def derived_test_decls(g, rng):
    """Declarations for an in-package _test.go file that make objects of the package look
    different in the test variant: types DERIVED from non-test struct types (`type fake T`: same
    field objects, reached by objectpath through whichever type name sorts first), structs that
    embed them, aliases of them, and helpers that use unexported fields and methods of the
    non-test types ONLY from test code.  Names sort before (`a…`) and after (`z…`) the originals."""
    u = g.uid
    out = []
    cands = [s for s in g.structs if not s.tparams]
    for s in rng.shuffle(cands)[:3]:
        k = u()
        pre = rng.choice(["a", "z", "A"])
        fake = "%sfk%d" % (pre, k)
        out.append("type %s %s" % (fake, s.name))
        g.hit("test_derived_type_sorting_%s" % ("after" if pre == "z" else "before_lowercase" if pre == "a" else "before_all"))
        own = [f for f, _ in s.fields]
        body = ["\tvar x%d %s\n\t_ = x%d\n" % (k, fake, k)]
        for f in own:
            if rng.chance(2, 3):
                body.append("\t_ = x%d.%s\n" % (k, f))
                g.hit("test_reads_field_through_derived_type")
        if own and rng.chance(1, 2):
            f = rng.choice(own)
            body.append("\tvar y%d %s\n\t_ = y%d.%s\n" % (k, s.name, k, f))
            g.hit("test_reads_field_directly")
        ms = [m for m, _ in s.methods if m[:1].islower()]
        if ms:
            m = rng.choice(ms)
            body.append("\tvar w%d %s\n\tw%d.%s()\n" % (k, s.name, k, m))
            g.hit("test_calls_unexported_method")
        if rng.chance(1, 2):
            # an unexported method of a non-test type that only the test file declares and calls
            out.append("func (r%d *%s) tm%d() {}" % (k, s.name, k))
            body.append("\tvar tv%d %s\n\ttv%d.tm%d()\n" % (k, s.name, k, k))
            g.hit("test_declares_method_on_non_test_type")
        if rng.chance(1, 3):
            # an exported one: used by its (non-test) type through rule 2.1, only in the test variant
            out.append("func (r%d %s) TM%d() {}" % (k, s.name, k))
            g.hit("test_declares_exported_method_on_non_test_type")
        out.append("func CheckDerived%d() {\n%s}" % (k, "".join(body)))
        c = rng.below(4)
        if c == 0:
            emb = "%sem%d" % ("a" if rng.chance(1, 2) else "z", k)
            out.append("type %s struct {\n\t%s\n\textra%d int\n}" % (emb, fake, k))
            sel = "\t_ = e%d.%s\n" % (k, rng.choice(own)) if own and rng.chance(2, 3) else ""
            out.append("func CheckEmbedded%d() {\n\tvar e%d %s\n%s\t_ = e%d\n}" % (k, k, emb, sel, k))
            g.hit("test_embeds_derived_type")
        elif c == 1:
            emb = "%sep%d" % ("a" if rng.chance(1, 2) else "z", k)
            out.append("type %s struct {\n\t*%s\n}" % (emb, s.name))
            out.append("func CheckEmbeddedPtr%d() {\n\t_ = %s{}\n}" % (k, emb))
            g.hit("test_embeds_original_by_pointer")
        elif c == 2:
            al = "%sal%d" % ("a" if rng.chance(1, 2) else "z", k)
            out.append("type %s = %s" % (al, s.name))
            sel = "\t_ = v%d.%s\n" % (k, rng.choice(own)) if own else ""
            out.append("func CheckAlias%d() {\n\tvar v%d %s\n%s\t_ = v%d\n}" % (k, k, al, sel, k))
            g.hit("test_aliases_original")
    if rng.chance(1, 2):
        # an interface only the tests know: every non-test type with these (unexported) methods
        # implements it (rule 8.2) and uses them — in the test variant only
        k = u()
        ms = sorted(set(rng.choice(POOL[:4]) for _ in range(1 + rng.below(2))))
        out.append("type tIf%d interface {\n%s\n}" % (k, "\n".join("\t%s()" % m for m in ms)))
        out.append("func CheckIface%d() {\n\tvar i%d tIf%d\n\t_ = i%d\n}" % (k, k, k, k))
        g.hit("test_declares_interface_implemented_by_non_test_types")
    return out


def make_module(rng, n_pkgs):
    """{relative path: text} of a module whose packages have in-package and/or external tests"""
    files = {"go.mod": "module example.com/c17\n\ngo 1.22\n"}
    modes = {}
    hist = {}
    for i in range(n_pkgs):
        g = Gen17(rng.fork("vpkg%d" % i), size=2 + i % 7, pkg="p%d" % i)
        fl, _ = render(g.pkg, list(enumerate(g.decls)), 1 + i % 2)
        for n, t in fl:
            files["p%d/%s" % (i, n)] = t
        mode = i % 3   # 0: in-package tests, 1: in-package and external tests, 2: external tests only
        modes["p%d" % i] = mode
        u = g.uid
        if mode in (0, 1):
            h1, h2, sk = "helperIn%d" % u(), "helperIn%d" % u(), "sinkIn%d" % u()
            t = "package p%d\n\n" % i
            t += "func CheckIn%d() {\n%s\t%s()\n}\n\n" % (u(), g.body(3), h1)
            t += "func %s() {\n%s}\n\n" % (h1, g.body(2))
            t += "func %s() {\n%s}\n\n" % (h2, g.body(1))           # nobody calls it: reported, and what it alone uses
            t += "var %s int\n\n" % sk
            t += "func CheckSink%d() {\n\t%s = 1\n}\n" % (u(), sk)    # rule 4.9: sinks declared in test files
            if g.r.chance(1, 2):
                t += "\nvar unusedIn%d int\n" % u()
            dd = derived_test_decls(g, g.r.fork("derived"))
            if dd:
                t += "\n" + "\n\n".join(dd) + "\n"
            files["p%d/%s" % (i, IN_TEST)] = t
        if mode in (1, 2):
            exp = [f.name for f in g.funcs if f.name[:1].isupper()]
            t = "package p%d_test\n\nimport \"example.com/c17/p%d\"\n\n" % (i, i)
            body = "".join("\t_ = p%d.%s\n" % (i, n) for n in exp[:3])
            t += "func CheckExt%d() {\n%s\textUsed%d()\n}\n\n" % (u(), body, i)
            t += "func extUsed%d() {}\n\n" % i
            t += "func extUnused%d() {}\n\n" % u()
            t += "type extT%d struct {\n\ta%d int\n\tb%d int\n}\n\n" % (u(), u(), u())
            files["p%d/%s" % (i, EXT_TEST)] = t
        for k, v in g.hist.items():
            hist[k] = hist.get(k, 0) + v
    return files, modes, hist


def write_tree(root, files):
    for rel, t in files.items():
        p = os.path.join(root, rel)
        os.makedirs(os.path.dirname(p), exist_ok=True)
        with open(p, "w") as f:
            f.write(t)


def hexs(s):
    return "-" if s == "" else s.encode().hex()


def run_binary(ctx, sc, c17run, root, tests, tag):
    """one run of the real staticcheck (fresh cache, so that every variant is analysed and
    dumped).  Returns (reported keys, graphs)."""
    cache = tempfile.mkdtemp(prefix="sccache_", dir=ctx.scratch)
    dot = os.path.join(ctx.scratch, "graphs_%s.dot" % tag)
    if os.path.exists(dot):
        os.remove(dot)
    env = vlib.go_env({"STATICCHECK_CACHE": cache, "GOFLAGS": "-mod=mod"})
    cmd = [sc, "-checks", "U1000", "-f", "json", "-debug.unused-graph", dot]
    if not tests:
        cmd.append("-tests=false")
    cmd.append("./...")
    rc, so, se = vlib.run(cmd, cwd=root, env=env, timeout=900)
    if rc not in (0, 1):
        raise vlib.HarnessError("staticcheck failed (%d): %s" % (rc, (so + se)[-1500:]))
    keys = []
    for line in so.splitlines():
        j = json.loads(line)
        if j.get("code") != "U1000":
            raise vlib.HarnessError("unexpected diagnostic from staticcheck on the generated module: %s" % line[:400])
        f = j["location"]["file"]
        d, base = os.path.basename(os.path.dirname(f)), os.path.basename(f)
        msg = j["message"]
        if not msg.endswith(" is unused"):
            raise vlib.HarnessError("unexpected U1000 message %r" % msg)
        head = msg[:-len(" is unused")]
        kind = next((k for k in KINDS if head.startswith(k + " ")), None)
        if kind is None:
            raise vlib.HarnessError("unexpected U1000 message %r" % msg)
        pkg = "example.com/c17/" + d + ("_test" if base == EXT_TEST else "")
        keys.append((pkg, base, j["location"]["line"], head[len(kind) + 1:]))
    rc, so, se = vlib.run([c17run, "-dots", dot], env=vlib.go_env(), timeout=600)
    if rc != 0:
        raise vlib.HarnessError("cannot parse the -debug.unused-graph dump: %s" % se[-800:])
    graphs = [json.loads(l) for l in so.splitlines() if l.strip()]
    shutil.rmtree(cache, ignore_errors=True)
    return keys, graphs


def classify_graphs(graphs, root):
    """pkgpath -> list of (variant tag, graph) for the graphs of the generated module"""
    by = {}
    other = 0
    for g in graphs:
        if g.get("err"):
            raise vlib.HarnessError("unreadable graph in the dump: %s" % g["err"])
        nodes = g.get("nodes") or []
        dirs = set(nd.get("d", "") for nd in nodes)
        if not nodes:
            continue
        if len(dirs) != 1 or os.path.dirname(list(dirs)[0]) != os.path.realpath(root) and os.path.dirname(list(dirs)[0]) != root:
            other += 1
            continue
        d = os.path.basename(list(dirs)[0])
        bases = set(nd["b"] for nd in nodes)
        if EXT_TEST in bases:
            by.setdefault("example.com/c17/" + d + "_test", []).append(("ext", g))
        elif IN_TEST in bases:
            by.setdefault("example.com/c17/" + d, []).append(("test", g))
        else:
            by.setdefault("example.com/c17/" + d, []).append(("plain", g))
    return by, other


def merge_eval(ctx, keys, graphs, root, tag):
    """model: Lean Results of every dumped graph, then Lean merge per package path; compare with
    the printed U1000 lines; oracle: a reported key is Used in no variant."""
    by, other = classify_graphs(graphs, root)
    order = sorted(by)
    vlines = []
    for pkg in order:
        for (vt, g) in by[pkg]:
            vlines.append("verdicts " + graph_line(g))
    vout = vlib.run_model(ctx, "C17", vlines) if vlines else []
    corr, viol = [], []
    mlines = []
    k = 0
    real_used = {}     # key -> True when some variant colours it Used (real colours)
    real_unused = set()
    split = 0
    for pkg in order:
        parts = []
        status = {}
        for (vt, g) in by[pkg]:
            mo = vout[k]
            k += 1
            if mo == "bad-op" or mo.startswith("wf=0"):
                corr.append({"pkg": pkg, "variant": vt, "what": "dumped graph of the real runner rejected / not well-formed", "lean": mo})
                continue
            ps = mo.split()
            mcol = ps[1] if g["n"] > 1 and len(ps) >= 2 and not ps[1].startswith("zr=") else ""
            if mcol != g["colors"]:
                corr.append({"pkg": pkg, "variant": vt, "what": "Lean Results differ from the colours of the real runner's graph", "model": mcol[:200], "impl": g["colors"][:200]})
            used, unused = [], []
            for nd, c, rc_ in zip(g["nodes"], mcol, g["colors"]):
                key = "%s/%s/%d/%s" % (hexs(pkg), hexs(nd["b"]), nd["l"], hexs(nd["n"]))
                (used if c == "U" else unused if c == "X" else []).append(key)
                kk = (pkg, nd["b"], nd["l"], nd["n"])
                if rc_ == "U":
                    real_used[kk] = vt
                elif rc_ == "X":
                    real_unused.add(kk)
                status.setdefault(kk, set()).add(rc_)
            parts.append("1 %d %s %d %s" % (len(used), " ".join(used), len(unused), " ".join(unused)))
        split += sum(1 for s in status.values() if "U" in s and "X" in s)
        mlines.append(("merge %d %s" % (len(parts), " ".join(parts))).replace("  ", " "))
    mout = vlib.run_model(ctx, "C17", [re.sub(r" +", " ", l).strip() for l in mlines]) if mlines else []
    model_keys = set()
    for pkg, mo in zip(order, mout):
        if mo == "bad-op":
            raise vlib.HarnessError("model rejected the merge line of %s" % pkg)
        if mo == "-":
            continue
        for t in mo.split():
            a, b, l, n = t.split("/")
            dec = lambda h: "" if h == "-" else bytes.fromhex(h).decode()
            model_keys.add((dec(a), dec(b), int(l), dec(n)))
    real_keys = set(keys)
    if model_keys != real_keys:
        corr.append({"what": "model merge of the dumped variants != U1000 lines printed by the real binary (%s)" % tag,
                     "only_model": sorted(model_keys - real_keys)[:10], "only_real": sorted(real_keys - model_keys)[:10]})
    for kk in sorted(real_keys):
        if kk in real_used:
            viol.append({"key": list(kk), "used_in_variant": real_used[kk]})
    stats = {"packages": len(order), "variant_graphs": sum(len(v) for v in by.values()), "other_graphs(testmain)": other,
             "reported": len(real_keys), "keys_used_in_one_variant_and_unused_in_another": split,
             "reported_without_tests_only": None}
    return corr, viol, stats, real_keys


def merge_phase(ctx, sc, c17run, rng, n_pkgs, files=None, both=True):
    if files is None:
        files, modes, hist = make_module(rng, n_pkgs)
    else:
        modes, hist = {}, {}
    root = os.path.realpath(tempfile.mkdtemp(prefix="mod_", dir=ctx.scratch))
    write_tree(root, files)
    keys_t, graphs_t = run_binary(ctx, sc, c17run, root, True, "tests")
    corr_t, viol_t, stats_t, rk_t = merge_eval(ctx, keys_t, graphs_t, root, "-tests")
    corr_n, viol_n, stats_n = [], [], None
    if both:
        keys_n, graphs_n = run_binary(ctx, sc, c17run, root, False, "notests")
        corr_n, viol_n, stats_n, rk_n = merge_eval(ctx, keys_n, graphs_n, root, "-tests=false")
        stats_t["reported_without_tests_only"] = len(rk_n - rk_t)
    out = {"corr": corr_t + corr_n, "violations": [], "stats": {"with_tests": stats_t, "without_tests": stats_n}, "modes": modes, "hist": hist,
           "files": files}
    for v in viol_t + viol_n:
        d = v["key"][0].split("/")[-1].replace("_test", "")
        out["violations"].append({
            "kind": "merge", "key(pkg,base,line,name)": v["key"], "used_in_variant": v["used_in_variant"],
            "module_files": {k: t for k, t in files.items() if k == "go.mod" or k.startswith(d + "/")},
            "how_to_replay": "./check C17 --replay <this file>  — writes module_files to a scratch module and runs the real `staticcheck -checks U1000 "
                             "-debug.unused-graph g.dot ./...`; the key is printed as unused although the graph of the named variant colours it green",
        })
    return out


# ============================================================================ phase 4: graph-level merge (SerializedGraph.Merge)
def vmerge_job(rng, i, size):
    """one generated package with its variants (plain; with in-package tests; external test
    package) and the merge orders to run through the real SerializedGraph.Merge"""
    g = Gen17(rng.fork("gpkg%d" % i), size=size, pkg="p%d" % i)
    fl, _ = render(g.pkg, list(enumerate(g.decls)), 1 + i % 2)
    plain = [{"name": n, "src": t} for n, t in fl]
    path = "example.com/c17/p%d" % i
    u = g.uid
    t = "package p%d\n\n" % i
    t += "func CheckIn%d() {\n%s}\n\n" % (u(), g.body(2))
    dd = derived_test_decls(g, rng.fork("derived%d" % i))
    t += "\n\n".join(dd) + "\n"
    variants = [{"tag": "plain", "pkgpath": path, "files": plain},
                {"tag": "test", "pkgpath": path, "register": True, "files": plain + [{"name": IN_TEST, "src": t}]}]
    if i % 3 != 0:
        exp = [f.name for f in g.funcs if f.name[:1].isupper()]
        x = "package p%d_test\n\nimport \"%s\"\n\n" % (i, path)
        x += "func CheckExt%d() {\n%s\textUsed%d()\n}\n\n" % (u(), "".join("\t_ = p%d.%s\n" % (i, n) for n in exp[:3]), i)
        x += "func extUsed%d() {}\n\nfunc extUnused%d() {}\n\ntype extT%d struct {\n\ta%d int\n}\n" % (i, u(), u(), u())
        if not exp:
            x = x.replace("import \"%s\"\n\n" % path, "")
        variants.append({"tag": "ext", "pkgpath": path + "_test", "files": [{"name": EXT_TEST, "src": x}]})
    k = len(variants)
    full = all_perms(k)
    orders = full + [[j] for j in range(k)] + [[0, 0], list(range(k)) * 2, [1, 0, 1]]
    return {"id": "vmerge/%d" % i, "variants": variants, "orders": orders}, g, len(full)


def node_key(nd):
    return (nd["k"], nd["n"], nd["b"], nd["l"], nd["c"])


def vmerge_eval(ctx, jobs, outs):
    """tie: the model's `mergeAll` of the real raw graphs must be, node for node and edge for
    edge, the graph the real Merge built, and the real colouring must be the model's; the
    hypotheses of the theorems (variantOk, pathsConsistent) are probed on the real graphs;
    the union colouring (`gmerge_used_iff`) must give the real Used positions.
    oracle: an object reported by the merged graph is Used in no merged variant; all orders of
    the same variants, and merging variants repeatedly, report the same objects."""
    corr, viol = [], []
    st = {"packages": 0, "variant_graphs": 0, "merges": 0, "orders_per_package": {}, "nodes_merged_max": 0,
          "objects_used_only_in_a_test_variant": 0, "objects_whose_objectpath_differs_between_variants": 0,
          "nodes_with_path": 0, "merged_nodes_without_objectpath(identified_by_position_only)": 0, "reported_by_merge": 0}
    lines, meta = [], []
    for jb, g, nfull in jobs:
        o = outs[jb["id"]]
        if o.get("err"):
            raise vlib.HarnessError("c17run failed on %s: %s" % (jb["id"], o["err"]))
        vs = o.get("variants") or []
        for v in vs:
            if v.get("type_errs"):
                raise vlib.HarnessError("generated variant %s/%s does not type-check: %s" % (jb["id"], v["tag"], v["type_errs"][:2]))
            if v.get("err"):
                raise vlib.HarnessError("c17run failed on %s/%s: %s" % (jb["id"], v["tag"], v["err"]))
            if not v.get("ids_ok"):
                corr.append({"id": jb["id"], "variant": v["tag"], "what": "unused.Graph: node i does not carry id i (assumption of the Merge model)"})
        st["packages"] += 1
        st["variant_graphs"] += len(vs)
        st["orders_per_package"][str(len(jb["orders"]))] = st["orders_per_package"].get(str(len(jb["orders"])), 0) + 1
        paths, poss = {"": 0}, {"": 0}
        enc = []
        for v in vs:
            ids = ["0.0"]
            for nd in v.get("nodes") or []:
                a = paths.setdefault(nd.get("p", ""), len(paths))
                b = poss.setdefault(nd.get("q", ""), len(poss))
                ids.append("%d.%d" % (a, b))
                st["nodes_with_path"] += 1 if a else 0
            enc.append("%d %s %s %s" % (v["n"], ",".join(ids), v.get("uses") or "-", v.get("owns") or "-"))
        # statistics on what the population exercises
        by_pos = {}
        for v in vs:
            for nd in v.get("nodes") or []:
                by_pos.setdefault(nd.get("q", ""), set()).add(nd.get("p", ""))
        st["objects_whose_objectpath_differs_between_variants"] += sum(1 for q, ps in by_pos.items() if q and len(ps - {""}) > 1)
        if len(vs) >= 2:
            plain_unused = set(v for v in (vs[0].get("unused") or []))
            st["objects_used_only_in_a_test_variant"] += sum(1 for x in plain_unused if x in set(vs[1].get("used") or []))
        for m in o.get("merges") or []:
            if m.get("err"):
                corr.append({"id": jb["id"], "order": m["order"], "what": "the real Merge failed", "err": m["err"]})
                continue
            lines.append("gmerge %d %s" % (len(m["order"]), " ".join(enc[j] for j in m["order"])))
            meta.append((jb, o, m, paths, poss))
    model = run_model_par(ctx, lines, nproc=4)
    for (jb, o, m, paths, poss), line, mo in zip(meta, lines, model):
        st["merges"] += 1
        st["nodes_merged_max"] = max(st["nodes_merged_max"], m["n"])
        vs = o["variants"]
        tagorder = [vs[j]["tag"] for j in m["order"]]
        if mo in ("bad-op", "panic"):
            corr.append({"id": jb["id"], "order": tagorder, "what": "the Merge model rejects the real variant graphs", "lean": mo})
            continue
        f = dict(t.split("=", 1) for t in mo.split())
        if f.get("ok") != "1" or f.get("pc") != "1":
            corr.append({"id": jb["id"], "order": tagorder, "what": "hypotheses of the gmerge_* theorems fail on the real variant graphs "
                         "(variantOk: root without identity, every node with column, edges in range; pathsConsistent: equal object paths => equal positions)",
                         "variantOk": f.get("ok"), "pathsConsistent": f.get("pc")})
        real_ids = ["0.0"] + ["%d.%d" % (paths.get(nd.get("p", ""), -1), poss.get(nd.get("q", ""), -1)) for nd in m.get("nodes") or []]
        real = {"n": str(m["n"]), "ids": ",".join(real_ids), "uses": m.get("uses") or "-", "owns": m.get("owns") or "-", "col": m.get("colors") or ""}
        dif = [k for k in ("n", "ids", "uses", "owns", "col") if f.get(k, "") != real[k]]
        if dif:
            corr.append({"id": jb["id"], "order": tagorder, "what": "model mergeAll of the real variant graphs != graph built by the real SerializedGraph.Merge (tie X)",
                         "differs_in": dif, "model": {k: f.get(k, "")[:160] for k in dif}, "real": {k: real[k][:160] for k in dif}})
        if m.get("res_err"):
            corr.append({"id": jb["id"], "order": tagorder, "what": "Results() of the merged graph is not the partition of its nodes by the colours of Dot()", "detail": m["res_err"]})
        # merge-then-colour = colouring of the union of the use relations (gmerge_used_iff), on the real colours
        un = set(int(x) for x in f.get("union", "").split(",") if x) - {0}
        real_used_pos = set(poss.get(nd.get("q", ""), -1) for nd, c in zip(m.get("nodes") or [], m.get("colors") or "") if c == "U" and nd["k"] != "root")
        if un != real_used_pos:
            corr.append({"id": jb["id"], "order": tagorder, "what": "positions Used in the real merged graph != positions reachable in the union of the variants' use relations",
                         "only_union": sorted(un - real_used_pos)[:8], "only_real": sorted(real_used_pos - un)[:8]})
        # ---- oracle on the real outputs
        reported = sorted(node_key(nd) for nd, c in zip(m.get("nodes") or [], m.get("colors") or "") if c == "X")
        m["_reported"] = reported
        m["_used"] = sorted(set(node_key(nd) for nd, c in zip(m.get("nodes") or [], m.get("colors") or "") if c == "U" and nd["k"] != "root"))
        if len(m["order"]) == len(vs) and sorted(m["order"]) == list(range(len(vs))) and m["order"] == sorted(m["order"]):
            st["reported_by_merge"] += len(reported)
            dedup = sum(1 for nd in m.get("nodes") or [] if nd["k"] != "root" and not nd.get("p"))
            st["merged_nodes_without_objectpath(identified_by_position_only)"] += dedup
        for key in reported:
            ks = "%s %s %s:%d:%d" % key
            for j in sorted(set(m["order"])):
                if ks in set(vs[j].get("used") or []):
                    viol.append(("vmerge_reported_but_used", jb, {
                        "object": ks, "reported_by": "Results() of the graph merged in the order %s" % tagorder,
                        "used_in_variant": vs[j]["tag"], "merged_nodes_at_that_position": sum(1 for nd in m["nodes"] if node_key(nd) == key)}))
                    break
    # order independence / idempotence of the real merge
    for jb, g, nfull in jobs:
        o = outs[jb["id"]]
        ms = [m for m in (o.get("merges") or []) if "_reported" in m]
        k = len(o["variants"])
        groups = {}
        for m in ms:
            groups.setdefault(tuple(sorted(set(m["order"]))), []).append(m)
        for members, grp in groups.items():
            first = grp[0]
            for m in grp[1:]:
                if m["_reported"] != first["_reported"] or m["_used"] != first["_used"]:
                    a, b = set(first["_reported"]), set(m["_reported"])
                    viol.append(("vmerge_order", jb, {
                        "orders": [[o["variants"][j]["tag"] for j in first["order"]], [o["variants"][j]["tag"] for j in m["order"]]],
                        "reported_only_by_first": ["%s %s %s:%d:%d" % x for x in sorted(a - b)][:6],
                        "reported_only_by_second": ["%s %s %s:%d:%d" % x for x in sorted(b - a)][:6],
                        "used_differs": m["_used"] != first["_used"]}))
                    break
    return corr, viol, st


def vmerge_corpus_jobs():
    """corpus packages that have _test.go files, as variant-merge jobs (run first)"""
    out = []
    if not os.path.isdir(CORPUS):
        return out
    for d in sorted(os.listdir(CORPUS)):
        p = os.path.join(CORPUS, d)
        if not os.path.isdir(p):
            continue
        fs = sorted(f for f in os.listdir(p) if f.endswith(".go"))
        tests = [f for f in fs if f.endswith("_test.go")]
        if not tests:
            continue
        src = {f: open(os.path.join(p, f)).read() for f in fs}
        plain = [{"name": f, "src": src[f]} for f in fs if f not in tests]
        ext = [f for f in tests if re.search(r"^package \w+_test\b", src[f], re.M)]
        intest = [f for f in tests if f not in ext]
        path = "example.com/" + d
        variants = [{"tag": "plain", "pkgpath": path, "files": plain}]
        if intest:
            variants.append({"tag": "test", "pkgpath": path, "register": True, "files": plain + [{"name": f, "src": src[f]} for f in intest]})
        if ext:
            variants.append({"tag": "ext", "pkgpath": path + "_test", "files": [{"name": f, "src": src[f]} for f in ext]})
        k = len(variants)
        full = all_perms(k)
        out.append(({"id": "vmerge/corpus_" + d, "variants": variants, "orders": full + [[j] for j in range(k)] + [[0, 0], list(range(k)) * 2]}, None, len(full)))
    return out


def vmerge_phase(ctx, binary, rng, n_pkgs, jobs=None):
    if jobs is None:
        jobs = vmerge_corpus_jobs() + [vmerge_job(rng, i, 2 + i % 7) for i in range(n_pkgs)]
    outs = run_jobs(ctx, binary, [j for j, _, _ in jobs], None, 4)
    corr, viol, st = vmerge_eval(ctx, jobs, outs)
    hist = {}
    for _, g, _ in jobs:
        if g is not None:
            for k, v in g.hist.items():
                hist[k] = hist.get(k, 0) + v
    return {"corr": corr, "violations": viol, "stats": st, "hist": hist}


def vmerge_replay_case(kind, jb, detail):
    return {"kind": "vmerge", "what": kind, "job": jb, "detail": detail,
            "how_to_replay": "./check C17 --replay <this file>  — runs harness/cmd/c17run on `job`: every variant through the real unused.Analyzer "
                             "(verdict per variant) and the real unused.Graph, then the graphs merged by the real SerializedGraph.Merge in the listed orders; "
                             "an object must not be reported by the merged graph when a merged variant uses it, and all orders must report the same objects. "
                             "By hand: write the files of the `test` variant into a directory of a module and run `go run honnef.co/go/tools/internal/cmd/unused ./...`"}


# ============================================================================ driver
def replay_progs_from(case):
    p = Prog(case["id"], case["pkgpath"])
    p.gopath = bool(case.get("gopath"))
    base = [(n, s) for n, s in case["base_files"]]
    var = [(n, s) for n, s in case["variant_files"]]
    p.base = (base, None)
    return p, base, var


def run_replay(ctx, binary, sc):
    rp = json.load(open(ctx.replay))
    cases = rp.get("cases", [rp])
    for case in cases:
        if case.get("kind") in ("order", "monotone"):
            p, base, var = replay_progs_from(case)
            env = {"GOPATH": os.path.join(vlib.REPO, "unused", "testdata"), "GO111MODULE": "off"} if p.gopath else None
            outs = run_jobs(ctx, binary, [job("base", p.pkgpath, base), job("variant", p.pkgpath, var)], env, 1)
            ob, ov = outs["base"], outs["variant"]
            for o in (ob, ov):
                if o.get("type_errs") or o.get("err"):
                    raise vlib.HarnessError("replay does not load: %s" % (o.get("type_errs") or o.get("err")))
            if case["kind"] == "order":
                rb, rv = reported_names(ob), reported_names(ov)
                print("replay %s: reported in base order %d, in variant order %d" % (case["id"], len(rb), len(rv)))
                if rb != rv:
                    ctx.violation("replay_" + os.path.basename(ctx.replay), dict(case, now={"base": rb, "variant": rv}),
                                  text="C17 replay: reported objects differ between the two orders: %s" % sorted(set(rb) ^ set(rv))[:6])
            else:
                # objects keep their positions in a monotone case (the reference is inserted at the end of a line)
                vb = verdict_map(ob, stable_ids(ob.get("nodes") or [], None))
                ve = verdict_map(ov, stable_ids(ov.get("nodes") or [], None))
                lost = [list(k) for k, c in sorted(vb.items()) if c == "U" and ve.get(k) != "U"]
                print("replay %s: %d used objects before, %d of them no longer used" % (case["id"], sum(1 for c in vb.values() if c == "U"), len(lost)))
                if lost:
                    ctx.violation("replay_" + os.path.basename(ctx.replay), dict(case, now={"lost": lost[:20]}),
                                  text="C17 replay: objects used before the added reference are not used after it: %s" % lost[:4])
        elif case.get("kind") == "vmerge":
            vr = vmerge_phase(ctx, binary, None, 0, jobs=[(case["job"], None, 0)])
            print("replay graph merge %s: %s" % (case["job"]["id"], json.dumps(vr["stats"])))
            for (kind, jb, detail) in vr["violations"][:3]:
                ctx.violation("replay_" + os.path.basename(ctx.replay), dict(case, now=detail), text="C17 replay: graph merge: %s: %s" % (kind, json.dumps(detail)[:300]))
        elif case.get("kind") == "merge":
            m = merge_phase(ctx, sc, binary, None, 0, files=case["module_files"])
            print("replay merge: %s" % json.dumps(m["stats"]))
            for v in m["violations"][:5]:
                ctx.violation("replay_" + os.path.basename(ctx.replay), v, text="C17 replay: %s reported although used in variant %s" % (v["key(pkg,base,line,name)"], v["used_in_variant"]))
    ctx.coverage.update({"evaluations": len(cases), "distinct_nontrivial": len(cases), "rule": "replay of recorded cases", "samples": []})
    return vlib.finish(ctx, "proof")


def run(ctx):
    import time
    t0 = time.time()
    phases = {}
    with ThreadPoolExecutor(max_workers=3) as ex:
        fa = ex.submit(vlib.build_harness, ctx, "c17run")
        fb = ex.submit(vlib.build_repo_cmd, ctx, "./cmd/staticcheck")
        lean_ok, lean_broke = vlib.std_lean_phase(ctx, MODULES, THEOREMS)
        phases["lean_build_audit"] = round(time.time() - t0, 1)
        binary, sc = fa.result(), fb.result()
    phases["go_builds_done"] = round(time.time() - t0, 1)
    if ctx.replay:
        return run_replay(ctx, binary, sc)
    rng = vlib.SplitMix(ctx.seed).fork("c17")
    quick = ctx.quick
    n_gen, nperm, n_ext, n_var, n_mini, n_vm = (50, 2, 2, 20, 8, 24) if quick else (800, 3, 4, 150, 30, 200)

    with ThreadPoolExecutor(max_workers=3) as ex:
        fm = ex.submit(merge_phase, ctx, sc, binary, rng.fork("variants"), n_var, None, not quick)
        fv = ex.submit(vmerge_phase, ctx, binary, rng.fork("vmerge"), n_vm)
        res = explore(ctx, binary, rng, n_gen, nperm, n_ext, True, n_mini=n_mini)
        phases["in_process_done"] = round(time.time() - t0, 1)
        vres = fv.result()
        phases["graph_merge_done"] = round(time.time() - t0, 1)
        mres = fm.result()
    phases["variants_done"] = round(time.time() - t0, 1)
    ctx.coverage["phase_seconds_since_start"] = phases

    violations = list(res["violations"])
    vviol = list(vres["violations"])
    corr = list(res["corr"]) + [dict(c, phase="variants") for c in mres["corr"]] + [dict(c, phase="graph-merge") for c in vres["corr"]]
    searched = None
    if not violations and not mres["violations"] and not vviol and (corr or not lean_ok):
        # violation search: the tie or a proof broke but every oracle held — look harder
        sr = explore(ctx, binary, rng.fork("search"), n_gen * 2, nperm + 1, n_ext + 2, False, tag="search", n_mini=n_mini * 3)
        sm = merge_phase(ctx, sc, binary, rng.fork("variants-search"), n_var * 2)
        sv = vmerge_phase(ctx, binary, rng.fork("vmerge-search"), n_vm * 3)
        violations += sr["violations"]
        mres["violations"] += sm["violations"]
        vviol += sv["violations"]
        searched = {"programs": sr["programs"], "runs": sr["runs"], "variant_packages": n_var * 2, "graph_merge_packages": n_vm * 3,
                    "mini_programs_in_all_orders": n_mini * 3}

    hist = dict(res["hist"])
    for k, v in list(mres["hist"].items()) + list(vres["hist"].items()):
        hist[k] = hist.get(k, 0) + v
    ctx.coverage.update({
        "programs": res["programs"],
        "runs_of_real_unused_in_process": res["runs"],
        "pairs_compared": res["pairs"],
        "evaluations": sum(res["pairs"].values()) + mres["stats"]["with_tests"]["reported"] + (mres["stats"]["without_tests"] or {}).get("reported", 0)
                       + vres["stats"]["merges"],
        "distinct_nontrivial": len(res["nontrivial"]),
        "rule": "one evaluation = one (base, permuted/repeated/extended copy) pair run through the real unused.Analyzer and compared, or one U1000 line "
                "of the real binary checked against all variants, or one real SerializedGraph.Merge of a package's variants in one order; non-trivial program = at least 6 nodes, >=1 reported and >=1 used unexported object",
        "lean_lines": {"verdicts(model Results vs real colours)": res["verdict_lines"], "iso(real graphs isomorphic, hypotheses of results_perm_invariant)": res["iso_checked"],
                       "embed(real extended graph is a super-graph, hypotheses of used_mono_embed)": res["embed_checked"],
                       "build(builder model on the recorded calls in random order vs real colours)": res["build_lines"],
                       "r65(rule 6.5 reachability verdict vs use edge type->embedded field of the real graph)": res["r65_lines"],
                       "gmerge(model mergeAll of the real variant graphs vs the real merged graph, hypotheses probes, union colouring)": vres["stats"]["merges"]},
        "rule_6_5": {"embedded_fields_checked": res["r65_fields"], "of_them_used_by_the_rule": res["r65_fields_used_by_rule"]},
        "all_orders": {"mini_programs(<=5 declarations)": res["mini_programs"], "declaration_orders_run": res["mini_orders"]},
        "graph_level_merge": vres["stats"],
        "monotone": {"extensions": res["pairs"]["ext"], "objects_newly_used_by_an_extension": res["ext_newly_used"], "target_verdict_before": res["ext_target_was"]},
        "variants_through_real_binary": mres["stats"],
        "variant_modes(0 in-package,1 both,2 external)": {str(m): list(mres["modes"].values()).count(m) for m in (0, 1, 2)},
        "sizes": {"nodes_total": res["nodes"], "max_nodes": res["max_nodes"], "programs_with_ambiguous_identity": res["ambiguous_identity"]},
        "generator_histogram": dict(sorted(hist.items())),
        "correspondence_diffs": len(corr),
        "samples": res["samples"],
    })
    if searched:
        ctx.coverage["violation_search"] = searched
    for s in res["skipped"][:10]:
        ctx.notes.append(s)
    ctx.assumptions += [
        "the AST walk of unused (entry/decl/stmt/read/write/namedType, implements.go) is NOT modelled: that it emits the same set of use/see events "
        "whatever the order of files and declarations is CHECKED per program (isomorphism of the real graphs, evaluated by the proved Lean checker), not proved",
        "go/types, go/parser, go/packages and the runner's construction of package variants are trusted; the in-process runs hand the analyzer the files in the chosen order",
        "identity of an object across permuted copies: (declaration, line in declaration, column, kind, name) for generated packages, unchanged positions for packages on disk (AST-level permutation)",
        "Go's quieten closure has no visited bit; the model's has — identical whenever the Go code terminates",
        "compiled Lean driver evaluates Results / iso / embed / merge / gmerge / r65 on dumps (kernel-checked theorems incl. soundness of the two checkers, compiled evaluation)",
        "graph-level merge: hypotheses of the gmerge_* theorems (root without identity, every other node with a full position, edges in range, equal object paths => equal "
        "positions) are world assumptions, PROBED on the raw graphs of every merged variant (a failed probe is reported as a correspondence diff); the two Go maps of "
        "SerializedGraph are modelled by findIdx? on the node list (keys are written only when a node is created and never overwritten)",
        "rule 6.5: *types.Struct identity is pointer identity; the struct table is read off go/types by the harness (own dereference code, not the repository's); the model's "
        "`true` must be a use edge of the real graph, its `false` the absence of one unless the embedded type has methods (rules 6.3/6.4/8.2 may add the same edge)",
        "in-process variants: plain = non-test files, test = plain + in-package _test.go, ext = external test package importing the test variant; the real go/packages "
        "loader of internal/cmd/unused (and its testmain package) is not run",
    ]

    known = vlib.load_known_findings("C17")
    n_written = 0
    for (kind, p, jid, case) in violations:
        if n_written >= 8:
            break
        n_written += 1
        name = "c17_%s_%s.json" % (kind, jid.replace("/", "_").replace("[", "_").replace("]", ""))
        d = case["detail"]
        if kind == "monotone":
            text = "C17 monotone: %s: adding `%s` to used %s turns used objects into non-used ones: %s" % (
                jid, d["added_reference"]["inserted"], d["added_reference"]["from"][4], d["used_before_but_not_after"][:3])
        else:
            text = "C17 %s: %s: reported only in base order %s, only in the other order %s" % (
                kind, jid, d["reported_only_in_base_order"][:3], d["reported_only_in_variant_order"][:3])
        ctx.violation(name, case, text=text)
    for v in mres["violations"][:4]:
        name = "c17_merge_%s_%d_%s.json" % (v["key(pkg,base,line,name)"][1].replace(".", "_"), v["key(pkg,base,line,name)"][2], v["key(pkg,base,line,name)"][0].split("/")[-1])
        ctx.violation(name, v, text="C17 merge: %s is reported by `staticcheck` although variant %s of its package uses it" % (v["key(pkg,base,line,name)"], v["used_in_variant"]))
    seen_v = set()
    for (kind, jb, detail) in vviol:
        if (kind, jb["id"]) in seen_v or len(seen_v) >= 6:
            continue
        seen_v.add((kind, jb["id"]))
        name = "c17_%s_%s.json" % (kind, jb["id"].replace("/", "_"))
        if kind == "vmerge_reported_but_used":
            text = "C17 graph merge: %s: `%s` is reported by the merged graph (%s) although variant %s uses it" % (
                jb["id"], detail["object"], detail["reported_by"], detail["used_in_variant"])
        else:
            text = "C17 graph merge: %s: merging the same variants in the orders %s reports different objects: %s / %s" % (
                jb["id"], detail["orders"], detail["reported_only_by_first"][:3], detail["reported_only_by_second"][:3])
        ctx.violation(name, vmerge_replay_case(kind, jb, detail), text=text)
    if len(violations) > n_written:
        ctx.notes.append("%d further failing pairs not written as replays" % (len(violations) - n_written))
    if not ctx.violations and (corr or not lean_ok):
        ctx.violation("correspondence.json", {
            "what": "the Lean model (Results / isomorphism / embedding / merge) no longer agrees with the real code, or a proof no longer checks; "
                    "the oracles held on every explored pair, including the enlarged search",
            "diffs": corr[:20], "lean": lean_broke, "search": searched,
            "correspondence": "c17driver verdicts/iso/embed/merge streams vs unused.Debug dumps and staticcheck output; theorems " + ", ".join(THEOREMS),
        }, nofail=True)
    return vlib.finish(ctx, "proof")


META = {
    "level": "proof",
    "technique": "Lean 4 theorems over a model of the unused graph builder (node/addUse/addOwned/use/see as a fold over events), colouring "
                 "(color/colorAndQuieten/Results), the variant merge of lintcmd.lint, the graph-level merge SerializedGraph.Merge (transliterated: "
                 "lookup by path else by position, remapping, unioned edge lists) and rule 6.5 of namedType (hasExportedField); executable correspondence "
                 "against the real unused.Analyzer / unused.Graph / SerializedGraph.Merge (in-process, graphs read back) and the real staticcheck "
                 "binary; proved-sound Lean checkers and executable hypothesis probes on real graphs",
    "text": "Proved for all graphs: a node's verdict depends only on root-reachability over uses and on lying below an unseen owner, hence is invariant under "
            "any renumbering of nodes and any order/multiplicity of edges (results_perm_invariant); more use edges never shrink Used (used_mono_embed, "
            "add_uses_monotone). Proved for all event lists: the graph built by node/addUse/addOwned/use/see gives every object a verdict that depends only on the "
            "set of events (build_perm_invariant), and appending use events keeps used objects used (build_add_use_monotone). Proved for all variant lists: a key is "
            "reported by lintcmd iff some enabled variant has it unused and no variant has it used, independent of variant order (reported_iff, merge_order_independent). "
            "Proved for all lists of variant graphs analysed from source (root without identity, every node with a full position, equal object paths imply equal "
            "positions — probed on every real input): SerializedGraph.Merge yields one node per position (gmerge_pos_unique); a merged node is Used iff its position is "
            "reachable in the union of the variants' use relations (gmerge_used_iff, unionUsed_iff), so the Used positions depend only on the set of variants "
            "(gmerge_set_invariant: commutative, associative, idempotent), an object Used in any variant is Used in the merge (gmerge_used_of_variant_used) and a node not "
            "Used in the merge is Used in no variant (gmerge_reported_only_if_unused_everywhere). Proved for all struct tables: rule 6.5's hasExportedField answers true iff "
            "a struct with an exported field is reachable over embedded fields without touching the declaring struct (rule65_iff), independent of field order "
            "(rule65_field_order_invariant) and of declaration order (rule65_calls_perm); negative examples show a per-graph memo and a path-only lookup break this. "
            "Explored, not proved: that the rest of the AST walk emits the same events for every order of files/declarations — checked per program by running the real "
            "analyzer on permuted, repeated and single-reference-extended copies (every order for programs of <= 5 declarations around cycles of embedded structs, sampled "
            "beyond; the real graphs must satisfy the theorems' hypotheses as evaluated by the proved Lean checkers), and that the runner's variants merge as modelled — "
            "checked against the real `staticcheck` with and without tests and against the real SerializedGraph.Merge in every order of the variants.",
    "note": "Trusted: Lean kernel; compiled c17driver; harness/cmd/c17run + internal/c17pkg (reads unexported fields of unused.Node / SerializedGraph through "
            "reflect+unsafe, extracts the struct table from go/types); python generator/identity mapping; go/types, go/packages, objectpath. "
            "The AST walk other than rule 6.5 (≈1.1 kLoC) and implements.go are outside the model and reached only through the runs; internal/cmd/unused itself "
            "(loader + printing) is not run, its Merge/Results calls are.",
    "design_ref": "DESIGN.md section 5, C17",
}
