"""C09 — pattern bindings: alternatives are atomic, names bind consistently.

Lean: Verif/C09/{Model,Lemmas,Refine,NoPanic,Consistent,AstEq,Structural,ParserLemmas,Spelling,Theorems}.lean —
the matcher of pattern/match.go as a state machine over (State, setBindings stack of 64-bit masks), the
parser's index assignment for both binding spellings, a functional specification with immutable
environments, and the theorems listed in THEOREMS.

Tie X: harness/cmd/c09match runs the real pattern.Parser + pattern.Match in-process on generated
(pattern text, Go snippet) pairs and prints ok flag + sorted State (structural dump) + the parsed
Pattern.Root serialised structurally (Binding.idx by reflection) + Pattern.Bindings.  The Lean driver
  - runs the model matcher AND the specification on the REAL parser's Root/Bindings and the serialised tree
    (so the matcher tie does not depend on the parser tie),
  - evaluates wfIdx (the hypothesis of the theorems) on the real Root/Bindings,
  - parses the same pattern text with the model parser and compares the structure with the real Root.

Oracle (evaluated on the real code's outputs):
  (a) a successful real match leaves exactly the bindings of specMatch (the specification:
      Or = first alternative succeeding from the incoming environment, Not = environment
      unchanged, repeated name = structurally equal);
  (b) a well-formed pattern never panics "binding already created";
  (c) every spelling of the same abstract pattern ((Binding "n" p) / n@p / mixed) gives the
      same result on the real code.
"""
import json
import os

import vlib

MODULES = ["Verif.C09.Theorems"]
THEOREMS = [
    "Verif.C09.impl_refines_spec",
    "Verif.C09.impl_fail_spec",
    "Verif.C09.visible_names",
    "Verif.C09.repeat_consistent",
    "Verif.C09.repeat_structurally_equal",
    "Verif.C09.spellings_agree",
    "Verif.C09.parse_wfIdx",
    "Verif.C09.no_panic",
    "Verif.C09.astEq_sound",
]

CORPUS = os.path.join(vlib.VERIF, "corpus", "C09", "cases.txt")


def hx(s):
    return "-" if s == "" else s.encode().hex()


def unhx(s):
    return "" if s == "-" else bytes.fromhex(s).decode()


# ----------------------------------------------------------------------------- mini Go AST
IDENTS = ["a", "b", "c", "x", "y", "f", "g"]
BINOPS = ["+", "-", "*", "<", "==", "&&"]


class Gen:
    """Generates (abstract pattern, snippet) pairs. Everything derives from one SplitMix."""

    def __init__(self, rng):
        self.r = rng

    # ---- snippets (tuples mirroring go/ast)
    def expr(self, d):
        r = self.r
        k = r.below(100)
        if d <= 0 or k < 30:
            if r.chance(1, 4):
                return ("BasicLit", "INT", str(r.below(3)))
            return ("Ident", r.choice(IDENTS[:4] if r.chance(3, 4) else IDENTS))
        if k < 55:
            x = self.expr(d - 1)
            y = x if r.chance(1, 3) else self.expr(d - 1)   # repeated subtrees on purpose
            return ("BinaryExpr", x, r.choice(BINOPS), y)
        if k < 75:
            n = r.choice([0, 1, 1, 2, 2, 3])
            args = []
            for i in range(n):
                if args and r.chance(1, 3):
                    args.append(r.choice(args))
                else:
                    args.append(self.expr(d - 1))
            return ("CallExpr", ("Ident", r.choice(["f", "g"])), args)
        if k < 82:
            return ("ParenExpr", self.expr(d - 1))
        if k < 88:
            return ("UnaryExpr", r.choice(["-", "!"]), self.expr(d - 1))
        if k < 93:
            return ("SelectorExpr", self.expr(d - 1), ("Ident", r.choice(IDENTS)))
        if k < 97:
            return ("IndexExpr", self.expr(d - 1), self.expr(d - 1))
        return ("StarExpr", self.expr(d - 1))

    def stmt(self, d):
        r = self.r
        k = r.below(100)
        if d <= 0 or k < 35:
            n = 1 if r.chance(3, 4) else 2
            lhs = [self.expr(0) for _ in range(n)]
            if r.chance(1, 3):
                rhs = list(lhs)
            else:
                rhs = [self.expr(max(d, 1) - 1) for _ in range(n)]
            return ("AssignStmt", lhs, r.choice(["=", "=", ":=", "+="]) if n == 1 else "=", rhs)
        if k < 50:
            return ("ExprStmt", self.expr(d))
        if k < 58:
            return ("IncDecStmt", self.expr(0), r.choice(["++", "--"]))
        if k < 66:
            return ("ReturnStmt", [self.expr(d - 1) for _ in range(r.below(3))])
        if k < 80:
            els = None
            if r.chance(1, 2):
                els = ("BlockStmt", [self.stmt(d - 1) for _ in range(r.below(3))])
            body = [self.stmt(d - 1) for _ in range(r.below(3))]
            if els is not None and r.chance(1, 3):
                els = ("BlockStmt", list(body))
            return ("IfStmt", None, self.expr(d - 1), body, els)
        if k < 86:
            return ("BlockStmt", [self.stmt(d - 1) for _ in range(r.below(3))])
        if k < 90:
            return ("LabeledStmt", "L", self.stmt(d - 1))
        if k < 94:
            return ("GoStmt" if r.chance(1, 2) else "DeferStmt", ("CallExpr", ("Ident", "f"), [self.expr(d - 1)]))
        if k < 97:
            return ("ForStmt", None, self.expr(d - 1), None, [self.stmt(d - 1) for _ in range(r.below(2) + 1)])
        return ("SendStmt", self.expr(0), self.expr(d - 1))

    # ---- abstraction of a snippet into a pattern
    def fresh(self, c):
        r = self.r
        pool = c["pool"]
        if c["names"] and r.chance(1, 3):
            return r.choice(c["names"])
        n = pool[r.below(len(pool))]
        if n not in c["names"]:
            c["names"].append(n)
        return n

    def wrong_leaf(self, n):
        r = self.r
        k = r.below(4)
        if k == 0:
            return ("node", "Ident", [("str", "zzz")])
        if k == 1:
            return ("node", "BasicLit", [("str", "INT"), ("str", "99999")])
        if k == 2:
            return ("node", "EmptyStmt", [])
        return ("nil",)

    def pat_list(self, xs, c, d, wrong=False):
        """pattern for a slice field"""
        r = self.r
        k = r.below(100)
        if not wrong:
            if k < 8:
                return ("any",)
            if k < 14:
                return self.binder_bare(c)
            if len(xs) == 1 and k < 30:
                return self.abstract(xs[0], c, d)          # a single node matches a 1-element list
            if xs and k < 45:
                # head:tail
                t = ("any",) if r.chance(1, 2) else (self.binder_bare(c) if r.chance(1, 2) else self.pat_list(xs[1:], c, d - 1))
                h = self.abstract(xs[0], c, d)
                if h[0] == "str" or h[0] == "list":
                    h = ("any",)
                return ("cons", h, t)
            return ("list", [self.abstract(x, c, d) for x in xs])
        # wrong: binds early elements, fails at the last one (List.Match evaluates head and tail)
        if not xs:
            return ("list", [("any",)])
        els = [self.binding_of(x, c, d) for x in xs[:-1]] + [self.wrong_leaf(xs[-1])]
        return ("list", els)

    def binder_bare(self, c):
        return ("bare", self.fresh(c))

    def binding_of(self, n, c, d):
        """a pattern for n that certainly matches and binds a name (if a name is free)"""
        r = self.r
        name = self.fresh(c)
        if name in c["at"] or r.chance(1, 3):
            return ("bare", name)
        inner = self.structural(n, c, d - 1, exact=r.chance(1, 2))
        if inner[0] != "node":
            return ("bare", name)
        c["at"].add(name)
        return ("bind", name, inner)

    def tokpat(self, t):
        r = self.r
        k = r.below(10)
        if k < 6:
            return ("str", t)
        if k < 8:
            return ("any",)
        return ("or", [("str", r.choice(["+", "-", "=", "++", "!"])), ("str", t)])

    def kidpat(self, x, c, d, exact):
        if x is None:
            return ("nil",) if exact or self.r.chance(2, 3) else ("any",)
        return self.structural(x, c, d, True) if exact else self.abstract(x, c, d)

    def lstpat(self, xs, c, d, exact):
        if exact:
            return ("list", [self.structural(x, c, d, True) for x in xs])
        return self.pat_list(xs, c, d)

    def structural(self, n, c, d, exact=False, wrong=False):
        """node pattern following the shape of n; wrong=True: bind in early fields, fail in the last"""
        r = self.r
        k = n[0]
        sub = (lambda x: self.kidpat(x, c, d - 1, exact))
        lst = (lambda xs: self.lstpat(xs, c, d - 1, exact))
        tok = (lambda t: ("str", t) if exact else self.tokpat(t))
        if k == "Ident":
            if wrong:
                return ("node", "Ident", [("str", "zzz")])
            if exact or r.chance(1, 2):
                return ("node", "Ident", [("str", n[1])])
            if r.chance(1, 4):
                return ("node", "Ident", [self.binder_bare(c)])
            return ("node", "Ident", [("any",)])
        if k == "BasicLit":
            if wrong:
                return ("node", "BasicLit", [("str", n[1]), ("str", "99999")])
            return ("node", "BasicLit", [tok(n[1]), ("str", n[2]) if exact or r.chance(1, 2) else ("any",)])
        if k in ("ParenExpr", "ExprStmt"):
            return self.structural(n[1], c, d, exact, wrong)
        if k == "LabeledStmt":
            return self.structural(n[2], c, d, exact, wrong)
        if k == "BlockStmt":
            # a block is seen as its statement list
            return self.pat_list(n[1], c, d, wrong) if not exact else lst(n[1])
        if k == "BinaryExpr":
            if wrong:
                return ("node", k, [self.binding_of(n[1], c, d), ("str", n[2]) if r.chance(1, 2) else ("any",),
                                    self.wrong_leaf(n[3]) if r.chance(1, 2) else self.structural(n[3], c, d - 1, wrong=True)])
            return ("node", k, [sub(n[1]), tok(n[2]), sub(n[3])])
        if k == "UnaryExpr":
            if wrong:
                return ("node", k, [self.binder_bare(c), self.wrong_leaf(n[2])])
            return ("node", k, [tok(n[1]), sub(n[2])])
        if k == "CallExpr":
            if wrong:
                return ("node", k, [self.binding_of(n[1], c, d), self.pat_list(n[2], c, d - 1, wrong=True)])
            return ("node", k, [sub(n[1]), lst(n[2])])
        if k == "SelectorExpr":
            if wrong:
                return ("node", k, [self.binding_of(n[1], c, d), self.wrong_leaf(n[2])])
            return ("node", k, [sub(n[1]), sub(n[2])])
        if k == "IndexExpr":
            if wrong:
                return ("node", k, [self.binding_of(n[1], c, d), self.wrong_leaf(n[2])])
            return ("node", k, [sub(n[1]), sub(n[2])])
        if k == "StarExpr":
            if wrong:
                return ("node", k, [self.structural(n[1], c, d - 1, wrong=True)])
            return ("node", k, [sub(n[1])])
        if k == "AssignStmt":
            if wrong:
                return ("node", k, [self.pat_list(n[1], c, d - 1) if len(n[1]) != 1 else self.binding_of(n[1][0], c, d),
                                    ("any",), self.pat_list(n[3], c, d - 1, wrong=True)])
            return ("node", k, [lst(n[1]), tok(n[2]), lst(n[3])])
        if k == "IncDecStmt":
            if wrong:
                return ("node", k, [self.binding_of(n[1], c, d), ("str", "+=")])
            return ("node", k, [sub(n[1]), tok(n[2])])
        if k == "ReturnStmt":
            if wrong:
                return ("node", k, [self.pat_list(n[1], c, d - 1, wrong=True)])
            return ("node", k, [lst(n[1])])
        if k == "IfStmt":
            els = n[4]
            if wrong:
                return ("node", k, [("any",), self.binding_of(n[2], c, d), self.pat_list(n[3], c, d - 1),
                                    ("node", "EmptyStmt", []) if r.chance(1, 2) else self.pat_list(els[1] if els else [], c, d - 1, wrong=True)])
            ep = ("nil",) if els is None and (exact or r.chance(2, 3)) else (("any",) if els is None else (lst(els[1])))
            return ("node", k, [sub(n[1]), sub(n[2]), lst(n[3]), ep])
        if k in ("GoStmt", "DeferStmt"):
            if wrong:
                return ("node", k, [self.structural(n[1], c, d - 1, wrong=True)])
            return ("node", k, [sub(n[1])])
        if k == "ForStmt":
            if wrong:
                return ("node", k, [("any",), self.binding_of(n[2], c, d), ("any",), self.pat_list(n[4], c, d - 1, wrong=True)])
            return ("node", k, [sub(n[1]), sub(n[2]), sub(n[3]), lst(n[4])])
        if k == "SendStmt":
            if wrong:
                return ("node", k, [self.binding_of(n[1], c, d), self.wrong_leaf(n[2])])
            return ("node", k, [sub(n[1]), sub(n[2])])
        raise vlib.HarnessError("generator: unknown snippet node " + k)

    def abstract(self, n, c, d):
        r = self.r
        if n is None:
            return ("nil",) if r.chance(2, 3) else ("any",)
        if d <= 0:
            return ("any",) if r.chance(1, 2) else self.structural(n, c, 0, exact=True)
        k = r.below(100)
        if k < 10:
            return ("any",)
        if k < 32:
            name = self.fresh(c)
            if r.chance(2, 5) or name in c["at"]:
                if name in c["at"] and r.chance(1, 40):
                    pass    # deliberately ill-formed now and then: rebinding with a node
                else:
                    return ("bare", name)
            inner = self.abstract_node(n, c, d - 1)
            if inner[0] == "node":
                c["at"].add(name)
                return ("bind", name, inner)
            if r.chance(1, 2):
                return ("bindx", name, inner)      # only expressible as (Binding "n" obj)
            return ("bare", name)
        if k < 52:
            return self.or_of(n, c, d)
        if k < 62:
            saved_at, saved_names = set(c["at"]), list(c["names"])
            if r.chance(2, 3):
                p = ("not", self.structural(n, c, d - 1, wrong=True))
            else:
                p = ("not", self.abstract_node(n, c, d - 1))
            c["at"] = saved_at                    # bindings under Not are never visible
            return p
        return self.structural(n, c, d)

    def abstract_node(self, n, c, d):
        """like abstract but more likely a parenthesised node"""
        r = self.r
        k = r.below(10)
        if k < 2:
            return self.or_of(n, c, d)
        return self.structural(n, c, d, exact=(k == 2))

    def or_of(self, n, c, d):
        r = self.r
        nalt = r.choice([2, 2, 3, 3, 4])
        right = r.below(nalt + 1)     # == nalt: no alternative matches by construction
        alts = []
        at0 = set(c["at"])
        union = set(at0)
        for i in range(nalt):
            c["at"] = set(at0)
            if i == right:
                alts.append(self.abstract_node(n, c, d - 1) if r.chance(3, 4) else ("any",))
            else:
                alts.append(self.structural(n, c, d - 1, wrong=True))
            union |= c["at"]
        c["at"] = union
        return ("or", alts)

    def case(self, i):
        r = self.r
        kind = "e" if r.chance(1, 2) else "s"
        d = r.choice([1, 2, 2, 3])
        n = self.expr(d) if kind == "e" else self.stmt(d)
        npool = r.choice([2, 3, 3, 4, 6])
        c = {"pool": ["n%d" % j for j in range(npool)], "names": [], "at": set()}
        p = None
        for _ in range(20):
            c["names"], c["at"] = [], set()
            p = self.abstract(n, c, d + 1)
            if p[0] in ("node", "or", "not"):
                break
        else:
            p = ("or", [p if p[0] not in ("bare",) else ("any",), ("any",)])
        return p, kind, n

    def wide_case(self, k):
        """k names bound in one failing alternative, a subset in the succeeding one"""
        r = self.r
        args = [("Ident", "x%d" % i) for i in range(k)]
        n = ("CallExpr", ("Ident", "f"), args)
        perm = r.shuffle(list(range(k)))
        a1 = [("bind", "v%d" % perm[i], ("node", "Ident", [("any",)])) for i in range(k - 1)] + [("node", "Ident", [("str", "zzz")])]
        keep = set(i for i in range(k) if r.chance(1, 2))
        a2 = [("bind", "v%d" % perm[i], ("node", "Ident", [("any",)])) if i in keep else ("any",) for i in range(k)]
        alts = [("node", "CallExpr", [("any",), ("list", a1)])]
        if r.chance(1, 2):
            alts.append(("node", "CallExpr", [("bare", "v%d" % perm[0]), ("list", a1)]))
        alts.append(("node", "CallExpr", [("any",), ("list", a2)]))
        p = ("or", alts)
        if r.chance(1, 3):
            p = ("node", "CallExpr", [("not", ("node", "Ident", [("bare", "v%d" % perm[k - 1])])), ("or", [("list", a1), ("list", a2)])])
        return p, "e", n


# ----------------------------------------------------------------------------- rendering
def go_src(n):
    k = n[0]
    if k == "Ident":
        return n[1]
    if k == "BasicLit":
        return n[2]
    if k == "BinaryExpr":
        return "%s %s %s" % (wrap(n[1]), n[2], wrap(n[3]))
    if k == "UnaryExpr":
        return "%s%s" % (n[1], wrap(n[2]))
    if k == "CallExpr":
        return "%s(%s)" % (wrap(n[1]), ", ".join(go_src(a) for a in n[2]))
    if k == "ParenExpr":
        return "(%s)" % go_src(n[1])
    if k == "SelectorExpr":
        return "%s.%s" % (wrap(n[1]) if n[1][0] != "BasicLit" else "(" + go_src(n[1]) + ")", n[2][1])
    if k == "IndexExpr":
        return "%s[%s]" % (wrap(n[1]), go_src(n[2]))
    if k == "StarExpr":
        return "*%s" % wrap(n[1])
    if k == "AssignStmt":
        return "%s %s %s" % (", ".join(go_src(a) for a in n[1]), n[2], ", ".join(go_src(a) for a in n[3]))
    if k == "ExprStmt":
        return go_src(n[1])
    if k == "IncDecStmt":
        return "%s%s" % (go_src(n[1]), n[2])
    if k == "ReturnStmt":
        return "return " + ", ".join(go_src(a) for a in n[1])
    if k == "BlockStmt":
        return "{ " + "; ".join(go_src(s) for s in n[1]) + " }"
    if k == "IfStmt":
        s = "if %s { %s }" % (go_src(n[2]), "; ".join(go_src(x) for x in n[3]))
        if n[4] is not None:
            s += " else " + go_src(n[4])
        return s
    if k == "LabeledStmt":
        return "%s: %s" % (n[1], go_src(n[2]))
    if k == "GoStmt":
        return "go " + go_src(n[1])
    if k == "DeferStmt":
        return "defer " + go_src(n[1])
    if k == "ForStmt":
        return "for %s { %s }" % (go_src(n[2]), "; ".join(go_src(x) for x in n[4]))
    if k == "SendStmt":
        return "%s <- %s" % (go_src(n[1]), go_src(n[2]))
    raise vlib.HarnessError("render: unknown node " + k)


def wrap(n):
    """operands are parenthesised unless atomic, so that the parsed tree has exactly the shape of n
    (the extra ParenExpr are transparent to the matcher)."""
    if n[0] in ("Ident", "BasicLit", "ParenExpr", "CallExpr", "SelectorExpr", "IndexExpr"):
        return go_src(n)
    return "(" + go_src(n) + ")"


def render(p, spelling, rng=None):
    """spelling: 'at' | 'explicit' | 'mixed'"""
    k = p[0]
    if k == "any":
        return "_"
    if k == "nil":
        return "nil"
    if k == "str":
        return '"%s"' % p[1]
    if k in ("bare", "bind"):
        sp = spelling
        if sp == "mixed":
            sp = "at" if rng.chance(1, 2) else "explicit"
        if k == "bare":
            return p[1] if sp == "at" else '(Binding "%s" nil)' % p[1]
        inner = render(p[2], spelling, rng)
        return "%s@%s" % (p[1], inner) if sp == "at" else '(Binding "%s" %s)' % (p[1], inner)
    if k == "bindx":
        return '(Binding "%s" %s)' % (p[1], render(p[2], spelling, rng))
    if k == "node":
        return "(" + " ".join([p[1]] + [render(f, spelling, rng) for f in p[2]]) + ")"
    if k == "or":
        return "(Or " + " ".join(render(a, spelling, rng) for a in p[1]) + ")"
    if k == "not":
        return "(Not " + render(p[1], spelling, rng) + ")"
    if k == "list":
        return "[" + " ".join(render(a, spelling, rng) for a in p[1]) + "]"
    if k == "cons":
        return render(p[1], spelling, rng) + ":" + render(p[2], spelling, rng)
    raise vlib.HarnessError("render: unknown pattern node " + k)


def has_binding(p):
    k = p[0]
    if k in ("bare", "bind"):
        return True
    if k == "bindx":
        return has_binding(p[2])
    if k == "node":
        return any(has_binding(f) for f in p[2])
    if k in ("or", "list"):
        return any(has_binding(f) for f in p[1])
    if k == "not":
        return has_binding(p[1])
    if k == "cons":
        return has_binding(p[1]) or has_binding(p[2])
    return False


# ----------------------------------------------------------------------------- running
def parse_fields(line):
    d = {}
    for part in line.split(" | "):
        part = part.strip()
        if not part:
            continue
        sp = part.split(" ", 1)
        d[sp[0]] = sp[1] if len(sp) > 1 else ""
    return d


def run_cases(ctx, binp, cases):
    """cases: list of dict(pattern, kind, snippet, group, spelling). Fills real/model fields."""
    inp = "".join("%s %s %s\n" % (hx(c["pattern"]), c["kind"], hx(c["snippet"])) for c in cases)
    rc, so, se = vlib.run([binp], input=inp, env=vlib.go_env(), timeout=1800)
    if rc != 0:
        raise vlib.HarnessError("c09match failed rc=%d: %s" % (rc, se[-2000:]))
    outs = so.split("\n")
    if outs and outs[-1] == "":
        outs.pop()
    if len(outs) != len(cases):
        raise vlib.HarnessError("c09match: %d outputs for %d cases" % (len(outs), len(cases)))
    lines = []
    for c, o in zip(cases, outs):
        if o.startswith("X "):
            raise vlib.HarnessError("c09match rejected a case (generator bug): %s / %r / %r" % (o, c["pattern"], c["snippet"]))
        f = parse_fields(o)
        c["real"] = f
        if f.get("P") == "ok":
            bs = [x for x in f.get("B", "").split(",") if x]
            lines.append("m %s %s %d %s %s" % (hx(c["pattern"]), f["PT"], len(bs), " ".join(bs), f["T"]))
        else:
            lines.append("m %s - %s" % (hx(c["pattern"]), f["T"]))
    mo = vlib.run_model(ctx, "C09", lines)
    for c, o in zip(cases, mo):
        if o == "bad-op":
            raise vlib.HarnessError("model driver rejected: %r / %r" % (c["pattern"], c["snippet"]))
        c["model"] = parse_fields(o)
    return cases


def brief(c):
    r, m = c["real"], c["model"]
    return {
        "pattern": c["pattern"], "snippet_kind": c["kind"], "snippet": c["snippet"], "spelling": c.get("spelling"),
        "group": c.get("group"),
        "real": {"parse": r.get("P"), "result": r.get("R"), "state": r.get("ST"), "idx": r.get("I"), "bindings": r.get("B"),
                 "root": r.get("PT")},
        "spec_on_real_root": {"result": m.get("SP"), "state": m.get("SS"), "well_formed": m.get("W")},
        "model": {"parse_of_text": m.get("P"), "same_structure_as_real_root": m.get("PM"), "same_numbering": m.get("NUM"),
                  "real_indices_consistent": m.get("RW"), "result_on_real_root": m.get("R"), "state": m.get("ST")},
    }


def evaluate(cases):
    """returns (oracle failures by class, tie mismatches).

    Tie (model = code), per case: the model parser accepts/rejects the text like the real parser (P);
    it builds the same pattern structure (PM); the real parser's indices satisfy wfIdx, the hypothesis
    of the theorems (RW); the model matcher run on the REAL parser's Root + Bindings gives the real
    result and State (R, ST).  The numbering itself (NUM) is recorded, not required: any consistent
    numbering satisfies the property."""
    fails = {"leak": [], "panic_created": [], "spelling": []}
    tie = []
    groups = {}
    for c in cases:
        r, m = c["real"], c["model"]
        # --- tie
        if r.get("P") != m.get("P"):
            tie.append(("parse", c))
        if r.get("P") == "ok":
            if m.get("P") in ("ok", "err64") and m.get("PM") != "1":
                tie.append(("structure", c))
            if m.get("RW") != "1":
                tie.append(("wfIdx", c))
            if r.get("R") != m.get("R"):
                tie.append(("R", c))
            elif r["R"] == "ok" and r.get("ST") != m.get("ST"):
                tie.append(("ST", c))
        if r.get("P") != "ok":
            continue
        # --- oracle (a): exactly the bindings of the successful path
        if r["R"] == "ok" and (m["SP"] != "ok" or r["ST"] != m["SS"]):
            fails["leak"].append(c)
        # --- oracle (b)
        if r["R"] == "panic:created" and m["W"] == "1":
            fails["panic_created"].append(c)
        if c.get("group") is not None:
            groups.setdefault(c["group"], []).append(c)
    # --- oracle (c): spellings interchangeable
    for g, cs in groups.items():
        base = cs[0]
        for o in cs[1:]:
            if (o["real"].get("R"), o["real"].get("ST")) != (base["real"].get("R"), base["real"].get("ST")):
                fails["spelling"].append((base, o))
    return fails, tie


def load_corpus():
    out = []
    if not os.path.exists(CORPUS):
        return out
    for ln in open(CORPUS):
        ln = ln.rstrip("\n")
        if not ln or ln.startswith("#"):
            continue
        g, kind, pat, snip = ln.split("\t")
        out.append({"pattern": pat, "kind": kind, "snippet": snip, "group": "corpus-" + g if g != "-" else None, "spelling": "corpus"})
    return out


def generate(ctx, seed, n_base, n_wide, tag="g"):
    rng = vlib.SplitMix(seed).fork("c09-" + tag)
    gen = Gen(rng)
    cases = []
    hist = {"expr": 0, "stmt": 0, "with_bindings": 0, "wide": 0, "roots": {}}
    for i in range(n_base):
        p, kind, n = gen.case(i)
        src = go_src(n)
        hist["expr" if kind == "e" else "stmt"] += 1
        hist["roots"][p[0]] = hist["roots"].get(p[0], 0) + 1
        gid = "%s%d" % (tag, i)
        if has_binding(p):
            hist["with_bindings"] += 1
            texts = []
            for sp in ("at", "explicit", "mixed"):
                t = render(p, sp, rng)
                if t not in [x[1] for x in texts]:
                    texts.append((sp, t))
            for sp, t in texts:
                cases.append({"pattern": t, "kind": kind, "snippet": src, "group": gid, "spelling": sp})
        else:
            cases.append({"pattern": render(p, "at", rng), "kind": kind, "snippet": src, "group": None, "spelling": "-"})
    widths = [1, 2, 31, 32, 33, 62, 63, 64, 64, 64, 65, 66]
    for i in range(n_wide):
        k = widths[i % len(widths)] if i < 3 * len(widths) else 1 + rng.below(66)
        p, kind, n = gen.wide_case(k)
        src = go_src(n)
        hist["wide"] += 1
        gid = "%sw%d" % (tag, i)
        for sp in ("at", "explicit", "mixed"):
            cases.append({"pattern": render(p, sp, rng), "kind": kind, "snippet": src, "group": gid, "spelling": sp, "width": k})
    return cases, hist


# ----------------------------------------------------------------------------- repeated names over many node kinds
# families of near-identical snippets: members of one family differ in one leaf / one element
EXPR_FAMILIES = [
    ["a", "b", "(a)", "((a))"], ["1", "2", "1.5", "'c'", '"s"', '"t"', "1i"],
    ["a + b", "a - b", "a + c", "(a + b)", "a + (b)", "b + a"], ["-a", "!a", "^a", "+a", "<-a", "*a", "&a"],
    ["a << b", "a &^ b", "a && b", "a || b", "a & b"],
    ["f()", "f(a)", "f(a, b)", "f(a...)", "f(a, b...)", "g(a)", "f((a))"],
    ["a.b", "a.c", "b.b", "(a).b", "a.b.c"], ["a[i]", "a[j]", "b[i]", "a[(i)]"],
    ["a[i:j]", "a[i:j:k]", "a[:j]", "a[i:]", "a[:]", "a[:j:k]"], ["x.(T)", "x.(U)", "y.(T)", "x.(type)"],
    ["T{}", "T{1}", "T{1, 2}", "T{k: v}", "T{k: w}", "U{}", "&T{}"],
    ["[]int{1}", "[2]int{1}", "[...]int{1}", "[]int{}", "[]string{}", "map[K]V{}", "map[K]W{}"],
    ["func() {}", "func(a int) {}", "func(a, b int) {}", "func(a int, b int) {}", "func(b int) {}", "func(a ...int) {}",
     "func(int) {}", "func() int { return a }", "func() (int, error) { return a, b }", "func() (r int) { return }",
     "func() { a++ }", "func() { a++; b++ }"],
    ["chan int", "<-chan int", "chan<- int", "chan string", "chan (<-chan int)"],
    ["struct{}{}", "struct{ a int }{}", "struct{ a, b int }{}", "struct{ a int; b int }{}", "struct{ a int `t` }{}",
     "struct{ a int `u` }{}", "struct{ T }{}", "struct{ *T }{}"],
    ["interface{}(nil)", "interface{ M() }(nil)", "interface{ M(); N() }(nil)", "interface{ T }(nil)", "interface{ ~int }(nil)",
     "interface{ int | string }(nil)"],
    ["g[int](a)", "g[int, string](a)", "g[string](a)", "g[int]"], ["(*T)(p)", "[]T(nil)", "map[string]int(nil)", "*T", "**T"],
    ["func(a int) (b int)", "func(a int) (int)", "func(a int)", "func(b int)"],
]
STMT_FAMILIES = [
    ["a = b", "a = c", "a := b", "a += b", "a, b = b, a", "a, b = a, b", "(a) = b"],
    ["a++", "a--", "b++", "(a)++"], ["return", "return a", "return a, b", "return (a)", "return b"],
    ["if a {}", "if a {} else {}", "if a := b; a {}", "if a { b++ }", "if a {} else if b {}", "if b {}"],
    ["for {}", "for a {}", "for i := 0; i < n; i++ {}", "for i := 0; i < n; i-- {}", "for ; a; {}", "for a { break }"],
    ["for i := range x {}", "for i, v := range x {}", "for range x {}", "for i = range x {}", "for i := range y {}"],
    ["switch {}", "switch a {}", "switch a { case 1: }", "switch a { case 1, 2: }", "switch a { default: }",
     "switch a { case 1: default: }", "switch a := b; a {}", "switch a { case 1: fallthrough; case 2: }"],
    ["switch x := y.(type) {}", "switch y.(type) {}", "switch x := y.(type) { case int: }", "switch x := y.(type) { case int, string: }"],
    ["select {}", "select { case <-c: }", "select { case c <- a: }", "select { case v := <-c: }", "select { default: }",
     "select { case <-c: default: }"],
    ["go f()", "defer f()", "go g()", "go f(a)", "go func() {}()"],
    ["break", "continue", "goto L", "break L", "continue L", "break M"], ["L: a++", "M: a++", "L: b++", "a++"],
    ["{ a++ }", "{ a++; b++ }", "{ }", "{ { a++ } }", "{ b++ }"],
    ["var a int", "var a, b int", "var a = 1", "var a int = 1", "var b int", "var ( a int; b int )", "var a string"],
    ["const c = 1", "const c = 2", "const c int = 1", "const ( c = iota; d )"],
    ["type T int", "type T = int", "type T struct{}", "type U int", "type T[P any] int", "type T[P any, Q any] int"],
    ["c <- a", "c <- b", "d <- a"], ["f(a)", "f(b)", "(f(a))", "f((a))"], [";", "a++"],
]
PAIR_PATTERNS_E = [
    "(CallExpr _ [x x])", "(CallExpr _ x:x)", "(CallExpr _ [x (Binding \"y\" x)])", "(CallExpr _ [(Binding \"x\" nil) (Binding \"x\" nil)])",
    "(Or (CallExpr _ [x x]) (CallExpr _ [_ x]))", "(CallExpr _ [(Not x) x])", "(CallExpr _ [x (Not x)])",
    "(CallExpr _ [x (Or (Ident \"zzz\") x)])", "(CallExpr f [x x])", "(CallExpr _ (Or [x x (Ident \"zzz\")] [_ x]))",
]
PAIR_PATTERNS_S = [
    "(IfStmt _ _ x x)", "(IfStmt _ _ [x] [x])", "(IfStmt _ _ x:_ x:_)", "(IfStmt _ _ x (Binding \"y\" x))",
    "(Or (IfStmt _ _ x x) (IfStmt _ c _ x))", "(IfStmt _ _ [x] x)", "(IfStmt _ _ x [x])", "(IfStmt _ _ x (Not x))",
    "(IfStmt _ _ [(Binding \"x\" nil)] (Or nil [x]))",
]


def generate_pairs(seed, n, tag="p"):
    """`f(A, B)` / `if c { A } else { B }` against patterns that repeat a name: B is A, a transparent variant of A,
    a member of A's family (one leaf / element differs) or unrelated; covers the comparison of matchAST over
    every kind of go/ast node and field (strings, tokens, bools, ints, typed nil pointers, slices of every type)."""
    rng = vlib.SplitMix(seed).fork("c09-" + tag)
    cases = []
    hist = {"same": 0, "family": 0, "other": 0}
    for i in range(n):
        stm = rng.chance(1, 2)
        fams = STMT_FAMILIES if stm else EXPR_FAMILIES
        fam = rng.choice(fams)
        a = rng.choice(fam)
        k = rng.below(10)
        if k < 4:
            b = a
            if not stm and rng.chance(1, 3):
                b = "(" + a + ")"
            hist["same"] += 1
        elif k < 8:
            b = rng.choice(fam)
            hist["family"] += 1
        else:
            b = rng.choice(rng.choice(fams))
            hist["other"] += 1
        if stm:
            src = "if c { %s } else { %s }" % (a, b)
            pat = rng.choice(PAIR_PATTERNS_S)
        else:
            src = "f(%s, %s)" % (a, b)
            pat = rng.choice(PAIR_PATTERNS_E)
        cases.append({"pattern": pat, "kind": "s" if stm else "e", "snippet": src, "group": None, "spelling": "-", "stream": "pairs"})
    return cases, hist


def tables_tie(ctx, binp):
    m = vlib.run_model(ctx, "C09", ["tables"])[0]
    f = parse_fields(m)
    mtok = sorted((unhx(x.split(":")[0]), int(x.split(":")[1])) for x in f["tok"].split(","))
    mnode = {}
    for x in f["node"].split(","):
        k, fs = x.split(":")
        mnode[k] = [y for y in fs.split(".") if y]
    rc, so, se = vlib.run([binp, "-tables"] + [hx(s) for s, _ in mtok], env=vlib.go_env(), timeout=600)
    if rc != 0:
        raise vlib.HarnessError("c09match -tables failed: " + se[-2000:])
    rtok, rnode = [], {}
    for ln in so.splitlines():
        w = ln.split()
        if w[0] == "tok":
            rtok.append((unhx(w[1]), int(w[2])))
        elif w[0] == "node" and w[2] == "ok" and w[1] not in ("Any", "Binding", "List", "Not", "Or"):
            rnode[w[1]] = w[3:]
    diffs = []
    if sorted(rtok) != mtok:
        diffs.append({"table": "tokensByString", "only_real": sorted(set(rtok) - set(mtok)), "only_model": sorted(set(mtok) - set(rtok))})
    if rnode != mnode:
        diffs.append({"table": "node fields", "real": {k: v for k, v in rnode.items() if mnode.get(k) != v},
                      "model": {k: v for k, v in mnode.items() if rnode.get(k) != v}})
    return diffs, len(mtok) + len(mnode)


def report(ctx, fails, tie, tab_diffs, lean_ok, lean_broke, binp, search):
    how = ("echo '<hex(pattern)> <e|s> <hex(snippet)>' | harness/cmd/c09match  (go run ./cmd/c09match in /verif/harness); "
           "or ./check C09 --replay <this file>")
    def key(c):
        return (len(c["pattern"]) + len(c["snippet"]), c["pattern"])
    any_fail = False
    if fails["leak"]:
        any_fail = True
        cs = sorted(fails["leak"], key=key)
        ctx.violation("leak.json", {
            "what": "after a successful pattern.Match the visible bindings differ from those of the successful path "
                    "(bindings made inside a failed Or alternative / a Not operand are observable, or a repeated name is inconsistent)",
            "how_to_replay": how, "count": len(cs), "first": brief(cs[0]), "cases": [brief(c) for c in cs[:25]],
        }, text="C09: %d successful matches leave wrong bindings, e.g. %r on %r: real State %s, specification %s %s" % (
            len(cs), cs[0]["pattern"], cs[0]["snippet"], cs[0]["real"]["ST"][:160], cs[0]["model"]["SP"], cs[0]["model"]["SS"][:160]))
    if fails["panic_created"]:
        any_fail = True
        cs = sorted(fails["panic_created"], key=key)
        ctx.violation("panic_created.json", {
            "what": "pattern.Match panics 'binding already created' on a well-formed pattern",
            "how_to_replay": how, "count": len(cs), "first": brief(cs[0]), "cases": [brief(c) for c in cs[:25]],
        }, text="C09: %d well-formed patterns panic 'binding already created', e.g. %r on %r" % (len(cs), cs[0]["pattern"], cs[0]["snippet"]))
    if fails["spelling"]:
        any_fail = True
        ps = sorted(fails["spelling"], key=lambda bo: key(bo[1]))
        b, o = ps[0]
        ctx.violation("spelling.json", {
            "what": "the (Binding \"name\" pattern) form and the name@pattern shorthand give different results",
            "how_to_replay": how, "count": len(ps), "first": [brief(b), brief(o)],
            "cases": [x for bo in ps[:12] for x in (brief(bo[0]), brief(bo[1]))],
        }, text="C09: %d pattern pairs differing only in the binding spelling disagree, e.g. %r -> %s %s but %r -> %s %s on %r" % (
            len(ps), b["pattern"], b["real"]["R"], b["real"]["ST"][:120], o["pattern"], o["real"]["R"], o["real"]["ST"][:120], o["snippet"]))
    if any_fail:
        return
    if tie or tab_diffs or not lean_ok:
        by = {}
        for k, c in tie:
            by.setdefault(k, []).append(c)
        ctx.violation("correspondence.json", {
            "what": "the Lean model no longer corresponds to pattern/match.go + parser.go (or a proof no longer checks), "
                    "but the oracle held on every explored input including the extra search batch",
            "correspondence": "C09 match stream (parse status, pattern structure, wfIdx of the real indices, result, State) "
                              "and tables; theorems " + ", ".join(THEOREMS),
            "mismatch_counts": {k: len(v) for k, v in by.items()},
            "mismatches": {k: [brief(c) for c in sorted(v, key=key)[:10]] for k, v in by.items()},
            "table_diffs": tab_diffs, "lean": lean_broke, "search": search,
        }, nofail=True, text="C09: model/implementation correspondence broken (%s), no failing input found" % (
            ", ".join("%s:%d" % (k, len(v)) for k, v in by.items()) or ("tables" if tab_diffs else "lean")))


def run(ctx):
    lean_ok, lean_broke = vlib.std_lean_phase(ctx, MODULES, THEOREMS)
    binp = vlib.build_harness(ctx, "c09match")
    tab_diffs, tab_n = tables_tie(ctx, binp)

    if ctx.replay:
        j = json.load(open(ctx.replay))
        raw = j.get("cases", [])
        cases = []
        for i, c in enumerate(raw):
            cases.append({"pattern": c["pattern"], "kind": c["snippet_kind"], "snippet": c["snippet"], "group": c.get("group"), "spelling": c.get("spelling")})
        run_cases(ctx, binp, cases)
        fails, tie = evaluate(cases)
        ctx.coverage.update({"evaluations": len(cases), "rule": "replay", "distinct_nontrivial": 0})
        report(ctx, fails, tie, tab_diffs, lean_ok, lean_broke, binp, None)
        return vlib.finish(ctx, "proof")

    corpus = load_corpus()
    n_base, n_wide, n_pairs = (12000, 150, 4000) if ctx.quick else (400000, 3000, 120000)
    cases, hist = generate(ctx, ctx.seed, n_base, n_wide)
    pairs, phist = generate_pairs(ctx.seed, n_pairs)
    hist["pairs"] = phist
    allc = corpus + cases + pairs
    run_cases(ctx, binp, allc)
    fails, tie = evaluate(allc)

    search = None
    if not any(fails.values()) and (tie or tab_diffs or not lean_ok):
        # violation search: a fresh, larger batch through the oracle
        extra, _ = generate(ctx, ctx.seed + 7919, n_base * 2, n_wide * 2, tag="s")
        extra += generate_pairs(ctx.seed + 7919, n_pairs * 2, tag="sp")[0]
        run_cases(ctx, binp, extra)
        f2, _ = evaluate(extra)
        search = {"extra_cases": len(extra), "oracle_failures": {k: len(v) for k, v in f2.items()}}
        if any(f2.values()):
            fails = f2

    # ---- evidence
    nontriv = set()
    res_hist = {}
    spec_hist = {}
    maxnames = 0
    num_same = num_diff = 0
    width_hist = {}
    for c in allc:
        r, m = c["real"], c["model"]
        res_hist[r.get("R", "parse-" + r.get("P", "?"))] = res_hist.get(r.get("R", "parse-" + r.get("P", "?")), 0) + 1
        if r.get("P") == "ok":
            spec_hist[m["SP"] + "/wf" + m["W"]] = spec_hist.get(m["SP"] + "/wf" + m["W"], 0) + 1
            nb = len([x for x in r.get("B", "").split(",") if x])
            maxnames = max(maxnames, nb)
            b = "0" if nb == 0 else "1-4" if nb <= 4 else "5-31" if nb <= 31 else "32-63" if nb <= 63 else "64"
            width_hist[b] = width_hist.get(b, 0) + 1
            if m.get("NUM") == "1":
                num_same += 1
            else:
                num_diff += 1
            if int(m.get("NT", "0")) >= 1:
                nontriv.add((c["pattern"], c["snippet"]))
    step = max(1, len(allc) // 6)
    ctx.coverage.update({
        "evaluations": len(allc),
        "distinct_nontrivial": len(nontriv),
        "rule": "distinct (pattern, snippet) pairs in which the matcher discards at least one non-empty frame, i.e. an Or "
                "alternative or a Not operand fails (or, for Not, finishes) after binding at least one name (counted by the model, "
                "whose result agrees with the real matcher on the case)",
        "corpus_cases": len(corpus),
        "generator": hist,
        "real_result_histogram": res_hist,
        "spec_histogram": spec_hist,
        "max_names_in_a_pattern": maxnames,
        "names_per_pattern_histogram": width_hist,
        "index_numbering": {"identical_to_model_parser": num_same, "different_but_consistent_or_flagged": num_diff,
                            "note": "parse_wfIdx / spellings_agree speak about the model parser; they transfer to the real parser on the "
                                    "cases counted as identical; wfIdx of the real indices is checked on every case regardless"},
        "spelling_groups": len(set(c["group"] for c in allc if c.get("group"))),
        "table_entries_compared": tab_n,
        "tie_mismatches": len(tie),
        "samples": [{"pattern": c["pattern"], "snippet": c["snippet"], "real": c["real"].get("R"), "state": c["real"].get("ST", "")[:200],
                     "spec": c["model"].get("SP")} for c in allc[::step]][:8],
    })
    ctx.assumptions += [
        "only the type-information-free pattern language is modelled (Parser.AllowTypeInfo=false): Symbol, Object, Builtin, "
        "IntegerLiteral, TrulyConstantExpression and Matcher.TypesInfo are outside the model",
        "lexer.go and the token level of parser.go are transliterated in the Lean driver (not in the proved model) and tied by "
        "comparing the structure of the parsed pattern with the real Pattern.Root on every case; the model matcher and the "
        "specification are run on the real parser's Root and Bindings (serialised by reflection in harness/cmd/c09match)",
        "go/parser and the reflection-based serialisation of the ast (harness/internal/c09ser) are trusted",
        "tokensByString and the pattern node field names are data in the model, compared with the real tables on every run",
    ]
    report(ctx, fails, tie, tab_diffs, lean_ok, lean_broke, binp, search)
    return vlib.finish(ctx, "proof")


META = {
    "level": "proof",
    "technique": "Lean 4 refinement proof: the matcher's mutable binding state with its stack of 64-bit frame masks refines a "
                 "functional specification with immutable environments; executable correspondence of the model with the real "
                 "pattern.Parser / pattern.Match, the specification evaluated on every real result",
    "text": "Proved for all patterns and all trees over the Lean model of pattern/match.go and of the index assignment of "
            "pattern/parser.go (type-information-free pattern language): impl_refines_spec / impl_fail_spec (a successful match "
            "leaves exactly the bindings of the specification's successful path: Or = first alternative succeeding from the "
            "incoming environment, Not = environment unchanged), visible_names (nothing bound only under a Not is visible), "
            "repeat_consistent + astEq_sound = repeat_structurally_equal (every occurrence of a repeated name saw a subtree with "
            "the same normal form as the one stored value), spellings_agree (desugaring name / name@node into (Binding ...) changes "
            "neither Pattern.Bindings nor any match result), parse_wfIdx (parsed patterns with <= 64 names carry consistent "
            "indices below 64) and no_panic. Explored, not proved: that the model is the code - checked on every run by running "
            "the real parser and matcher in-process on generated pattern/snippet pairs (both spellings, up to 66 names, every "
            "go/ast node kind for repeated names) and comparing parse status, pattern structure, wfIdx of the real indices, result "
            "and State with the model run on the real parser's output; the specification is the oracle on every real result.",
    "note": "Trusted: Lean kernel (axioms propext/Classical.choice/Quot.sound), compiled c09driver incl. its pattern-text lexer, "
            "harness/cmd/c09match + c09ser (reflection dump of ast and pattern nodes), go/parser. Outside the model: Symbol, "
            "Object, Builtin, IntegerLiteral, TrulyConstantExpression, Matcher.TypesInfo (type-info nodes), lexer.go.",
    "design_ref": "DESIGN.md section 5, C09; section 6 rows 9-11; notes/C09.md",
}
