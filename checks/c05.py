"""C05 — the cache never serves wrong bytes under crashes, truncation, concurrency.

Lean: Verif/C05/{Model,Lemmas,Inv,Theorems}.lean — file-system model, `put` as a program
of micro-steps mirroring DiskCache.put -> copyFile -> putIndexEntry, lookups with the
strict parse; invariant preserved by every process/environment event, lifted to all
interleavings (inv_run); lookup_sound, getFile_read_sound, put_then_get.

Tie X (all against the code built from the current tree, harness/cmd/c05child):
 (a) syscall level: one real cache.Put under strace per prepared directory state; the
     sequence of operations on cache files must equal the model's micro-step sequence;
 (b) crash points: the child is killed (strace inject SIGKILL) on entering each of those
     system calls; directory == model state after as many steps; real Get/GetFile/GetBytes
     == model lookups; ORACLE: a hit returns exactly bytes stored under that key;
     crashes inside a write (finer than a syscall) are materialised from the model;
 (c) faults at rest: every/sampled truncation length of index and data file, deleted
     subsets, half-overwritten index entries; lookups vs model + oracle;
 (d) k concurrent real processes put/get/trim one directory (some killed), oracle on
     every hit;
 (e) end to end: warm staticcheck cache, damage files at rest, output == cold output.
"""
import hashlib
import json
import os
import random
import re
import shutil
import signal
import subprocess
import time
from concurrent.futures import ThreadPoolExecutor

import vlib

MODULES = ["Verif.C05.Theorems", "Verif.C05.TheoremsExtra"]
THEOREMS = [
    # family Ev: one content per action id, torn index writes
    "Verif.C05.inv_init",
    "Verif.C05.inv_step",
    "Verif.C05.inv_run",
    "Verif.C05.get_sound",
    "Verif.C05.getBytes_sound",
    "Verif.C05.getFile_sound",
    "Verif.C05.lookup_sound",
    "Verif.C05.full_stable",
    "Verif.C05.getFile_read_sound",
    "Verif.C05.put_then_get",
    "Verif.C05.midwrite_truncate_breaks",
    "Verif.C05.getfile_window_breaks",
    "Verif.C05.exWorld",
    # Put terminates and repairs any directory (Repair.lean)
    "Verif.C05.put_repairs",
    # family EvM: several contents per action id (Multi.lean)
    "Verif.C05.inv_stepM",
    "Verif.C05.inv_runM",
    "Verif.C05.get_soundM",
    "Verif.C05.getBytes_soundM",
    "Verif.C05.getFile_soundM",
    "Verif.C05.lookup_soundM",
    "Verif.C05.full_stableM",
    "Verif.C05.getFile_read_soundM",
    # Trim / used / mtimes (Trim.lean)
    "Verif.C05.stepT_sys",
    "Verif.C05.invT_run",
    "Verif.C05.lookup_soundT",
    "Verif.C05.removed_data_misses",
    "Verif.C05.trim_only_old",
    "Verif.C05.getFile_then_trim_sound",
    # the hash re-check before the last byte (Flaky.lean)
    "Verif.C05.flaky_source_never_full",
    # witnesses (TheoremsExtra.lean)
    "Verif.C05.exWorldM",
    "Verif.C05.exRunM_facts",
    "Verif.C05.ex_put_repairs",
    "Verif.C05.ex_trim_removes",
    "Verif.C05.ex_used_protects",
    "Verif.C05.ex_flaky",
    "Verif.C05.torn_index_mix_breaks",
]
CS = 32768  # io.Copy buffer; observed in the strace (write sizes), compared with the model
TRACE = "openat,write,pwrite64,ftruncate,unlinkat,unlink,close,newfstatat,lseek,rename,renameat,renameat2,utimensat"
WORKERS = max(4, min(10, vlib.NCPU // 2))


# --------------------------------------------------------------------------- helpers
def sha(b):
    return hashlib.sha256(b).hexdigest()


def gen_bytes(tag, n):
    return hashlib.shake_256(tag.encode()).digest(n) if n else b""


def entry(idhex, outhex, size, ts):
    return ("v1 %s %s %20d %20d\n" % (idhex, outhex, size, ts)).encode()


def hexs(b):
    return b.hex() if b else "-"


def files_arg(files):
    """files: {basename: bytes} -> model encoding"""
    if not files:
        return "-"
    items = []
    for name in sorted(files):
        kind = "a" if name.endswith("-a") else "d"
        items.append("%s%s:%s" % (kind, name[:-2], hexs(files[name])))
    return ";".join(items)


def write_state(d, files):
    for name, content in files.items():
        sub = os.path.join(d, name[:2])
        os.makedirs(sub, exist_ok=True)
        with open(os.path.join(sub, name), "wb") as f:
            f.write(content)


def read_state(d):
    out = {}
    for root, _, fs in os.walk(d):
        for fn in fs:
            if fn.endswith("-a") or fn.endswith("-d"):
                with open(os.path.join(root, fn), "rb") as f:
                    out[fn] = f.read()
    return out


def digest_listing(files):
    if not files:
        return "-"
    return ",".join(sorted("%s:%d:%s" % (n, len(c), sha(c)) for n, c in files.items()))


def sort_listing(s):
    return s if s == "-" else ",".join(sorted(s.split(",")))


def parse_model_put(line):
    m = re.match(r"ops=(\S+) pc=(\S+) files=(\S+) (get=.*)$", line)
    if not m:
        raise vlib.HarnessError("unexpected model output: " + line[:200])
    ops = [] if m.group(1) == "-" else m.group(1).split(",")
    return ops, m.group(2), sort_listing(m.group(3)), m.group(4)


def look_hits(look):
    """'get=... getfile=hit:sha:len getbytes=...' -> list of (api, sha, len) hits"""
    hits = []
    for tok in look.split():
        api, _, val = tok.partition("=")
        if api in ("getfile", "getbytes") and val.startswith("hit:"):
            _, h, n = val.split(":")
            hits.append((api, h, int(n)))
    return hits


def run_model_parallel(ctx, lines):
    if not lines:
        return []
    n = min(WORKERS, max(1, len(lines) // 4))
    chunks = [lines[i::n] for i in range(n)]
    with ThreadPoolExecutor(max_workers=n) as ex:
        outs = list(ex.map(lambda ch: vlib.run_model(ctx, "C05", ch), chunks))
    res = [None] * len(lines)
    for k, o in enumerate(outs):
        for j, v in enumerate(o):
            res[k + j * n] = v
    for l, r in zip(lines, res):
        if r == "bad-op":
            raise vlib.HarnessError("model rejected line: " + l[:200])
    return res


# --------------------------------------------------------------------------- strace
class Sc:
    """one line of strace output of the main thread"""
    __slots__ = ("name", "args", "ret", "raw")

    def __init__(self, name, args, ret, raw):
        self.name, self.args, self.ret, self.raw = name, args, ret, raw


def parse_strace(path):
    """returns (main_pid, [Sc of the main thread in order of syscall ENTRY]).  The main
    thread is the one that issues the BEGIN marker (fallback: the first line's pid)."""
    try:
        lines = open(path, errors="replace").read().splitlines()
    except OSError:
        lines = []
    if not lines:
        return None, []
    main = lines[0].split()[0]
    for l in lines:
        if "VERIF_C05_MARK_BEGIN" in l:
            main = l.split()[0]
            break
    out = []
    pending = {}
    for l in lines:
        pid, _, rest = l.partition(" ")
        rest = rest.strip()
        if pid != main:
            continue
        m = re.match(r"<\.\.\. (\w+) resumed>(.*)$", rest)
        if m:
            sc = pending.pop(m.group(1), None)
            if sc is not None:
                tail = m.group(2)
                mm = re.search(r"=\s*(-?\d+|\?)", tail)
                sc.args += tail
                sc.ret = mm.group(1) if mm else "?"
            continue
        m = re.match(r"(\w+)\((.*)$", rest)
        if not m:
            continue
        name, tail = m.group(1), m.group(2)
        if tail.endswith("<unfinished ...>"):
            sc = Sc(name, tail[:-len("<unfinished ...>")], "?", rest)
            pending[name] = sc
            out.append(sc)
            continue
        mm = re.search(r"\)\s*=\s*(-?\d+|\?)[^)]*$", tail)
        ret = mm.group(1) if mm else "?"
        out.append(Sc(name, tail, ret, rest))
    return main, out


def cache_kind(path):
    if path.endswith("-d"):
        return "D"
    if path.endswith("-a"):
        return "A"
    return None


def window_ops(scs):
    """Translate the syscalls between the BEGIN and END markers into model operations.
    Returns (ops, points): ops = list of op strings; points = list of
    (index into scs, number of ops completed before that syscall is entered)."""
    ops = []
    points = []
    fds = {}
    inside = False
    for i, sc in enumerate(scs):
        if sc.name == "newfstatat" and "VERIF_C05_MARK_BEGIN" in sc.args:
            inside = True
            continue
        if not inside:
            continue
        if sc.name == "newfstatat" and "VERIF_C05_MARK_END" in sc.args:
            points.append((i, len(ops), "END"))
            break
        pm = re.search(r'"([^"]*)"', sc.args)
        path = pm.group(1) if pm else ""
        if sc.name == "newfstatat":
            k = cache_kind(path)
            if k:
                points.append((i, len(ops), "stat:" + k))
                ops.append("stat:" + k)
        elif sc.name == "openat":
            k = cache_kind(path)
            if k:
                flags = sc.args.split(",")[2].strip() if sc.args.count(",") >= 2 else ""
                fl = set(re.split(r"[|)\s]+", flags))
                if "O_RDONLY" in fl:
                    op = "openr:" + k
                else:
                    op = "open:%s:%d" % (k, 1 if "O_TRUNC" in fl else 0)
                    if "O_CREAT" not in fl:
                        op += ":nocreat"
                    if "O_APPEND" in fl:
                        op += ":append"
                points.append((i, len(ops), op))
                ops.append(op)
                if sc.ret not in ("?", "-1") and "O_RDONLY" not in fl:
                    fds[sc.ret] = [k, 0]
        elif sc.name in ("write", "pwrite64"):
            fd = sc.args.split(",")[0].strip()
            if fd in fds:
                k, off = fds[fd]
                if sc.name == "pwrite64":
                    off = int(sc.args.rsplit(",", 1)[1].split(")")[0].strip())
                n = int(sc.ret) if sc.ret not in ("?",) else -1
                if n < 0:
                    # killed on entry: length requested
                    mm = re.search(r",\s*(\d+)\s*(\)|$|<)", sc.args)
                    n = int(mm.group(1)) if mm else 0
                op = "write:%s:%d:%d" % (k, off, n)
                points.append((i, len(ops), op))
                ops.append(op)
                if sc.name == "write":
                    fds[fd][1] = off + n
        elif sc.name == "ftruncate":
            fd = sc.args.split(",")[0].strip()
            if fd in fds:
                n = int(sc.args.split(",")[1].split(")")[0].strip())
                op = "ftrunc:%s:%d" % (fds[fd][0], n)
                points.append((i, len(ops), op))
                ops.append(op)
        elif sc.name == "lseek":
            fd = sc.args.split(",")[0].strip()
            if fd in fds and "SEEK_SET" in sc.args:
                fds[fd][1] = int(sc.args.split(",")[1].strip())
        elif sc.name == "close":
            fd = sc.args.split(")")[0].strip()
            fds.pop(fd, None)
        elif sc.name in ("unlinkat", "unlink", "rename", "renameat", "renameat2"):
            k = cache_kind(path)
            if k:
                op = "%s:%s" % (sc.name, k)
                points.append((i, len(ops), op))
                ops.append(op)
    return ops, points


def ordinal(scs, idx):
    """1-based ordinal of scs[idx] among the main thread's syscalls of the same name"""
    name = scs[idx].name
    return sum(1 for s in scs[: idx + 1] if s.name == name)


def strace_child(child, args, log, inject=None, timeout=300):
    if os.path.exists(log):
        os.remove(log)
    cmd = ["strace", "-f", "-o", log, "-e", "trace=" + TRACE, "-e", "signal=none"]
    if inject:
        cmd += ["-e", "inject=%s:signal=SIGKILL:when=%d" % inject]
    cmd += [child] + args
    p = subprocess.run(cmd, stdout=subprocess.PIPE, stderr=subprocess.PIPE, text=True, timeout=timeout)
    return p.returncode, p.stdout, p.stderr


def strace_selftest(ctx, child):
    """exit 2 is reserved for this: strace cannot trace / inject at all on this machine."""
    d = ctx.path("selftest", "d", "x")
    d = os.path.dirname(d)
    f = ctx.path("selftest", "data.bin")
    with open(f, "wb") as fh:
        fh.write(b"xy")
    log = ctx.path("selftest", "t.strace")
    rc, so, se = strace_child(child, ["op", "put", d, sha(b"selftest"), f], log)
    main, scs = parse_strace(log)
    if rc != 0 or not any("VERIF_C05_MARK_END" in x.args for x in scs):
        raise vlib.HarnessError("strace self-test failed (rc=%d): %s" % (rc, se[-400:]))


# --------------------------------------------------------------------------- scenarios (a)+(b)
CORE_KINDS = ("absent", "complete", "index-complete-data-absent", "data-prefix-mid-index-complete", "data-prefix-mid",
              "index-other-output")


def make_scenarios(ctx, rng):
    """Prepared directories for one real Put each.  quick: 3 of the sizes and, per size, the
    core kinds plus 5 of the other kinds, rotated by the seed (cost is cut by COUNT)."""
    all_sizes = [0, 1, 2, 5, 32769, 70000]
    if ctx.quick:
        sizes = [[0, 1, 2][ctx.seed % 3], 5, [32769, 70000][ctx.seed % 2]]
    else:
        sizes = [0, 1, 2, 3, 5, 4095, 4096, 4097, 32768, 32769, 32770, 65537, 70000, 131073]
    scen = []
    for size in sizes:
        si = all_sizes.index(size) if size in all_sizes else 100 + size
        tag = "s%d-%d-%d" % (ctx.seed, si, size)
        data = gen_bytes("data" + tag, size)
        other = gen_bytes("other" + tag, size)
        if other == data and size > 0:
            other = bytes([data[0] ^ 1]) + data[1:]
        idhex = sha(("id" + tag).encode())
        out = sha(data)
        dn, an = out + "-d", idhex + "-a"
        old_ts = 1700000000000000000 + rng.below(10 ** 9)
        good_a = entry(idhex, out, size, old_ts)
        cand = []

        def add(name, files, reachable=True, stored=None):
            cand.append({"name": "%s/size%d" % (name, size), "kind": name, "size": size, "data": data, "id": idhex,
                         "files": files, "reachable": reachable, "stored": [data] + (stored or [])})

        add("absent", {})
        add("complete", {dn: data, an: good_a})
        add("data-complete-index-absent", {dn: data})
        # a complete store, then the data file removed / truncated at rest with the index
        # intact, then a store of the same content ("re-Put over a damaged entry")
        add("index-complete-data-absent", {an: good_a})
        if size > 0:
            mid = size // 2
            add("data-prefix-mid", {dn: data[:mid]})
            add("data-prefix-mid-index-complete", {dn: data[:mid], an: good_a})
        plens = sorted(set([0, 1, size - 1, rng.below(size + 1)]) & set(range(0, size)) - set([size // 2]))
        if not ctx.quick:
            plens = sorted(set(plens) | (set([32768, 32769, 65536]) & set(range(0, size))))
        for pl in plens:
            add("data-prefix%d" % pl, {dn: data[:pl]})
            if pl == size - 1:
                add("data-prefix%d-index-complete" % pl, {dn: data[:pl], an: good_a})
        # states the protocol cannot produce: no lookup oracle on the way, but a COMPLETED Put
        # must repair them all (theorem put_repairs needs no invariant)
        add("data-longer-garbage", {dn: data + b"xyz"}, reachable=False)
        add("data-longer-garbage-index-complete", {dn: data + b"xyz", an: good_a}, reachable=False)
        if size > 0:
            add("data-wrong-same-size", {dn: other}, reachable=False)
            add("data-wrong-same-size-index-complete", {dn: other, an: good_a}, reachable=False)
        for cut in sorted(set([0, 1, 100, 174, rng.below(175)])):
            add("index-prefix%d" % cut, {dn: data, an: good_a[:cut]})
        add("index-longer-garbage", {dn: data, an: good_a + b"garbage garbage\n"}, reachable=False)
        odata = gen_bytes("old" + tag, size + 3)
        add("index-other-output", {sha(odata) + "-d": odata, an: entry(idhex, sha(odata), len(odata), old_ts)},
            stored=[odata])
        if ctx.quick:
            core = [c for c in cand if c["kind"] in CORE_KINDS]
            rest = rng.shuffle([c for c in cand if c["kind"] not in CORE_KINDS])
            cand = core + rest[:5]
        scen += cand
    return scen


def flaky_scenarios(ctx, rng):
    """Put from a source whose second pass yields other bytes (hash re-check before the last byte)."""
    scen = []
    for size in ([5, 32770] if ctx.quick else [1, 2, 5, 32769, 32770, 70000]):
        tag = "fl%d-%d" % (ctx.seed, size)
        data = gen_bytes("data" + tag, size)
        pos = rng.below(size)
        data2 = data[:pos] + bytes([data[pos] ^ 0x55]) + data[pos + 1:]
        idhex = sha(("id" + tag).encode())
        scen.append({"name": "flaky-source-absent/size%d" % size, "kind": "flaky-source", "size": size, "data": data,
                     "data2": data2, "id": idhex, "files": {}, "reachable": True, "stored": [data], "flaky": True})
        if size > 1:
            scen.append({"name": "flaky-source-prefix/size%d" % size, "kind": "flaky-source", "size": size, "data": data,
                         "data2": data2, "id": idhex, "files": {sha(data) + "-d": data[:size // 2]}, "reachable": True,
                         "stored": [data], "flaky": True})
    return scen


def files_json(files):
    return {k: (v.hex() if len(v) <= 400 else "sha256:%s:len%d" % (sha(v), len(v))) for k, v in files.items()}


def run_scenarios(ctx, child, scen):
    """tie (a) and (b).  Nothing here assumes that the real Put follows the model: every
    deviation (other system calls, a Put that fails or crashes, a kill that cannot be placed
    where the plain run had the call) is recorded as a correspondence item; the oracle is
    evaluated on every directory that results."""
    base = os.path.dirname(ctx.path("sc", "x"))
    for k, sc in enumerate(scen):
        sc["dir"] = os.path.join(base, "s%d" % k)
        os.makedirs(sc["dir"], exist_ok=True)
        sc["datafile"] = os.path.join(sc["dir"], "data.bin")
        with open(sc["datafile"], "wb") as f:
            f.write(sc["data"])
        if sc.get("flaky"):
            sc["data2file"] = os.path.join(sc["dir"], "data2.bin")
            with open(sc["data2file"], "wb") as f:
                f.write(sc["data2"])

    def put_args(sc, d):
        if sc.get("flaky"):
            return ["op", "putflaky", d, sc["id"], sc["datafile"], sc["data2file"]]
        return ["op", "put", d, sc["id"], sc["datafile"]] + sc["mode"]

    def plain(sc):
        d = os.path.join(sc["dir"], "full")
        os.makedirs(d)
        write_state(d, sc["files"])
        log = os.path.join(sc["dir"], "full.strace")
        sc["mode"] = ["file"] if (sc["size"] % 2 == 1 and not sc.get("flaky")) else []
        rc, so, se = strace_child(child, put_args(sc, d), log)
        main, scs = parse_strace(log)
        ops, points = window_ops(scs)
        sc["put_rc"], sc["put_out"], sc["put_err"] = rc, so.strip(), se[-300:]
        sc["complete_trace"] = any(p[2] == "END" for p in points)
        sc["scs"], sc["ops"], sc["points"] = scs, ops, points
        sc["final"] = read_state(d)
        return sc

    with ThreadPoolExecutor(max_workers=WORKERS) as ex:
        list(ex.map(plain, scen))

    cjobs = []
    for sc in scen:
        if not sc["complete_trace"]:
            continue
        for (idx, nops, what) in sc["points"]:
            if nops == 0:
                continue  # nothing happened yet: the initial state
            cjobs.append((sc, idx, nops, what))

    def crash(job):
        sc, idx, nops, what = job
        name = sc["scs"][idx].name
        n = ordinal(sc["scs"], idx)
        why = ""
        for attempt in range(3):
            d = os.path.join(sc["dir"], "c%d_%d" % (idx, attempt))
            os.makedirs(d)
            write_state(d, sc["files"])
            log = os.path.join(sc["dir"], "c%d_%d.strace" % (idx, attempt))
            rc, so, se = strace_child(child, put_args(sc, d), log, inject=(name, n))
            main, mine = parse_strace(log)
            kops, _ = window_ops(mine)
            landed = bool(mine) and mine[-1].name == name and len([x for x in mine if x.name == name]) == n \
                and so == "" and rc == -9
            if landed and kops[:nops] == sc["ops"][:nops]:
                return (sc, idx, nops, what, read_state(d), d, None)
            why = "rc=%s out=%r last=%s ops_before_kill=%s" % (rc, so[:60], mine[-1].name if mine else None, kops[:nops + 1])
        return (sc, idx, nops, what, None, None, why)

    with ThreadPoolExecutor(max_workers=WORKERS) as ex:
        cres_all = list(ex.map(crash, cjobs))
    cres = [c for c in cres_all if c[4] is not None]

    # real lookups on every resulting directory (one batch child)
    dirs = []
    for sc in scen:
        dirs.append((sc, "full", os.path.join(sc["dir"], "full")))
    for (sc, idx, nops, what, st, d, _) in cres:
        dirs.append((sc, idx, d))
    script = []
    for (sc, _, d) in dirs:
        script.append("open " + d)
        script.append("look " + sc["id"])
    rc, so, se = vlib.run([child, "batch"], input="\n".join(script) + "\n", timeout=1800)
    outs = so.splitlines()
    if rc != 0 or len(outs) != len(script):
        raise vlib.HarnessError("batch lookups failed: " + se[-500:])
    looks = {}
    for j, (sc, key, d) in enumerate(dirs):
        looks[(id(sc), key)] = outs[2 * j + 1]

    def ts_of(st, sc, changed_only):
        a = st.get(sc["id"] + "-a", b"")
        if len(a) >= 174 and (not changed_only or a != sc["files"].get(sc["id"] + "-a")):
            try:
                return int(a[154:174].decode().strip())
            except ValueError:
                return 0
        return 0

    def model_line(sc, ts, nsteps, k):
        if sc.get("flaky"):
            return "flaky %d %d %s %s %s %s %d %s" % (CS, ts, sc["id"], hexs(sc["data"]), hexs(sc["data2"]),
                                                     files_arg(sc["files"]), nsteps, k)
        return "put %d %d %s %s %s %d %s" % (CS, ts, sc["id"], hexs(sc["data"]), files_arg(sc["files"]), nsteps, k)

    lines = []
    meta = []
    for sc in scen:
        lines.append(model_line(sc, ts_of(sc["final"], sc, False), 10 ** 6, "-"))
        meta.append((sc, "full", sc["final"], None))
    for (sc, idx, nops, what, st, d, _) in cres:
        lines.append(model_line(sc, ts_of(st, sc, True), nops, "0"))
        meta.append((sc, idx, st, what))
    mouts = run_model_parallel(ctx, lines)

    res = {"seq_diffs": [], "state_diffs": [], "look_diffs": [], "oracle": [], "complete_miss": [], "put_failed": [],
           "kill_landing": [], "no_repair": [],
           "children": len(scen) + len(cres_all), "crash_children": len(cres_all), "nontrivial": set(), "samples": []}
    for (sc, idx, nops, what, st, d, why) in cres_all:
        if st is None:
            res["kill_landing"].append({"scenario": sc["name"], "kill_before": what, "after_ops": nops, "observed": why})
    for (sc, key, st, what), mo in zip(meta, mouts):
        m = re.match(r"ops=(\S+) pc=(\S+) files=(\S+) (get=\S+ getfile=\S+ getbytes=\S+) (outfile=\S+)$", mo)
        if not m:
            raise vlib.HarnessError("unexpected model output: " + mo[:200])
        ops = [] if m.group(1) == "-" else m.group(1).split(",")
        pc, mfiles, mlook, mout = m.group(2), sort_listing(m.group(3)), m.group(4), m.group(5)
        rlook = looks[(id(sc), key)]
        rfiles = digest_listing(st)
        stored = set((sha(b), len(b)) for b in sc["stored"])
        want = (sha(sc["data"]), len(sc["data"]))
        case = {"scenario": sc["name"], "id": sc["id"], "size": sc["size"], "initial_files": files_json(sc["files"]),
                "data": sc["data"].hex() if sc["size"] <= 400 else "sha256:%s:len%d" % want,
                "files": files_json(sc["files"]), "stored": sorted(stored)}
        if key == "full":
            if not sc["complete_trace"] or sc["put_rc"] != 0:
                res["put_failed"].append(dict(case, rc=sc["put_rc"], out=sc["put_out"][:200], stderr=sc["put_err"]))
            if ops != sc["ops"]:
                res["seq_diffs"].append({"scenario": sc["name"], "real_ops": sc["ops"], "model_ops": ops})
            if len(res["samples"]) < 6:
                res["samples"].append({"scenario": sc["name"], "ops": sc["ops"], "look": rlook, "put": sc["put_out"][:120]})
            if sc["files"]:
                res["nontrivial"].add((sc["name"], "full"))
            if sc["put_out"].startswith("put ok"):
                # ORACLE (put_repairs): a Put that returned success left a complete entry, whatever
                # was in the directory before: the path OutputFile(out) reads the content (this is
                # what lintcmd/runner opens after Put) and every lookup hits with it.
                toks = sc["put_out"].split()
                routfile = toks[4] if len(toks) > 4 else "outfile=?"
                bad = []
                if routfile != "outfile=hit:%s:%d" % want:
                    bad.append("OutputFile path read after Put: " + routfile)
                for api in ("getfile", "getbytes"):
                    if ("%s=hit:%s:%d" % ((api,) + want)) not in rlook.split():
                        bad.append("lookup after Put: " + rlook)
                        break
                if sc.get("flaky"):
                    bad.append("Put returned success although the source changed between its two passes")
                if bad:
                    res["no_repair"].append(dict(case, put=sc["put_out"][:200], problems=bad, look=rlook, dir=rfiles))
                if "miss" in rlook or "openerr" in rlook:
                    res["complete_miss"].append({"scenario": sc["name"], "look": rlook})
                if routfile != mout and not bad:
                    res["look_diffs"].append({"scenario": sc["name"], "killed_before": None, "real": routfile, "model": mout})
            elif not sc.get("flaky"):
                res["put_failed"].append(dict(case, rc=sc["put_rc"], out=sc["put_out"][:200], stderr=sc["put_err"]))
        else:
            if what.startswith("write") or what.startswith("open:A") or what.startswith("ftrunc") or sc["files"]:
                res["nontrivial"].add((sc["name"], key))
        if rfiles != mfiles:
            res["state_diffs"].append({"scenario": sc["name"], "killed_before": what, "after_ops": key,
                                       "real_dir": rfiles, "model_dir": mfiles})
        if rlook != mlook:
            res["look_diffs"].append({"scenario": sc["name"], "killed_before": what, "real": rlook, "model": mlook})
        if sc["reachable"]:
            for (api, h, n) in look_hits(rlook):
                if (h, n) not in stored:
                    # `files` = the directory the lookup ran on (after the kill), so that --replay reproduces it
                    res["oracle"].append(dict(case, files=files_json(st), killed_before=what, api=api, returned_sha256=h,
                                              returned_len=n, look=rlook, dir=rfiles))
    return res


# --------------------------------------------------------------------------- (c) faults at rest
def faults_at_rest(ctx, child, rng):
    """Truncations / removals / half-written index entries on a directory at rest.
    Every case: direct construction of the directory state, real lookups (batch child),
    model lookups, oracle."""
    if ctx.quick:
        sizes = [[0, 1, 2][ctx.seed % 3], [7, 100][ctx.seed % 2], 4096]
    else:
        sizes = [0, 1, 2, 3, 7, 64, 100, 175, 176, 1000, 4096, 32769, 70000]
    cases = []  # (desc, idhex, files, stored list)
    for si, size in enumerate(sizes):
        # quick: every index length / every torn-write position for ONE of the sizes (rotates
        # with the seed), 30 sampled positions (incl. all field boundaries) for the others
        full = (not ctx.quick) or si == ctx.seed % len(sizes)
        bnd = [0, 1, 2, 3, 66, 67, 68, 131, 132, 133, 152, 153, 154, 173, 174, 175]
        tag = "f%d-%d-%d" % (ctx.seed, si, size)
        data = gen_bytes("data" + tag, size)
        idhex = sha(("id" + tag).encode())
        out = sha(data)
        dn, an = out + "-d", idhex + "-a"
        ts_old = 1700000000000000000 + rng.below(10 ** 9)
        ts_new = ts_old + 10 ** 9 * (1 + rng.below(10 ** 4)) * (10 if rng.chance(1, 4) else 1)
        good = entry(idhex, out, size, ts_old)
        new = entry(idhex, out, size, ts_new)
        st = [data]
        cases.append(("complete/size%d" % size, idhex, {dn: data, an: good}, st))
        # index truncated to every length
        cuts = range(0, 175) if full else sorted(set([b for b in bnd if b < 175] + [rng.below(175) for _ in range(14)]))
        for cut in cuts:
            cases.append(("index-trunc%d/size%d" % (cut, size), idhex, {dn: data, an: good[:cut]}, st))
        # data truncated
        if size <= 200:
            dl = list(range(0, size))
        else:
            dl = sorted(set([0, 1, 2, size - 2, size - 1, 4095, 4096, 4097, 32767, 32768, 32769]
                            + [rng.below(size) for _ in range(12 if ctx.quick else 40)]) & set(range(0, size)))
        for cut in dl:
            cases.append(("data-trunc%d/size%d" % (cut, size), idhex, {dn: data[:cut], an: good}, st))
        # removed subsets
        cases.append(("rm-index/size%d" % size, idhex, {dn: data}, st))
        cases.append(("rm-data/size%d" % size, idhex, {an: good}, st))
        cases.append(("rm-both/size%d" % size, idhex, {}, st))
        # both truncated
        for _ in range(10 if ctx.quick else 40):
            a, b = rng.below(176), rng.below(size + 1)
            cases.append(("both-trunc%d-%d/size%d" % (a, b, size), idhex, {dn: data[:b], an: good[:a]}, st))
        # writer died inside the index write, over an older complete entry (same output)
        for k in (range(0, 176) if full else sorted(set(bnd + [rng.below(176) for _ in range(14)]))):
            cases.append(("index-half%d/size%d" % (k, size), idhex, {dn: data, an: new[:k] + good[k:]}, st))
        # ... over an older entry for ANOTHER output of the same action (shorter / longer / equal size)
        for dlen in sorted(set([max(0, size - 1), size, size + 1, size + 1000])):
            odata = gen_bytes("old%d" % dlen + tag, dlen)
            if odata == data:
                continue
            oldo = entry(idhex, sha(odata), dlen, ts_old)
            ks = range(0, 176) if not ctx.quick else sorted(set([0, 1, 3, 67, 68, 69, 100, 131, 132, 133, 140, 152, 153, 154, 160, 174, 175] + [rng.below(176) for _ in range(8)]))
            for k in ks:
                cases.append(("index-half%d-over-other%d/size%d" % (k, dlen, size), idhex,
                              {dn: data, sha(odata) + "-d": odata, an: new[:k] + oldo[k:]}, [data, odata]))
                if k % 16 == 0:
                    # and the older output's data file incomplete / gone
                    cases.append(("index-half%d-over-other%d-gone/size%d" % (k, dlen, size), idhex,
                                  {dn: data, an: new[:k] + oldo[k:]}, [data, odata]))
        # entry left longer by garbage, then overwritten without the final truncate
        cases.append(("index-long/size%d" % size, idhex, {dn: data, an: new + good[:30]}, st))
    # real side: one batch child, one directory per case group
    d = ctx.path("rest", "dir", "x")
    d = os.path.dirname(d)
    script = ["open " + d]
    datafiles = {}
    for ci, (desc, idhex, files, st) in enumerate(cases):
        script.append("clear")
        for name, content in files.items():
            if len(content) > 4096:
                key = sha(content)
                if key not in datafiles:
                    p = ctx.path("rest", "blob", key)
                    with open(p, "wb") as f:
                        f.write(content)
                    datafiles[key] = p
                script.append("setfile %s %s %d" % (name, datafiles[key], len(content)))
            else:
                script.append("set %s %s" % (name, hexs(content)))
        script.append("ls")
        script.append("look " + idhex)
    rc, so, se = vlib.run([child, "batch"], input="\n".join(script) + "\n", timeout=1200)
    if rc != 0:
        raise vlib.HarnessError("batch (faults at rest) failed: " + se[-500:])
    outs = so.splitlines()
    if len(outs) != len(script):
        raise vlib.HarnessError("batch: %d outputs for %d commands" % (len(outs), len(script)))
    real = []
    j = 1
    for (desc, idhex, files, st) in cases:
        j += 1 + len(files)
        ls, look = outs[j], outs[j + 1]
        j += 2
        if sort_listing(ls) != digest_listing(files):
            raise vlib.HarnessError("state not materialised for %s: %s" % (desc, ls[:200]))
        real.append(look)
    lines = ["look %s %s" % (idhex, files_arg(files)) for (desc, idhex, files, st) in cases]
    model = run_model_parallel(ctx, lines)
    res = {"look_diffs": [], "oracle": [], "cases": len(cases), "hits": 0, "misses": 0, "nontrivial": 0}
    for (desc, idhex, files, st), r, m in zip(cases, real, model):
        if r != m:
            res["look_diffs"].append({"case": desc, "real": r, "model": m})
        stored = set((sha(b), len(b)) for b in st)
        hs = look_hits(r)
        res["hits"] += len(hs)
        res["misses"] += r.count("miss")
        if not desc.startswith("complete"):
            res["nontrivial"] += 1
        for (api, h, n) in hs:
            if (h, n) not in stored:
                res["oracle"].append({"case": desc, "api": api, "returned_sha256": h, "returned_len": n,
                                      "id": idhex, "look": r,
                                      "files": {k: v.hex() if len(v) <= 400 else "sha256:" + sha(v) + ":len%d" % len(v) for k, v in files.items()},
                                      "stored": sorted(stored)})
    return res


# --------------------------------------------------------------------------- (c2) histories
AGES = [1800, 7200, 430000, 440000, 600000]  # seconds; >= 30 min away from the 1 h / 5 d + 1 h thresholds


def gen_history(rng, hi, nops):
    """One directory, 2 action ids x 3 contents each (several contents per action id), ops:
    complete Put, truncation / removal at rest of data and index files, lookups, ageing
    (utime) + a complete Trim.  Returns the op list; every op is a dict."""
    ids = [sha(("hid%d-%d" % (hi, j)).encode()) for j in range(2)]
    sizes = [rng.choice([0, 1, 2, 9, 190, 1100, 4097]) for _ in range(3)]
    conts = [gen_bytes("hc%d-%d" % (hi, j), sizes[j]) for j in range(3)]
    if rng.chance(1, 2):
        conts[1] = conts[0] + b"!" if conts[0] else b"!"          # shares a prefix, one byte longer
    flen = {}      # basename -> current length (puts complete and repair, so this is exact)
    ops = []
    for _ in range(nops):
        x = rng.below(100)
        live_d = [n for n in flen if n.endswith("-d")]
        live_a = [n for n in flen if n.endswith("-a")]
        if x < 34 or not flen:
            i, c = rng.choice(ids), rng.choice(conts)
            ops.append({"op": "put", "id": i, "data": c})
            flen[sha(c) + "-d"] = len(c)
            flen[i + "-a"] = 175
        elif x < 50 and live_d:
            n = rng.choice(live_d)
            if flen[n] > 0:
                k = rng.below(flen[n])
                ops.append({"op": "trunc", "name": n, "len": k})
                flen[n] = k
        elif x < 57 and live_d:
            n = rng.choice(live_d)
            ops.append({"op": "rm", "name": n})
            del flen[n]
        elif x < 63 and live_a:
            n = rng.choice(live_a)
            k = rng.below(flen[n]) if flen[n] > 0 else 0
            if flen[n] > 0:
                ops.append({"op": "trunc", "name": n, "len": k})
                flen[n] = k
        elif x < 67 and live_a:
            n = rng.choice(live_a)
            ops.append({"op": "rm", "name": n})
            del flen[n]
        elif x < 88:
            ops.append({"op": "look", "id": rng.choice(ids)})
        else:
            for n in sorted(flen):
                if rng.chance(2, 3):
                    ops.append({"op": "age", "name": n, "age": rng.choice(AGES)})
            if rng.chance(1, 2):
                ops.append({"op": "look", "id": rng.choice(ids)})   # `used` bumps what it touches
            ops.append({"op": "trim"})
            # which files survive is decided by the real code / the model, not tracked here:
            # stop truncating after a trim (lengths unknown), keep putting and looking
            flen = {}
    ops.append({"op": "look", "id": ids[0]})
    ops.append({"op": "look", "id": ids[1]})
    return ops


def run_history_real(child, d, ops):
    """runs the ops through the real code (one batch child on an empty directory) and returns
    the per-op results in the model's format plus the time stamps of the puts"""
    script = ["open " + d, "clear"]
    for o in ops:
        if o["op"] == "put":
            script.append("put %s %s" % (o["id"], hexs(o["data"])))
        elif o["op"] == "trunc":
            script.append("trunc %s %d" % (o["name"], o["len"]))
        elif o["op"] == "rm":
            script.append("rm " + o["name"])
        elif o["op"] == "age":
            script.append("age %s %d" % (o["name"], o["age"]))
        elif o["op"] == "look":
            script.append("look " + o["id"])
        elif o["op"] == "trim":
            script.append("trim")
            script.append("ls")
    rc, so, se = vlib.run([child, "batch"], input="\n".join(script) + "\n", timeout=1200)
    outs = so.splitlines()
    if rc != 0 or len(outs) != len(script):
        raise vlib.HarnessError("batch (history) failed: rc=%d %s" % (rc, se[-400:]))
    res = []
    j = 2
    for o in ops:
        r = outs[j]
        j += 1
        if o["op"] == "put":
            t = r.split()
            if t[0] == "ok" and len(t) >= 5:
                o["ts"] = int(t[3]) if t[3].isdigit() else 0
                res.append("put=done:" + t[4].split("=", 1)[1])
            else:
                o["ts"] = 0
                res.append("put=" + r)
        elif o["op"] == "trim":
            res.append("files=" + sort_listing(outs[j]))
            j += 1
        elif o["op"] in ("trunc", "rm", "age"):
            res.append("ok" if r == "ok" else "real-" + r)
        else:
            res.append(r)
    return res


def history_model_line(ops):
    toks = []
    for o in ops:
        if o["op"] == "put":
            toks.append("p:%s:%s:%d" % (o["id"], hexs(o["data"]), o.get("ts", 0)))
        elif o["op"] == "trunc":
            toks.append("t:%s%s:%d" % (o["name"][-1], o["name"][:-2], o["len"]))
        elif o["op"] == "rm":
            toks.append("r:%s%s" % (o["name"][-1], o["name"][:-2]))
        elif o["op"] == "age":
            toks.append("a:%s%s:%d" % (o["name"][-1], o["name"][:-2], o["age"]))
        elif o["op"] == "look":
            toks.append("l:" + o["id"])
        elif o["op"] == "trim":
            toks.append("trim")
    return "hist %d %s" % (CS, ";".join(toks))


def history_oracle(ops, real):
    """the property on the real results: a Put that returned success is followed by a complete
    entry (its OutputFile path reads the content); a hit is a content stored under that id."""
    bad = []
    stored = {}
    for k, (o, r) in enumerate(zip(ops, real)):
        if o["op"] == "put":
            stored.setdefault(o["id"], set()).add((sha(o["data"]), len(o["data"])))
            if r != "put=done:hit:%s:%d" % (sha(o["data"]), len(o["data"])):
                bad.append({"op_index": k, "op": "put", "id": o["id"], "expected": "ok + OutputFile path reads the content",
                            "got": r})
        elif o["op"] == "look":
            for (api, h, n) in look_hits(r):
                if (h, n) not in stored.get(o["id"], set()):
                    bad.append({"op_index": k, "op": "look", "id": o["id"], "api": api, "returned_sha256": h,
                                "returned_len": n, "stored": sorted(stored.get(o["id"], set())), "got": r})
    return bad


def ops_json(ops):
    return [dict(o, data=o["data"].hex()) if "data" in o else dict(o) for o in ops]


def ops_from_json(js):
    return [dict(o, data=bytes.fromhex(o["data"])) if "data" in o else dict(o) for o in js]


def histories(ctx, child, rng, count=None):
    n = count or (48 if ctx.quick else 400)
    hs = [gen_history(rng.fork("h%d" % i), i, 10 + rng.below(8)) for i in range(n)]
    # fixed regression histories first: re-Put over a damaged entry, all damage kinds
    c = gen_bytes("fixed-hist", 300)
    i0 = sha(b"fixed-hist-id")
    for dmg in ([{"op": "trunc", "name": sha(c) + "-d", "len": k} for k in (0, 1, 150, 299)]
                + [{"op": "rm", "name": sha(c) + "-d"}, {"op": "rm", "name": i0 + "-a"},
                   {"op": "trunc", "name": i0 + "-a", "len": 100}]):
        hs.insert(0, [{"op": "put", "id": i0, "data": c}, dmg, {"op": "look", "id": i0},
                      {"op": "put", "id": i0, "data": c}, {"op": "look", "id": i0}])
    base = os.path.dirname(ctx.path("hist", "x"))

    def one(k):
        d = os.path.join(base, "h%d" % k)
        os.makedirs(d, exist_ok=True)
        return run_history_real(child, d, hs[k])

    with ThreadPoolExecutor(max_workers=WORKERS) as ex:
        reals = list(ex.map(one, range(len(hs))))
    models = run_model_parallel(ctx, [history_model_line(h) for h in hs])
    res = {"count": len(hs), "ops": sum(len(h) for h in hs), "diffs": [], "oracle": [], "kinds": {}, "trims": 0, "multi": 0}
    for k, (h, r, m) in enumerate(zip(hs, reals, models)):
        for o in h:
            res["kinds"][o["op"]] = res["kinds"].get(o["op"], 0) + 1
        per_id = {}
        for o in h:
            if o["op"] == "put":
                per_id.setdefault(o["id"], set()).add(o["data"])
        if any(len(v) > 1 for v in per_id.values()):
            res["multi"] += 1
        ml = [("files=" + sort_listing(t[6:])) if t.startswith("files=") else t for t in m.split("|")]
        if ml != r:
            first = next((j for j in range(min(len(ml), len(r))) if ml[j] != r[j]), min(len(ml), len(r)))
            res["diffs"].append({"history": k, "first_differing_op": first,
                                 "op": ops_json(h)[first] if first < len(h) else None,
                                 "real": r[first] if first < len(r) else None, "model": ml[first] if first < len(ml) else None,
                                 "ops": ops_json(h)})
        bad = history_oracle(h, r)
        if bad:
            res["oracle"].append({"history": k, "ops": ops_json(h), "problems": bad[:5], "real_results": r})
    return res


# --------------------------------------------------------------------------- (d) concurrency
def age_all(d, days=6):
    t = time.time() - days * 86400
    for root, _, fs in os.walk(d):
        for fn in fs:
            if fn.endswith("-a") or fn.endswith("-d"):
                try:
                    os.utime(os.path.join(root, fn), (t, t))
                except OSError:
                    pass


def concurrency(ctx, child, rng):
    rounds = 2 if ctx.quick else 12
    nops = 150 if ctx.quick else 400
    if ctx.quick and ctx.seed % 2:
        rounds, first = 3, 1      # rounds 1,2 (the multi-content round first); even seeds: rounds 0,1
    else:
        first = 0
    res = {"rounds": [], "viol": [], "window": [], "hits": 0, "misses": 0, "openerr": 0, "killed": 0, "procs": 0}
    for r in range(first, rounds):
        d = ctx.path("conc", "r%d" % r, "x")
        d = os.path.dirname(d)
        k = [2, 3, 4, 6, 8][r % 5]
        nkeys = [10, 20, 5][r % 3]
        # 'x' = writer that stores one of three contents under the key (several contents per action id)
        if r % 2 == 0:
            phases = [("fresh", ["w", "wr", "r", "wr"]), ("aged", ["wrt", "t", "wr", "r", "wt"])]
        else:
            phases = [("fresh", ["x", "xr", "r", "wr"]), ("aged", ["xrt", "t", "xr", "r", "wt"])]
        for (pname, roles) in phases:
            if pname == "aged":
                age_all(d)
            procs = []
            for i in range(k):
                role = roles[i % len(roles)]
                seed = rng.next() % (1 << 62)
                p = subprocess.Popen([child, "worker", d, str(seed), str(nops), role, str(nkeys)],
                                     stdout=subprocess.PIPE, stderr=subprocess.PIPE, text=True)
                procs.append((p, role, seed))
            # kill some writers mid-run and start replacements (a writer dies at any point)
            nk = 1 + rng.below(2)
            for _ in range(nk):
                time.sleep(0.02 + rng.below(60) / 1000.0)
                cand = [x for x in procs if x[0].poll() is None and ("w" in x[1] or "x" in x[1])]
                if cand:
                    victim = rng.choice(cand)
                    victim[0].send_signal(signal.SIGKILL)
                    res["killed"] += 1
                    seed = rng.next() % (1 << 62)
                    p = subprocess.Popen([child, "worker", d, str(seed), str(nops), "wr", str(nkeys)],
                                         stdout=subprocess.PIPE, stderr=subprocess.PIPE, text=True)
                    procs.append((p, "wr", seed))
            for (p, role, seed) in procs:
                so, se = p.communicate(timeout=600)
                res["procs"] += 1
                for line in so.splitlines():
                    if line.startswith("VIOL"):
                        item = {"round": r, "phase": pname, "k": k, "nkeys": nkeys, "role": role,
                                "worker_seed": seed, "nops": nops, "line": line}
                        # the GetFile-then-open window (finding getfile-window): only a GetFile path
                        # that reads a STRICT PREFIX of a stored content while trimmers run
                        if line.startswith("VIOL getfile-prefix") and pname == "aged":
                            res["window"].append(item)
                        else:
                            res["viol"].append(item)
                    m = re.match(r"DONE puts=(\d+) puterr=(\d+) hits=(\d+) misses=(\d+) openerr=(\d+) trims=(\d+) viol=(\d+)", line)
                    if m:
                        res["hits"] += int(m.group(3))
                        res["misses"] += int(m.group(4))
                        res["openerr"] += int(m.group(5))
                if p.returncode not in (0, -9):
                    raise vlib.HarnessError("worker failed rc=%s: %s" % (p.returncode, se[-400:]))
            # after the dust settles: everything at rest, every lookup is a miss or exact
            rc, so, se = vlib.run([child, "worker", d, "1", str(4 * nkeys), "r", str(nkeys)], timeout=600)
            for line in so.splitlines():
                if line.startswith("VIOL"):
                    res["viol"].append({"round": r, "phase": pname + "-at-rest", "line": line})
        res["rounds"].append({"k": k, "nkeys": nkeys})
    return res


# --------------------------------------------------------------------------- (d2) the GetFile window, deterministically
def proc_state(pid):
    try:
        return open("/proc/%d/stat" % pid).read().rsplit(")", 1)[1].split()[0]
    except OSError:
        return "?"


def getfile_window(ctx, child, rng, kill_write):
    """The schedule of theorem getfile_window_breaks on the REAL code:
      1. a complete entry; its data file has not been used for 6 days (the index is fresh, as after a
         Put of the same content under a new action id, which does not touch the data file);
      2. a real Trim is stopped (strace: SIGSTOP after its os.Stat of that file, i.e. after it has
         decided to remove it and before os.Remove);
      3. a reader calls GetFile: hit, it holds the returned path (as lintcmd/runner does);
      4. the trimmer continues and removes the file;
      5. a real Put of the same content re-creates the file and is killed at its <kill_write>-th
         data write (kill_write=0: right after the open);
      6. the reader opens the path and reads.
    Returns a dict with what the reader read."""
    size = 70000
    base = os.path.dirname(ctx.path("win", "k%d" % kill_write, "x"))
    d = os.path.join(base, "dir")
    data = gen_bytes("window%d-%d" % (ctx.seed, kill_write), size)
    datafile = os.path.join(base, "data.bin")
    with open(datafile, "wb") as f:
        f.write(data)
    # the index file must not be trimmed first: keep it fresh and in any sub-directory
    idhex = sha(("window-id%d-%d" % (ctx.seed, kill_write)).encode())
    out = sha(data)
    res = {"size": size, "id": idhex, "kill_at_data_write": kill_write, "steps": []}
    rc, so, se = vlib.run([child, "op", "put", d, idhex, datafile], timeout=300)
    if rc != 0 or not so.startswith("put ok"):
        res["outcome"] = "setup-put-failed"
        res["steps"].append(so[:200] + se[-200:])
        return res
    dpath = os.path.join(d, out[:2], out + "-d")
    t = time.time() - 6 * 86400
    os.utime(dpath, (t, t))
    # dry run of the writer on a copy (data file removed) to find the ordinal of the kill point
    d2 = os.path.join(base, "dry")
    shutil.copytree(d, d2)
    os.remove(os.path.join(d2, out[:2], out + "-d"))
    log = os.path.join(base, "dry.strace")
    strace_child(child, ["op", "put", d2, idhex, datafile], log)
    main, scs = parse_strace(log)
    ops, points = window_ops(scs)
    dw = [(idx, what) for (idx, nops, what) in points if what.startswith("write:D")]
    if len(dw) <= kill_write:
        res["outcome"] = "no-such-kill-point"
        res["steps"].append("writer ops: %s" % ops)
        return res
    kidx = dw[kill_write][0]
    inject = (scs[kidx].name, ordinal(scs, kidx))
    # 2. the trimmer, stopped after its stat of the data file
    tlog = os.path.join(base, "trim.strace")
    tp = subprocess.Popen(["strace", "-f", "-o", tlog, "-P", dpath, "-e", "trace=newfstatat,unlinkat,unlink", "-e", "signal=none",
                           "-e", "inject=newfstatat:signal=SIGSTOP:when=1", child, "op", "trim", d, "x"],
                          stdout=subprocess.PIPE, stderr=subprocess.PIPE, text=True)
    tpid = None
    for _ in range(3000):
        time.sleep(0.05)
        if os.path.exists(tlog):
            m = re.search(r"^(\d+) +newfstatat\(", open(tlog, errors="replace").read(), re.M)
            if m and proc_state(int(m.group(1))) in ("T", "t"):
                tpid = int(m.group(1))
                break
        if tp.poll() is not None:
            break
    if tpid is None:
        try:
            tp.kill()
        except OSError:
            pass
        tp.communicate()
        # the trimmer never stat'ed the file (or finished without stopping): this Trim does not
        # open the window in this way
        res["outcome"] = "trimmer-did-not-stop"
        res["data_file_exists"] = os.path.exists(dpath)
        return res
    res["steps"].append("trimmer stopped after os.Stat of the data file (old mtime), before os.Remove")
    rd = subprocess.Popen([child, "op", "getfile-hold", d, idhex], stdin=subprocess.PIPE, stdout=subprocess.PIPE,
                          stderr=subprocess.PIPE, text=True)
    line = rd.stdout.readline().strip()
    res["steps"].append("reader GetFile: " + ("hit, path held" if line.startswith("path ") else line))
    os.kill(tpid, signal.SIGCONT)
    try:
        tp.communicate(timeout=300)
    except subprocess.TimeoutExpired:
        tp.kill()
        tp.communicate()
    removed = not os.path.exists(dpath)
    res["steps"].append("trimmer continued; data file removed: %s" % removed)
    if not line.startswith("path "):
        rd.stdin.write("\n")
        rd.stdin.flush()
        rd.communicate(timeout=60)
        res["outcome"] = "getfile-missed"
        return res
    if removed:
        wlog = os.path.join(base, "writer.strace")
        rcw, sow, sew = strace_child(child, ["op", "put", d, idhex, datafile], wlog, inject=inject)
        res["steps"].append("writer Put of the same content killed at %s #%d (rc=%s); data file now %s bytes" % (
            inject[0], inject[1], rcw, os.path.getsize(dpath) if os.path.exists(dpath) else None))
        res["data_file_len_when_read"] = os.path.getsize(dpath) if os.path.exists(dpath) else None
    rd.stdin.write("\n")
    rd.stdin.flush()
    so, _ = rd.communicate(timeout=120)
    read = so.strip().splitlines()[-1] if so.strip() else "read=?"
    res["read"] = read
    res["expected"] = "read=hit:%s:%d" % (out, size)
    m = re.match(r"read=hit:([0-9a-f]+):(\d+)$", read)
    if read == res["expected"] or read == "read=openerr":
        res["outcome"] = "sound"          # complete content, or an error the caller sees
    elif m and int(m.group(2)) < size and m.group(1) == sha(data[:int(m.group(2))]):
        res["outcome"] = "strict-prefix"  # the window: the caller silently reads a strict prefix
    else:
        res["outcome"] = "other-bytes"
    return res


# --------------------------------------------------------------------------- (e) end to end
E2E_FILES = {
    "go.mod": "module example.com/c05\n\ngo 1.21\n",
    "b/b.go": """package b

// Deprecated: use G.
func F() int { return 1 }

func G() int { return 2 }

// Pure has no side effects.
func Pure(x int) int { return x*2 + 1 }

// Twice has no side effects either.
func Twice(x int) int { return Pure(Pure(x)) }

type Box struct{ V int }

// Deprecated: read V directly.
func (b Box) Get() int { return b.V }

func unusedB() {}
""",
    "c/c.go": """package c

import "example.com/c05/b"

type T struct{ X int }

// Deprecated: gone.
func (T) Old() int { return b.G() }

func Wrap(x int) int { return b.Pure(x) + 1 }

func UsesF() int { return b.F() }

func Get_value(t T) int { return t.X }
""",
    "a/a.go": """package a

import (
\t"example.com/c05/b"
\t"example.com/c05/c"
)

// Deprecated: use A2.
func A() int {
\tx := b.F()
\tx = 3
\tvar t c.T
\tb.Pure(1)
\tc.Wrap(2)
\treturn t.Old() + b.G() + x
}

func A2(v int) int {
\tv = v
\tbx := b.Box{V: v}
\treturn bx.Get()
}

func unusedA() {}
""",
    "d/d.go": """package d

import "example.com/c05/a"

func D() bool {
\ty := a.A()
\tif y == y {
\t\treturn true
\t}
\treturn false
}

func Loop(n int) int {
\tfor i := 0; i < n; i++ {
\t\treturn i
\t}
\treturn a.A2(n)
}
""",
    "e/e.go": """package e

import (
\t"example.com/c05/b"
\t"example.com/c05/d"
)

func E(flag bool) int {
\tif flag == true {
\t\tb.Twice(3)
\t}
\tif d.D() {
\t\treturn b.F()
\t}
\treturn d.Loop(2)
}
""",
}
E2E_MIN_LINES = 14   # 16 diagnostics on the unchanged tree, 8 of them need facts of other packages (SA1019, SA4017)


def end_to_end(ctx, rng):
    sc = vlib.build_repo_cmd(ctx, "./cmd/staticcheck")
    mod = ctx.path("e2e", "mod", "go.mod")
    mod = os.path.dirname(mod)
    for rel, txt in E2E_FILES.items():
        p = os.path.join(mod, rel)
        os.makedirs(os.path.dirname(p), exist_ok=True)
        with open(p, "w") as f:
            f.write(txt)

    def lint(cache):
        env = vlib.go_env({"STATICCHECK_CACHE": cache})
        rc, so, se = vlib.run([sc, "-checks", "all,-ST1000", "./..."], cwd=mod, env=env, timeout=600)
        return rc, so, se

    cold = ctx.path("e2e", "cold", "x")
    cold = os.path.dirname(cold)
    rc0, out0, err0 = lint(cold)
    if rc0 not in (0, 1) or not out0.strip():
        raise vlib.HarnessError("cold staticcheck run failed: rc=%d %s %s" % (rc0, out0[:300], err0[-500:]))
    rounds = 10 if ctx.quick else 60
    res = {"rounds": rounds, "cold_lines": len(out0.splitlines()), "diffs": [], "damaged_files": 0}
    if res["cold_lines"] < E2E_MIN_LINES:
        ctx.notes.append("end-to-end: the cold run printed only %d diagnostics (expected >= %d)" % (res["cold_lines"], E2E_MIN_LINES))
    warm = ctx.path("e2e", "warm", "x")
    warm = os.path.dirname(warm)
    rcw, outw, errw = lint(warm)
    if (rcw, outw) != (rc0, out0):
        res["diffs"].append({"round": "warm-up", "expected": out0, "got": outw, "rc": rcw, "stderr": errw[-400:]})
        return res

    def one(r):
        lr = rng.fork("e2e%d" % r)
        d = os.path.join(os.path.dirname(warm), "w%d" % r)
        shutil.copytree(warm, d)
        files = sorted(os.path.join(root, fn) for root, _, fs in os.walk(d) for fn in fs
                       if fn.endswith("-a") or fn.endswith("-d"))
        dmg = []
        for p in files:
            x = lr.below(10)
            size = os.path.getsize(p)
            if r < 3:
                # directed rounds: every data file damaged with every index entry intact
                # (0: cut to 0 bytes, 1: cut to half, 2: removed)
                if p.endswith("-d") and size > 0:
                    if r == 2:
                        os.remove(p)
                        dmg.append((os.path.basename(p), "rm", 0, size))
                    else:
                        n = 0 if r == 0 else size // 2
                        os.truncate(p, n)
                        dmg.append((os.path.basename(p), "trunc", n, size))
                continue
            if x < 3:
                n = lr.below(size + 1)
                os.truncate(p, n)
                dmg.append((os.path.basename(p), "trunc", n, size))
            elif x < 5:
                os.remove(p)
                dmg.append((os.path.basename(p), "rm", 0, size))
        rc, so, se = lint(d)
        rc2, so2, se2 = lint(d)  # and once more on the repaired cache
        return (r, dmg, rc, so, se, rc2, so2)

    with ThreadPoolExecutor(max_workers=min(4, WORKERS)) as ex:
        outs = list(ex.map(one, range(rounds)))
    for (r, dmg, rc, so, se, rc2, so2) in outs:
        res["damaged_files"] += len(dmg)
        if (rc, so) != (rc0, out0) or (rc2, so2) != (rc0, out0):
            res["diffs"].append({"round": r, "damage": dmg, "expected_rc": rc0, "expected": out0,
                                 "got_rc": rc, "got": so, "stderr": se[-600:], "second_run_rc": rc2, "second_run": so2})
    return res


# --------------------------------------------------------------------------- main
WINDOW_KEY = "getfile-window"


def run(ctx):
    lean_ok, lean_broke = vlib.std_lean_phase(ctx, MODULES, THEOREMS)
    child = vlib.build_harness(ctx, "c05child")
    rng = vlib.SplitMix(ctx.seed)
    known = vlib.load_known_findings("C05")

    # self tests of the machinery (the only sources of exit 2 besides build failures)
    probe = [b"", b"abc", gen_bytes("p", 55), gen_bytes("p", 56), gen_bytes("p", 64), gen_bytes("p", 1000)]
    got = vlib.run_model(ctx, "C05", ["sha " + hexs(b) for b in probe])
    if got != [sha(b) for b in probe]:
        raise vlib.HarnessError("model driver sha256 self-test failed")
    strace_selftest(ctx, child)

    if ctx.replay:
        return replay(ctx, child)

    t0 = time.time()
    scen = make_scenarios(ctx, rng.fork("scen")) + flaky_scenarios(ctx, rng.fork("flaky"))
    sres = run_scenarios(ctx, child, scen)
    t1 = time.time()
    fres = faults_at_rest(ctx, child, rng.fork("rest"))
    t2 = time.time()
    hres = histories(ctx, child, rng.fork("hist"))
    t3 = time.time()
    cres = concurrency(ctx, child, rng.fork("conc"))
    t4 = time.time()
    wres = [getfile_window(ctx, child, rng.fork("win"), kw) for kw in ([1 + ctx.seed % 2] if ctx.quick else [0, 1, 2, 3])]
    t5 = time.time()
    eres = end_to_end(ctx, rng.fork("e2e"))
    t6 = time.time()

    ctx.coverage.update({
        "evaluations": sres["children"] + fres["cases"] + hres["ops"] + cres["procs"] + len(wres) + 2 * eres["rounds"],
        "distinct_nontrivial": len(sres["nontrivial"]) + fres["nontrivial"] + hres["count"],
        "rule": "non-trivial = strace/kill case whose initial directory already holds a file of the touched id/output, or whose "
                "kill point lies inside the data-file write or between data and index write; fault-at-rest case other than the intact "
                "directory; every history (>= 5 operations on one directory, at least one damage or trim or second content)",
        "strace_children": sres["children"], "crash_children": sres["crash_children"],
        "scenarios": len(scen), "scenario_kinds": sorted(set(s["kind"].rstrip("0123456789") for s in scen)),
        "sizes": sorted(set(s["size"] for s in scen)),
        "faults_at_rest_cases": fres["cases"], "faults_at_rest_hits": fres["hits"], "faults_at_rest_misses": fres["misses"],
        "histories": {"count": hres["count"], "operations": hres["ops"], "by_kind": hres["kinds"],
                      "with_several_contents_per_id": hres["multi"]},
        "concurrency": {"rounds": cres["rounds"], "processes": cres["procs"], "killed": cres["killed"], "hits_checked": cres["hits"],
                        "misses": cres["misses"], "getfile_then_open_errors": cres["openerr"],
                        "getfile_window_prefix_reads": len(cres["window"])},
        "getfile_window_schedules": [{"kill_at_data_write": w["kill_at_data_write"], "outcome": w["outcome"], "read": w.get("read")} for w in wres],
        "end_to_end": {"rounds": eres["rounds"], "damaged_files": eres["damaged_files"], "cold_output_lines": eres["cold_lines"]},
        "samples": sres["samples"],
        "phase_seconds": {"strace": round(t1 - t0, 1), "rest": round(t2 - t1, 1), "histories": round(t3 - t2, 1),
                          "concurrency": round(t4 - t3, 1), "window": round(t5 - t4, 1), "e2e": round(t6 - t5, 1)},
    })
    ctx.assumptions += [
        "sha256 has no second preimage for stored contents (theorem hypotheses World.nocoll / WorldM.nocoll / put_repairs.hH)",
        "two theorem families: (Ev) every writer of an action id stores the same content, index write may be torn by a crash; "
        "(EvM) any contents per action id, the index write (one write(2) of 175 bytes at offset 0: compared on every run) is atomic "
        "w.r.t. process death. A torn index write over an entry of another content is outside both (theorem torn_index_mix_breaks); "
        "the at-rest cases index-half*-over-other* sample it against the oracle only",
        "POSIX semantics of open/write/ftruncate/unlink on a local file system and atomicity of a single read are modelled, not verified; "
        "the order, flags, offsets and lengths of the real system calls are compared with the model on every run (strace)",
        "truncation is read as a fault on a file at rest and only to a shorter length; truncating a data file under a live writer is outside "
        "(theorem midwrite_truncate_breaks)",
        "the window between GetFile's size check and the caller's open: sound unless a trimmer is between its os.Stat and os.Remove of that "
        "file while GetFile runs (theorems getFile_then_trim_sound / getfile_window_breaks); that schedule is replayed on the real code on "
        "every run (finding key=getfile-window)",
        "lookup_sound/lookup_soundM/lookup_soundT need the invariant in the initial state (directories reachable from the empty one); "
        "put_repairs needs no invariant",
        "I/O errors other than process death (ENOSPC, EIO), power loss, non-local file systems: outside",
    ]
    if cres["openerr"]:
        ctx.notes.append("GetFile hit followed by a failing open was observed %d times under concurrent trim (an error the caller sees)" % cres["openerr"])

    # ---- classification: oracle failures on the real code
    oracle = sorted(sres["oracle"], key=lambda c: c["size"]) + fres["oracle"]
    if oracle:
        ctx.violation("wrong_bytes.json", {
            "what": "a cache lookup returned bytes that were never stored under that key",
            "how_to_replay": "./check C05 --replay <this file>  (materialises `files` (hex) in a cache directory and runs harness/cmd/c05child op look <dir> <id>)",
            "first": oracle[0], "count": len(oracle), "cases": oracle[:20],
        }, text="C05: lookup returned wrong bytes: %s" % json.dumps(oracle[0])[:600])
    if sres["no_repair"]:
        nr = sorted(sres["no_repair"], key=lambda c: c["size"])
        ctx.violation("put_no_repair.json", {
            "what": "cache.Put returned success on a directory with a damaged entry, but the entry is not complete afterwards: the path "
                    "OutputFile(out) (which lintcmd/runner opens without any check) or a lookup does not give the stored content "
                    "(theorem put_repairs fails for the real code)",
            "how_to_replay": "./check C05 --replay <this file>  (materialises `files`, runs harness/cmd/c05child op put <dir> <id> <data file>, "
                             "which prints what the OutputFile path reads, then op look)",
            "first": nr[0], "count": len(nr), "cases": nr[:20],
        }, text="C05: Put succeeded over a damaged entry without repairing it: %s: %s" % (nr[0]["scenario"], "; ".join(nr[0]["problems"]))[:600])
    if hres["oracle"]:
        ctx.violation("history_wrong_bytes.json", {
            "what": "in a history of stores, faults at rest, lookups and trims on one directory a Put did not leave a complete entry or a "
                    "lookup returned bytes never stored under that key",
            "how_to_replay": "./check C05 --replay <this file>  (re-runs `ops` through harness/cmd/c05child batch on an empty directory)",
            "first": hres["oracle"][0], "count": len(hres["oracle"]), "cases": hres["oracle"][:10],
        }, text="C05: history violates the property: %s" % json.dumps(hres["oracle"][0]["problems"][0])[:600])
    if cres["viol"]:
        ctx.violation("concurrent_wrong_bytes.json", {
            "what": "under concurrent put/get/trim (with killed writers) a lookup returned bytes other than a stored content",
            "how_to_replay": "harness/cmd/c05child worker <dir> <seed> <nops> <roles> <nkeys> with k processes as listed; schedule dependent",
            "first": cres["viol"][0], "count": len(cres["viol"]), "cases": cres["viol"][:20],
        }, text="C05: concurrent lookup returned wrong bytes: %s" % cres["viol"][0]["line"])
    if eres["diffs"]:
        ctx.violation("end_to_end.json", {
            "what": "staticcheck output computed through a damaged cache differs from the cold output",
            "how_to_replay": "module files and damage list below; STATICCHECK_CACHE=<dir> staticcheck -checks all,-ST1000 ./...",
            "module": E2E_FILES, "first": eres["diffs"][0], "count": len(eres["diffs"]),
        }, text="C05: linter output through damaged cache differs from cold output (round %s)" % eres["diffs"][0]["round"])
    # the GetFile window: known finding for exactly that schedule and exactly that outcome
    win_hits = [w for w in wres if w["outcome"] == "strict-prefix"]
    win_bad = [w for w in wres if w["outcome"] in ("other-bytes",)]
    win_broken = [w for w in wres if w["outcome"] in ("setup-put-failed", "no-such-kill-point", "getfile-missed")]
    if win_hits or cres["window"]:
        desc = ("key=%s GetFile returned a path; a Trim that had stat'ed the 6-day-old data file before GetFile's mtime bump removed it "
                "afterwards; a killed writer re-created a prefix; the caller's open+read got a strict prefix (%s; %d concurrent-phase reads)"
                % (WINDOW_KEY, ", ".join("%s of %d bytes" % ((w.get("read") or "?").split(":")[-1], w["size"]) for w in win_hits) or "-",
                   len(cres["window"])))
        if WINDOW_KEY in known:
            ctx.known_finding(desc)
        else:
            ctx.violation("getfile_window.json", {
                "what": "GetFile hit, then trimmer (stat before the hit, remove after it) + re-creating writer: the caller reads a strict prefix",
                "schedules": win_hits, "concurrent": cres["window"][:10],
            }, text="C05: " + desc)
    elif WINDOW_KEY in known:
        ctx.notes.append("known finding %s was not reproduced this run: %s" % (WINDOW_KEY, [w["outcome"] for w in wres]))
    if win_bad:
        ctx.violation("getfile_window_other_bytes.json", {
            "what": "in the GetFile-window schedule the caller read bytes that are neither the content nor a prefix of it",
            "schedules": win_bad}, text="C05: GetFile window: caller read foreign bytes: %s" % win_bad[0].get("read"))

    corr = {"syscall_sequence": sres["seq_diffs"][:10], "directory_after_kill": sres["state_diffs"][:10],
            "lookups_after_kill": sres["look_diffs"][:10], "lookups_at_rest": fres["look_diffs"][:10],
            "completed_put_misses": sres["complete_miss"][:10], "put_failed_or_crashed": sres["put_failed"][:10],
            "kill_not_placed_where_the_plain_run_had_the_call": sres["kill_landing"][:10],
            "histories_real_vs_model": hres["diffs"][:5], "window_schedule_not_realised": win_broken[:3]}
    broke = any(corr.values()) or not lean_ok
    if broke and not ctx.violations:
        # violation search: everything explored above already went through the oracle (every kill
        # point, every truncation length, histories); widen: more histories, one more concurrency run
        more = histories(ctx, child, rng.fork("search-hist"), count=150 if ctx.quick else 600)
        extra = concurrency(ctx, child, rng.fork("search"))
        if more["oracle"]:
            ctx.violation("history_wrong_bytes.json", {
                "what": "found by the violation search: a history in which a Put did not leave a complete entry or a lookup returned "
                        "bytes never stored under that key",
                "how_to_replay": "./check C05 --replay <this file>",
                "first": more["oracle"][0], "cases": more["oracle"][:10], "correspondence": corr, "lean": lean_broke,
            }, text="C05: history violates the property: %s" % json.dumps(more["oracle"][0]["problems"][0])[:600])
        elif extra["viol"]:
            ctx.violation("concurrent_wrong_bytes.json", {
                "what": "under concurrent put/get/trim a lookup returned bytes other than the stored content (found by the violation search)",
                "first": extra["viol"][0], "cases": extra["viol"][:20], "correspondence": corr, "lean": lean_broke,
            }, text="C05: concurrent lookup returned wrong bytes: %s" % extra["viol"][0]["line"])
        else:
            ctx.violation("correspondence.json", {
                "what": "the model no longer corresponds to the code (or a proof no longer checks); the oracle held on everything explored",
                "correspondence_streams": {k: len(v) for k, v in corr.items()}, "details": corr, "lean": lean_broke,
                "theorems": THEOREMS,
            }, nofail=True, text="C05: model/code correspondence broke: %s" % ", ".join(k for k, v in corr.items() if v))
    elif broke:
        ctx.notes.append("correspondence also broke: %s" % ", ".join(k for k, v in corr.items() if v))
        ctx.write_replay("correspondence_detail.json", {"details": corr, "lean": lean_broke})
    return vlib.finish(ctx, "proof")


def replay(ctx, child):
    obj = json.load(open(ctx.replay))
    cases = obj.get("cases") or [obj.get("first")]
    bad = 0
    n = 0
    for c in cases:
        if c is None:
            continue
        n += 1
        if "ops" in c:      # a history
            d = os.path.dirname(ctx.path("replay", "h%d" % n, "x"))
            ops = ops_from_json(c["ops"])
            real = run_history_real(child, d, ops)
            probs = history_oracle(ops, real)
            if probs:
                bad += 1
                ctx.violation("replay_history.json", {"ops": c["ops"], "problems": probs, "real_results": real},
                              text="C05 replay: history violates the property: %s" % json.dumps(probs[0])[:400])
            continue
        files = c.get("files")
        if files is None or any(str(v).startswith("sha256:") for v in files.values()):
            continue
        d = os.path.dirname(ctx.path("replay", "d%d" % n, "x"))
        write_state(d, {k: bytes.fromhex(v) for k, v in files.items()})
        stored = set((a, b) for a, b in c["stored"])
        if "problems" in c and not str(c.get("data", "sha256:")).startswith("sha256:"):   # put over a damaged entry
            data = bytes.fromhex(c["data"])
            f = ctx.path("replay", "data%d.bin" % n)
            with open(f, "wb") as fh:
                fh.write(data)
            rc, so, se = vlib.run([child, "op", "put", d, c["id"], f])
            want = "outfile=hit:%s:%d" % (sha(data), len(data))
            if so.startswith("put ok") and want not in so.split():
                bad += 1
                ctx.violation("replay_put_no_repair.json", {"case": c, "put": so.strip()},
                              text="C05 replay: Put succeeded without repairing the entry: %s" % so.strip()[:200])
        rc, so, se = vlib.run([child, "op", "look", d, c["id"]])
        for (api, h, k) in look_hits(so.strip()):
            if (h, k) not in stored:
                bad += 1
                ctx.violation("replay_wrong_bytes.json", {"case": c, "look": so.strip()},
                              text="C05 replay: %s returned wrong bytes" % api)
    ctx.coverage.update({"evaluations": n, "distinct_nontrivial": n, "rule": "replay"})
    return vlib.finish(ctx, "proof")


META = {
    "level": "proof",
    "technique": "Lean 4 invariant proofs over a micro-step model of the cache's file protocol (all interleavings, crash points, faults at rest, "
                 "several contents per action id, Trim/used with mtimes); strace-level correspondence, kill injection at every system call, "
                 "exhaustive truncation lengths, generated histories against the model, concurrent processes, the GetFile window replayed "
                 "deterministically, damaged-cache end-to-end runs",
    "text": "Inv/InvM (data files are prefixes of the content their name hashes; index files agree with one complete entry) are preserved by "
            "every writer step, crash, truncation at rest and unlink for any number of writers (inv_run, inv_runM), also with trimmers, clocks and "
            "used() (invT_run); lookup_sound / lookup_soundM / lookup_soundT: a hit returns exactly a stored content; put_repairs: from ANY "
            "directory a Put terminates within |data|+7 system calls and leaves a complete entry; trim_only_old, getFile_then_trim_sound "
            "(the GetFile window is safe unless a trimmer is between stat and remove), flaky_source_never_full. The model is tied to the "
            "code by comparing the real system-call sequence of cache.Put (strace), the directory after a SIGKILL at every system call, "
            "the real lookups, and whole generated histories (puts, faults, lookups, ageing + real Trim) with the model on every run.",
    "note": "Trusted: Lean kernel, compiled model driver (incl. its SHA-256, self-tested), strace, harness/cmd/c05child, POSIX file semantics. "
            "Hypotheses: no second preimage of stored contents' hashes; (Ev family) one content per action id, (EvM family) atomic index write. "
            "Outside: truncation under a live writer, torn index write over another content's entry, I/O errors, power loss. "
            "Known finding getfile-window (GetFile path read after trimmer + re-creating writer).",
    "design_ref": "DESIGN.md section 5, C05",
}
