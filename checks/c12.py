"""C12 — merging runs follows any/all semantics, order-independently.

Lean (Verif/C12): Model (runFromLintResult, mergeRuns, sort + de-duplication + build-name
union of printDiagnostics, for *any* permutation sorted for the comparator), Pipeline
(the comparator for an arbitrary field order; linter.lint's MergeIf/BuildName assignment;
the `-f binary` normalisation relPath + cleared offsets; parseBuildConfigs /
parseBuildConfig; `-matrix` = parse + one run per configuration + merge), Theorems.

Ties, all checked on every run against the tree under test, no hook:
 G  `c12gob lessfields` reads the field order of the `less` closure from lintcmd/cmd.go
    into Verif/C12/Generated.lean; `source_order_desc_first` re-proves on it that the whole
    descriptor is compared before the build name (a harmless reorder stays green).
 X1 gob-crafted runs -> real `staticcheck -show-ignored -merge -f text|json` (generated,
    permuted, repeated, one file, stdin; mixed strategies, severities, case-inconsistent
    check names) vs. the model and vs. the Python oracle.
 X2 per build configuration a PLAIN run (`-f json -tags=…`, no -matrix, no -f binary) of a
    generated module + the merge strategy of each check's documentation read from the
    REAL registry (`c12gob registry`) + the files each configuration compiles -> the model
    computes (a) what `-f binary` must write for that configuration from an LF checkout
    and from a CRLF checkout in another directory (compared field by field with the
    decoded real files), (b) the `-merge` of those files, (c) `-matrix` on stdin texts in
    varied syntax (parsed by the model's parseBuildConfigs); all compared with the real
    binary and with the Python oracle.
 X3 the matrix line parser through the CLI: generated stdin texts, error line and kind
    (`<stdin>:N couldn't parse build matrix: …`) vs. the model; a sentinel bad line makes
    N count the configurations accepted before it.
 X4 the gob mirror types of c12gob vs. lintcmd's: every real `-f binary` file is decoded
    into the mirror types and re-encoded; wire type definitions and value bytes must agree.
 Probes of the world hypotheses: analyzer names of the real registry (which must be the
 names `staticcheck -list-checks` prints) and the categories real runs report are spelled
 in one letter case; U1000 has MergeIfAll in every real run.

Oracle (independent of the model, computed here from the runs): the printed multiset is
exactly {(d, sorted build names of the runs that reported d) | d kept by any/all}, each
once, and it is invariant under permutation and repetition of runs.
"""
import collections
import json
import os
import re
import subprocess
import threading

import vlib

MODULES = ["Verif.C12.Theorems"]
THEOREMS = [
    "Verif.C12.keep_any",
    "Verif.C12.keep_all",
    "Verif.C12.kept_iff",
    "Verif.C12.out_nodup",
    "Verif.C12.builds_exact",
    "Verif.C12.builds_exact_uniform",
    "Verif.C12.out_unique",
    "Verif.C12.output_congr",
    "Verif.C12.merge_comm",
    "Verif.C12.merge_idem",
    "Verif.C12.merge_idem_mem",
    "Verif.C12.less_spec",
    "Verif.C12.sortDiags_sorted_perm",
    "Verif.C12.runFromLintResult_last_wins",
    "Verif.C12.old_comparator_witness",
    # strengthening round
    "Verif.C12.kept_iff_strategies",
    "Verif.C12.builds_exact_strategies",
    "Verif.C12.case_inconsistent_witness",
    "Verif.C12.out_any_desc_first_order",
    "Verif.C12.out_desc_first_fields",
    "Verif.C12.source_order_desc_first",
    "Verif.C12.out_source_order",
    "Verif.C12.binary_location_offset_independent",
    "Verif.C12.binary_offsets_cleared",
    "Verif.C12.merge_location_independent",
    "Verif.C12.matrix_lines",
    "Verif.C12.matrix_line_count",
    "Verif.C12.matrix_trailing_newline",
    "Verif.C12.matrix_blank_lines",
    "Verif.C12.matrix_line_meaning",
    "Verif.C12.matrix_any_all",
    "Verif.C12.matrix_builds",
    "Verif.C12.matrix_order_repetition",
    "Verif.C12.matrix_newline",
]

ANY, ALL = 0, 1
CATS = [("SA1000", ANY), ("SA1001", ANY), ("S1000", ANY), ("ST1005", ANY),
        ("SA4006", ALL), ("U1000", ALL), ("SA9005", ALL), ("S1002", ALL)]
BUILDS = ["linux", "windows", "darwin", "a_1", "B", "b", "linux2", ""]
MSGS = ["m", "m1", "M", "m 2", "mm", "n"]

DESC_KEYS = ("file", "off", "line", "col", "efile", "eoff", "eline", "ecol", "cat", "msg")
DIAG_KEYS = DESC_KEYS + ("sev", "mergeif", "build")


# ----------------------------------------------------------------------------- generator
def gen_group(rng, gi, nruns):
    """One independent little universe: 1-2 files, a pool of descriptors with deliberate
    collisions (same position+message under different checks / Ends / offsets), and for
    every run: which files it checked and which descriptors it reported.  Severities vary
    (the real binary is run with -show-ignored, so ignored problems are printed too);
    a report may carry another strategy than the other reports of its descriptor
    (mixed strategies, also the value 2 that mergeRuns' switch drops)."""
    files = ["g%d/x.go" % gi] + (["g%d/y.go" % gi] if rng.chance(1, 2) else [])
    pool = []
    npool = 1 + rng.below(5)
    base = None
    for _ in range(npool):
        cat, mi = rng.choice(CATS)
        if base is not None and rng.chance(3, 5):
            # collide with an earlier descriptor on (file,line,col,message)
            d = dict(base)
            how = rng.below(6)
            if how <= 2:
                d["cat"], d["mergeif"] = cat, mi
            elif how == 3:
                d["efile"], d["eline"], d["ecol"] = d["file"], d["line"], d["col"] + 1 + rng.below(3)
            elif how == 4:
                d["cat"], d["mergeif"] = cat, mi
                d["efile"], d["eline"], d["ecol"] = d["file"], d["line"] + rng.below(2), d["col"] + rng.below(3)
            else:
                d["off"] = d["off"] + 1 + rng.below(2)
        else:
            f = rng.choice(files)
            line, col = 1 + rng.below(3), 1 + rng.below(2)
            d = {"file": f, "off": 0, "line": line, "col": col,
                 "efile": "", "eoff": 0, "eline": 0, "ecol": 0,
                 "cat": cat, "msg": rng.choice(MSGS), "sev": rng.choice([0, 0, 0, 1, 2]), "mergeif": mi}
            if rng.chance(1, 3):
                d["efile"], d["eline"], d["ecol"] = f, line, col + 1 + rng.below(2)
        if base is None or rng.chance(1, 2):
            base = d
        pool.append(d)
    per_run = []
    for _ in range(nruns):
        checked = [f for f in files if rng.chance(3, 4)]
        p = 1 + rng.below(4)            # reporting probability p/4, varies per run
        diags = [dict(d) for d in pool if rng.chance(p, 4)]
        for d in diags:
            if rng.chance(1, 10):
                d["mergeif"] = rng.choice([ANY, ALL, 2])       # mixed strategies
            if rng.chance(1, 10):
                d["sev"] = rng.below(3)
        if diags and rng.chance(1, 6):
            dd = dict(rng.choice(diags))               # same descriptor twice in one run: the last one counts
            if rng.chance(1, 2):
                dd["mergeif"], dd["sev"] = rng.choice([ANY, ALL, 2]), rng.below(3)
            diags.append(dd)
        per_run.append((checked, diags))
    return per_run


def gen_case(rng, ngroups):
    nruns = 1 + rng.below(4)
    names = rng.shuffle(BUILDS)[:nruns]
    if nruns > 1 and rng.chance(1, 6):
        names[1] = names[0]                            # two runs of the same build
    runs = [{"checked": [], "diags": []} for _ in range(nruns)]
    for gi in range(ngroups):
        for ri, (checked, diags) in enumerate(gen_group(rng, gi, nruns)):
            runs[ri]["checked"] += checked
            for d in diags:
                d["build"] = names[ri]
                runs[ri]["diags"].append(d)
    for r in runs:
        r["checked"] = rng.shuffle(r["checked"])
        r["diags"] = rng.shuffle(r["diags"])
    return runs


CORPUS = [
    # DESIGN.md section 6 row 12: two checks, same position and message, two builds
    [{"checked": ["x.go"], "diags": [
        {"file": "x.go", "line": 1, "col": 1, "cat": "SA1000", "msg": "m", "mergeif": ANY, "build": "linux"},
        {"file": "x.go", "line": 1, "col": 1, "cat": "SA1001", "msg": "m", "mergeif": ANY, "build": "linux"}]},
     {"checked": ["x.go"], "diags": [
        {"file": "x.go", "line": 1, "col": 1, "cat": "SA1000", "msg": "m", "mergeif": ANY, "build": "windows"},
        {"file": "x.go", "line": 1, "col": 1, "cat": "SA1001", "msg": "m", "mergeif": ANY, "build": "windows"}]}],
    # same check, same position and message, different End, two builds
    [{"checked": ["x.go"], "diags": [
        {"file": "x.go", "line": 2, "col": 3, "efile": "x.go", "eline": 2, "ecol": 5, "cat": "SA4006", "msg": "m", "mergeif": ALL, "build": "linux"},
        {"file": "x.go", "line": 2, "col": 3, "efile": "x.go", "eline": 2, "ecol": 9, "cat": "SA4006", "msg": "m", "mergeif": ALL, "build": "linux"}]},
     {"checked": ["x.go"], "diags": [
        {"file": "x.go", "line": 2, "col": 3, "efile": "x.go", "eline": 2, "ecol": 5, "cat": "SA4006", "msg": "m", "mergeif": ALL, "build": "windows"},
        {"file": "x.go", "line": 2, "col": 3, "efile": "x.go", "eline": 2, "ecol": 9, "cat": "SA4006", "msg": "m", "mergeif": ALL, "build": "windows"}]}],
    # 'all': dropped because a run that checked the file did not report it; kept where the
    # silent run did not check the file; 'any' kept from a single run
    [{"checked": ["x.go", "y.go"], "diags": [
        {"file": "x.go", "line": 1, "col": 1, "cat": "U1000", "msg": "m", "mergeif": ALL, "build": "linux"},
        {"file": "y.go", "line": 1, "col": 1, "cat": "U1000", "msg": "n", "mergeif": ALL, "build": "linux"},
        {"file": "x.go", "line": 3, "col": 1, "cat": "SA1000", "msg": "m", "mergeif": ANY, "build": "linux"}]},
     {"checked": ["x.go"], "diags": []},
     {"checked": ["y.go"], "diags": [
        {"file": "y.go", "line": 1, "col": 1, "cat": "U1000", "msg": "n", "mergeif": ALL, "build": "darwin"}]}],
    # reporter did not check the file itself; empty build name next to a named one
    [{"checked": [], "diags": [
        {"file": "x.go", "line": 1, "col": 1, "cat": "U1000", "msg": "m", "mergeif": ALL, "build": ""}]},
     {"checked": ["x.go"], "diags": [
        {"file": "x.go", "line": 1, "col": 1, "cat": "U1000", "msg": "m", "mergeif": ALL, "build": "linux"}]}],
    # one diagnostic only (the len(diagnostics) > 1 guard); no runs at all
    [{"checked": ["x.go"], "diags": [
        {"file": "x.go", "line": 1, "col": 1, "cat": "SA1000", "msg": "m", "mergeif": ANY, "build": "linux"}]}],
    [],
    # offsets differ only (cannot come from -f binary, which clears them; gob accepts it)
    [{"checked": ["x.go"], "diags": [
        {"file": "x.go", "off": 0, "line": 1, "col": 1, "cat": "SA1000", "msg": "m", "mergeif": ANY, "build": "linux"},
        {"file": "x.go", "off": 7, "line": 1, "col": 1, "cat": "SA1000", "msg": "m", "mergeif": ANY, "build": "linux"}]},
     {"checked": ["x.go"], "diags": [
        {"file": "x.go", "off": 0, "line": 1, "col": 1, "cat": "SA1000", "msg": "m", "mergeif": ANY, "build": "windows"},
        {"file": "x.go", "off": 7, "line": 1, "col": 1, "cat": "SA1000", "msg": "m", "mergeif": ANY, "build": "windows"}]}],
    # End offsets differ only (what a -f binary that forgets to clear End.Offset produces
    # for an LF and a CRLF checkout): two distinct descriptors, each under its build
    [{"checked": ["x.go"], "diags": [
        {"file": "x.go", "line": 5, "col": 9, "efile": "x.go", "eoff": 67, "eline": 5, "ecol": 15, "cat": "SA4006", "msg": "m", "mergeif": ALL, "build": "unix"}]},
     {"checked": ["x.go"], "diags": [
        {"file": "x.go", "line": 5, "col": 9, "efile": "x.go", "eoff": 71, "eline": 5, "ecol": 15, "cat": "SA4006", "msg": "m", "mergeif": ALL, "build": "windows"}]}],
    # mixed strategies for one descriptor (Lean: mixRuns): linux 'all' (not accepted: darwin
    # checked x.go and is silent), windows 'any' (accepted); strategy value 7 is dropped
    [{"checked": ["x.go"], "diags": [
        {"file": "x.go", "line": 1, "col": 1, "cat": "U1000", "msg": "m", "mergeif": ALL, "build": "linux"},
        {"file": "x.go", "line": 3, "col": 1, "cat": "S1", "msg": "m", "mergeif": ALL, "build": "linux"}]},
     {"checked": ["x.go"], "diags": [
        {"file": "x.go", "line": 3, "col": 1, "cat": "S1", "msg": "m", "mergeif": ANY, "build": "windows"}]},
     {"checked": ["x.go"], "diags": [
        {"file": "x.go", "line": 5, "col": 1, "cat": "S2", "msg": "m", "mergeif": 7, "build": "darwin"}]}],
    # severities: same descriptor and build, different severity (not `equal`, same descriptor)
    [{"checked": ["x.go"], "diags": [
        {"file": "x.go", "line": 1, "col": 1, "cat": "SA1000", "msg": "m", "sev": 0, "mergeif": ANY, "build": "linux"}]},
     {"checked": ["x.go"], "diags": [
        {"file": "x.go", "line": 1, "col": 1, "cat": "SA1000", "msg": "m", "sev": 2, "mergeif": ANY, "build": "linux"}]},
     {"checked": ["x.go"], "diags": [
        {"file": "x.go", "line": 1, "col": 1, "cat": "SA1000", "msg": "m", "sev": 2, "mergeif": ANY, "build": "windows"}]}],
]

# Check names that differ only in letter case at one position: the hypothesis
# CaseConsistent of the theorems is violated (Lean: case_inconsistent_witness shows the
# property is then false for the code as it is).  No real run contains such names (probed
# on the registry), so the oracle does not apply; these inputs tie `diagnostic.equal`'s
# case folding to the model: real binary vs. model only.
CORPUS_CASE = [
    [{"checked": ["x.go"], "diags": [
        {"file": "x.go", "line": 1, "col": 1, "cat": "SA1000", "msg": "m", "mergeif": ANY, "build": "linux"},
        {"file": "x.go", "line": 1, "col": 1, "cat": "sa1000", "msg": "m", "mergeif": ANY, "build": "linux"}]}],
    [{"checked": ["x.go"], "diags": [
        {"file": "x.go", "line": 1, "col": 1, "cat": "SA1000", "msg": "m", "mergeif": ANY, "build": "linux"}]},
     {"checked": ["x.go"], "diags": [
        {"file": "x.go", "line": 1, "col": 1, "cat": "sa1000", "msg": "m", "mergeif": ANY, "build": "linux"}]}],
    [{"checked": ["x.go"], "diags": [
        {"file": "x.go", "line": 1, "col": 1, "cat": "SA1000", "msg": "m", "mergeif": ANY, "build": "linux"}]},
     {"checked": ["x.go"], "diags": [
        {"file": "x.go", "line": 1, "col": 1, "cat": "sa1000", "msg": "m", "mergeif": ANY, "build": "windows"},
        {"file": "x.go", "line": 1, "col": 1, "cat": "Sa1000", "msg": "m", "mergeif": ALL, "build": "windows"}]}],
    [{"checked": ["x.go"], "diags": [
        {"file": "x.go", "line": 2, "col": 1, "cat": "u1000", "msg": "m", "mergeif": ALL, "build": "a"},
        {"file": "x.go", "line": 2, "col": 1, "cat": "U1000", "msg": "m", "mergeif": ALL, "build": "a"},
        {"file": "x.go", "line": 2, "col": 1, "cat": "U1000", "msg": "m", "sev": 1, "mergeif": ALL, "build": "b"}]},
     {"checked": ["x.go"], "diags": [
        {"file": "x.go", "line": 2, "col": 1, "cat": "U1000", "msg": "m", "mergeif": ALL, "build": "b"}]}],
]


def norm_diag(d):
    out = {"file": "", "off": 0, "line": 0, "col": 0, "efile": "", "eoff": 0, "eline": 0, "ecol": 0,
           "cat": "", "msg": "", "sev": 0, "mergeif": 0, "build": ""}
    out.update({k: v for k, v in d.items() if k in out})
    return out


def norm_runs(runs):
    return [{"checked": list(r["checked"]), "diags": [norm_diag(d) for d in r["diags"]]} for r in runs]


# ----------------------------------------------------------------------------- oracle
def desc_of(d):
    return tuple(d[k] for k in DESC_KEYS)


def expected(runs):
    """The property, computed directly: desc -> sorted build names, for kept problems."""
    maps = []
    for r in runs:
        m = {}
        for d in r["diags"]:
            m[desc_of(d)] = d                           # one problem per descriptor and run
        maps.append((set(r["checked"]), m))
    out = {}
    for (_, m) in maps:
        for k, d in m.items():
            if d["mergeif"] == ANY:
                keep = True
            elif d["mergeif"] == ALL:
                keep = all(k in m2 for (c2, m2) in maps if d["file"] in c2)
            else:
                keep = False
            if keep:
                out.setdefault(k, set()).add(d["build"])
    return {k: sorted(v) for k, v in out.items()}


def text_proj(desc, names):
    """what the text format shows of a problem; build names as a set (canonical: sorted tuple)"""
    f, off, line, col, ef, eoff, el, ec, cat, msg = desc
    return (f, line, col, msg, tuple(sorted(set(names))), cat)


def json_proj(desc):
    f, off, line, col, ef, eoff, el, ec, cat, msg = desc
    return (cat, f, line, col, ef, el, ec, msg)


TEXT_RE = re.compile(r"^(?P<file>[^:]+):(?P<line>\d+):(?P<col>\d+): (?P<msg>.*?)(?: \[(?P<b>[^\]]*)\])? \((?P<cat>[^()]*)\)$")


def parse_text(s):
    out = []
    for line in s.splitlines():
        m = TEXT_RE.match(line)
        if not m:
            raise vlib.HarnessError("cannot parse text output line %r" % line)
        # "[a,b]" = strings.Join of the names; no bracket = the single empty name
        out.append((m.group("file"), int(m.group("line")), int(m.group("col")), m.group("msg"),
                    tuple(sorted((m.group("b") or "").split(","))), m.group("cat")))
    return out


def parse_json(s):
    out = []
    for line in s.splitlines():
        j = json.loads(line)
        out.append((j["code"], j["location"]["file"], j["location"]["line"], j["location"]["column"],
                    j["end"]["file"], j["end"]["line"], j["end"]["column"], j["message"]))
    return out


def ms(xs):
    return sorted(collections.Counter(xs).items())


def show_ms(m):
    return ["%dx %s" % (n, list(t)) for t, n in m]


# ----------------------------------------------------------------------------- model protocol
def enc_diag(d):
    return " ".join([vlib.hexs(d["file"]), str(d["off"]), str(d["line"]), str(d["col"]),
                     vlib.hexs(d["efile"]), str(d["eoff"]), str(d["eline"]), str(d["ecol"]),
                     vlib.hexs(d["cat"]), vlib.hexs(d["msg"]), str(d["sev"]), str(d["mergeif"]),
                     vlib.hexs(d["build"])])


def enc_runs(runs):
    toks = ["merge", str(len(runs))]
    for r in runs:
        toks.append(str(len(r["checked"])))
        toks += [vlib.hexs(c) for c in r["checked"]]
        toks.append(str(len(r["diags"])))
        toks += [enc_diag(d) for d in r["diags"]]
    return " ".join(toks)


def enc_reg(reg):
    """reg: list of (analyzer name, Doc.MergeIf)"""
    return " ".join([str(len(reg))] + ["%s %d" % (vlib.hexs(n), m) for n, m in reg])


def enc_raw_diag(d):
    return " ".join([vlib.hexs(d["file"]), str(d["off"]), str(d["line"]), str(d["col"]),
                     vlib.hexs(d["efile"]), str(d["eoff"]), str(d["eline"]), str(d["ecol"]),
                     vlib.hexs(d["cat"]), vlib.hexs(d["msg"]), str(d["sev"]), "1" if d["src"] else "0"])


def enc_raw_res(checked, diags):
    return " ".join([str(len(checked))] + [vlib.hexs(c) for c in checked] + [str(len(diags))] + [enc_raw_diag(d) for d in diags])


def enc_prun(binary, cwd, name, checked, diags):
    return " ".join(["1" if binary else "0", vlib.hexs(cwd), vlib.hexs(name), enc_raw_res(checked, diags)])


def enc_strs(xs):
    return " ".join([str(len(xs))] + [vlib.hexs(x) for x in xs])


def unhex(s):
    return "" if s == "-" else bytes.fromhex(s).decode()


def dec_model(line):
    """`n entry*`, entry = 10 descriptor tokens, k, k names -> [(desc, [names])]"""
    t = line.split()
    if not t or t[0] in ("bad-op", "outside", "err"):
        raise vlib.HarnessError("model rejected a case: %r" % line[:200])
    n = int(t[0])
    i = 1
    out = []
    for _ in range(n):
        f, off, ln, col, ef, eoff, el, ec, cat, msg = t[i:i + 10]
        desc = (unhex(f), int(off), int(ln), int(col), unhex(ef), int(eoff), int(el), int(ec), unhex(cat), unhex(msg))
        k = int(t[i + 10])
        names = [unhex(x) for x in t[i + 11:i + 11 + k]]
        i += 11 + k
        out.append((desc, names))
    if i != len(t):
        raise vlib.HarnessError("trailing tokens in model output")
    return out


def dec_binout(line):
    """`<ncf> cf* <nd> diag*` (diag = 13 tokens) -> (checked, [diag dict])"""
    t = line.split()
    if not t or t[0] in ("bad-op", "outside"):
        raise vlib.HarnessError("model rejected a binout case: %r" % line[:200])
    n = int(t[0])
    checked = [unhex(x) for x in t[1:1 + n]]
    i = 1 + n
    nd = int(t[i])
    i += 1
    diags = []
    for _ in range(nd):
        f, off, ln, col, ef, eoff, el, ec, cat, msg, sev, mi, b = t[i:i + 13]
        diags.append({"file": unhex(f), "off": int(off), "line": int(ln), "col": int(col), "efile": unhex(ef),
                      "eoff": int(eoff), "eline": int(el), "ecol": int(ec), "cat": unhex(cat), "msg": unhex(msg),
                      "sev": int(sev), "mergeif": int(mi), "build": unhex(b)})
        i += 13
    if i != len(t):
        raise vlib.HarnessError("trailing tokens in model binout output")
    return checked, diags


MODEL_LOCK = threading.Lock()


def run_model(ctx, lines):
    with MODEL_LOCK:
        return vlib.run_model(ctx, "C12", lines)


# ----------------------------------------------------------------------------- crafted runs
def variants(rng, runs, thorough):
    """(name, files, stdin): files = list of lists of runs; every variant is a permutation
    and/or repetition of the same multiset of runs, so all must print the same problems."""
    vs = [("base", [[r] for r in runs], False)]
    perm = rng.shuffle(runs)
    vs.append(("perm", [[r] for r in perm], False))
    if runs:
        dup = list(runs)
        k = rng.below(len(runs))
        dup.insert(rng.below(len(dup) + 1), runs[k])
        if rng.chance(1, 3):
            dup.insert(rng.below(len(dup) + 1), runs[rng.below(len(runs))])
        vs.append(("dup", [[r] for r in dup], False))
    else:
        vs.append(("dup", [], False))
    if thorough or rng.chance(1, 4):
        p2 = rng.shuffle(runs)
        if rng.chance(1, 2):
            vs.append(("onefile", [p2] if p2 else [], False))
        else:
            vs.append(("stdin", [p2], True))
    return vs


def flat(files):
    return [r for f in files for r in f]


GOB_SEQ = [0]


def run_gob(ctx, gob, sc, jobs, par=None):
    if len(jobs) > 400:         # bounded batches, so that the per-call timeout means something on a loaded machine
        out = []
        for i in range(0, len(jobs), 400):
            out += run_gob(ctx, gob, sc, jobs[i:i + 400], par)
        return out
    inp = "".join(json.dumps(j) + "\n" for j in jobs)
    env = vlib.go_env({"GOMAXPROCS": "2"})
    with MODEL_LOCK:
        GOB_SEQ[0] += 1
        d = ctx.path("gobjobs%d" % GOB_SEQ[0], "x")
    p = subprocess.run([gob, "run", "-bin", sc, "-dir", os.path.dirname(d), "-j", str(par or max(4, vlib.NCPU // 2))],
                       input=inp, stdout=subprocess.PIPE, stderr=subprocess.PIPE, text=True, env=env, timeout=3000)
    if p.returncode != 0:
        raise vlib.HarnessError("c12gob run failed: " + p.stderr[-2000:])
    res = [json.loads(l) for l in p.stdout.splitlines()]
    if len(res) != len(jobs):
        raise vlib.HarnessError("c12gob: %d results for %d jobs" % (len(res), len(jobs)))
    for r in res:
        if r.get("err"):
            raise vlib.HarnessError("c12gob job %s: %s" % (r["id"], r["err"]))
        for f, o in r["out"].items():
            if o["rc"] not in (0, 1) or o["stderr"].strip():
                raise vlib.HarnessError("staticcheck -merge -f %s failed: rc=%s %s" % (f, o["rc"], o["stderr"][-500:]))
    return res


def classify(runs):
    """Which non-trivial situations a case contains (for evidence; measured on the input)."""
    exp = expected(runs)
    tags = set()
    maps = [({desc_of(d): d for d in r["diags"]}, set(r["checked"])) for r in runs]
    alld = {}
    strategies = collections.defaultdict(set)
    sevs = collections.defaultdict(set)
    for m, _ in maps:
        for k, d in m.items():
            alld.setdefault(k, d)
            strategies[k].add(d["mergeif"])
            sevs[(k, d["build"])].add(d["sev"])
    for k, d in alld.items():
        if d["mergeif"] == ALL and k not in exp:
            tags.add("all_dropped")
        if d["mergeif"] == ALL and k in exp and any(k not in m for m, c in maps):
            tags.add("all_kept_despite_silent_unchecked_run")
        if k in exp and len(exp[k]) > 1:
            tags.add("builds_merged")
        if len(strategies[k]) > 1:
            tags.add("mixed_strategies")
    if any(len(v) > 1 for v in sevs.values()):
        tags.add("same_descriptor_and_build_different_severity")
    by_pm = collections.defaultdict(set)
    for k in exp:
        by_pm[(k[0], k[2], k[3], k[9])].add(k)
    for pm, ks in by_pm.items():
        if len(ks) > 1 and any(len(exp[k]) > 1 for k in ks):
            tags.add("colliding_descriptors_multi_build")
    for r in runs:
        ds = [desc_of(d) for d in r["diags"]]
        if len(ds) != len(set(ds)):
            tags.add("descriptor_twice_in_run")
    return tags


CRAFT_ARGS = ["-show-ignored"]


def check_crafted(ctx, gob, sc, cases, rng, label, oracle=True):
    """cases: list of run lists, or of (runs, label, oracle) triples (one batch of real invocations).
    Returns (oracle_failures, model_diffs, stats)."""
    spec = [c if isinstance(c, tuple) else (c, label, oracle) for c in cases]
    cases = [c[0] for c in spec]
    jobs, meta = [], []
    for ci, runs in enumerate(cases):
        for (vname, files, stdin) in variants(rng.fork("%s/v%d" % (spec[ci][1], ci)), runs, not ctx.quick):
            fmts = ["text", "json"] if vname in ("base", "stdin", "onefile") else ["text"]
            jobs.append({"id": len(jobs), "files": files, "stdin": stdin, "formats": fmts, "args": CRAFT_ARGS})
            meta.append((ci, vname))
    res = run_gob(ctx, gob, sc, jobs)
    model = run_model(ctx, [enc_runs(flat(j["files"])) for j in jobs])
    fails, diffs = [], []
    stats = collections.Counter()
    base_text = {}
    for idx, (j, r, (ci, vname)) in enumerate(zip(jobs, res, meta)):
        runs, label, oracle = spec[ci]
        got_text = ms(parse_text(r["out"]["text"]["stdout"]))
        got_json = ms(parse_json(r["out"]["json"]["stdout"])) if "json" in r["out"] else None
        stats["invocations"] += len(r["out"])
        why = []
        if oracle:
            exp = expected(runs)                 # of the *generated* runs: variants must agree with it
            exp_text = ms(text_proj(k, v) for k, v in exp.items())
            exp_json = ms(json_proj(k) for k in exp)
            if got_text != exp_text:
                why.append("text output is not {kept problems, each once, with exactly its build names}")
            if got_json is not None and got_json != exp_json:
                why.append("json output is not {kept problems, each once}")
            if vname == "base":
                base_text[ci] = got_text
            elif ci in base_text and got_text != base_text[ci]:
                why.append("output differs from the output for the same runs in generated order (variant %s)" % vname)
            if why:
                fails.append({"case": ci, "label": label, "variant": vname, "why": why, "job": j,
                              "expected_text": show_ms(exp_text), "got_text": show_ms(got_text),
                              "expected_json": show_ms(exp_json), "got_json": show_ms(got_json) if got_json is not None else None,
                              "raw_text": r["out"]["text"]["stdout"]})
        mo = dec_model(model[idx])
        mo_text = ms(text_proj(k, v) for k, v in mo)
        mo_json = ms(json_proj(k) for k, v in mo)
        if mo_text != got_text or (got_json is not None and mo_json != got_json):
            diffs.append({"case": ci, "label": label, "variant": vname, "job": j,
                          "model_text": show_ms(mo_text), "impl_text": show_ms(got_text),
                          "model_json": show_ms(mo_json), "impl_json": show_ms(got_json) if got_json is not None else None})
    return fails, diffs, stats


def shrink(ctx, gob, sc, fail):
    """Greedy structural shrink of a failing job (delete runs, then diagnostics, then checked
    files), re-validated against the oracle on the real binary after every step."""
    files = fail["job"]["files"]
    runs = flat(files)
    stdin = False

    def bad(rs):
        j = {"id": 0, "files": [[r] for r in rs], "stdin": stdin, "formats": ["text", "json"], "args": CRAFT_ARGS}
        r = run_gob(ctx, gob, sc, [j])[0]
        exp = expected(rs)
        return ms(parse_text(r["out"]["text"]["stdout"])) != ms(text_proj(k, v) for k, v in exp.items()) or \
            ms(parse_json(r["out"]["json"]["stdout"])) != ms(json_proj(k) for k in exp)

    if not bad(runs):
        return None            # fails only as a variant relation; keep the original
    steps = 0
    changed = True
    while changed and steps < 400:
        changed = False
        for i in range(len(runs)):
            cand = runs[:i] + runs[i + 1:]
            steps += 1
            if bad(cand):
                runs, changed = cand, True
                break
        if changed:
            continue
        for i, r in enumerate(runs):
            for key in ("diags", "checked"):
                for k in range(len(r[key])):
                    r2 = dict(r)
                    r2[key] = r[key][:k] + r[key][k + 1:]
                    cand = runs[:i] + [r2] + runs[i + 1:]
                    steps += 1
                    if bad(cand):
                        runs, changed = cand, True
                        break
                if changed:
                    break
            if changed:
                break
    j = {"id": 0, "files": [[r] for r in runs], "stdin": False, "formats": ["text", "json"], "args": CRAFT_ARGS}
    r = run_gob(ctx, gob, sc, [j])[0]
    exp = expected(runs)
    return {"runs": runs, "expected_text": show_ms(ms(text_proj(k, v) for k, v in exp.items())),
            "got_text_raw": r["out"]["text"]["stdout"], "got_json_raw": r["out"]["json"]["stdout"]}


# ----------------------------------------------------------------------------- registry, comparator (G)
FIELD_OF_PATH = {
    "Position.Filename": "posFile", "Position.Line": "posLine", "Position.Column": "posCol", "Position.Offset": "posOff",
    "End.Filename": "endFile", "End.Line": "endLine", "End.Column": "endCol", "End.Offset": "endOff",
    "Category": "cat", "Message": "msg", "BuildName": "build", "Severity": "sev", "MergeIf": "mergeIf",
}
GENERATED_LEAN = os.path.join(vlib.LEAN_DIR, "Verif", "C12", "Generated.lean")


def generated_lean(fields):
    return ("import Verif.C12.Pipeline\n/-\nGENERATED by checks/c12.py on every run from lintcmd/cmd.go of the tree under test\n"
            "(`c12gob lessfields`, tie G): the order in which the `less` closure that\nprintDiagnostics passes to sort.Slice "
            "compares the fields of two diagnostics.\nDo not edit.\n-/\nnamespace Verif.C12.Generated\n\n"
            "def lessFields : List Field :=\n  [" + ", ".join("." + f for f in fields) + "]\n\nend Verif.C12.Generated\n")


def extract_comparator(ctx, gob):
    """tie G. Returns a description for the evidence; rewrites Generated.lean iff the order changed."""
    rc, so, se = vlib.run([gob, "lessfields", os.path.join(vlib.REPO, "lintcmd", "cmd.go")], env=vlib.go_env(), timeout=120)
    if rc != 0:
        raise vlib.HarnessError("c12gob lessfields failed: " + se[-800:])
    j = json.loads(so)
    if not j.get("ok"):
        ctx.notes.append("tie G skipped: the less closure of printDiagnostics has a shape the extractor does not read (%s); "
                         "Generated.lean left as it is, the comparator is tied by X only" % j.get("why"))
        return {"extracted": False, "why": j.get("why")}
    unknown = [p for p in j["fields"] if p not in FIELD_OF_PATH]
    if unknown:
        ctx.notes.append("tie G skipped: the comparator compares fields the model does not have: %s" % unknown)
        return {"extracted": False, "why": "unknown fields %s" % unknown, "paths": j["fields"]}
    fields = [FIELD_OF_PATH[p] for p in j["fields"]]
    if vlib.write_if_changed(GENERATED_LEAN, generated_lean(fields)):
        ctx.notes.append("Generated.lean rewritten: comparator field order is now %s" % fields)
    return {"extracted": True, "paths": j["fields"], "fields": fields}


def load_registry(ctx, gob):
    rc, so, se = vlib.run([gob, "registry"], env=vlib.go_env(), timeout=120)
    if rc != 0:
        raise vlib.HarnessError("c12gob registry failed: " + se[-800:])
    j = json.loads(so)
    if (j["merge_if_any"], j["merge_if_all"]) != (ANY, ALL):
        raise vlib.HarnessError("lint.MergeIfAny/MergeIfAll are no longer 0/1: the model's encoding must be updated")
    return [(e["name"], e["mergeif"]) for e in j["analyzers"] if e["default"]]


def doc_strategy(reg_map, cat):
    """the strategy a diagnostic of check `cat` must carry: its documentation's; U1000 problems are
    created by linter.lint with MergeIfAll; categories without analyzer keep the zero value"""
    if cat == "U1000":
        return ALL
    return reg_map.get(cat.lower(), ANY)


# ----------------------------------------------------------------------------- real runs on generated modules
CONSTRAINTS = [None, "a", "!a", "b", "!b", "a && b", "a || b", "c", "!c"]
CONFIG_POOL = [("ca", ["a"]), ("cb", ["b"]), ("cab", ["a", "b"]), ("none", []), ("cc", ["c"]), ("cac", ["a", "c"]),
               ("C_bc", ["b", "c"]), ("_9", ["a", "b", "c"])]


def holds(constraint, tags):
    if not constraint:
        return True
    e = re.sub(r"[abc]", lambda m: " True " if m.group(0) in tags else " False ", constraint)
    e = e.replace("&&", " and ").replace("||", " or ").replace("!", " not ")
    return bool(eval(e, {"__builtins__": {}}))


def gen_module(rng, mi, thorough):
    """A one-package module without imports -> (files: name -> (constraint, text), configs).  Problems:
       any  SA4000 `x == x` (syntactic; not for floats) — in shared and in tagged files,
            and on a type that is float64 under tag a and int otherwise (varies by build);
       all  SA4003 `x < 0` on a type that is uint under tag b and int otherwise;
       all  S1002 `x == KC` where KC is a constant under tag c and a variable otherwise;
       all  U1000 functions in shared files that only some tagged file uses.
    The first item of shared0.go is always an 'all' check other than U1000 (SA4003 or S1002) that
    depends on a tag, and the configurations always contain one with and one without that tag: the
    problem is reported under a strict subset of the configurations that check the file.  The second
    item is an 'any' problem (SA4000, with End position, not on line 1) that every configuration reports."""
    nsh = 1 + rng.below(2)
    files = {}
    users = []          # (constraint, function name)
    forced = 2 if rng.chance(1, 2) else 5
    need = "b" if forced == 2 else "c"
    for s in range(nsh):
        lines = ["package p", ""]
        for k in range((2 if s == 0 else 1) + rng.below(3)):
            n = "s%d_%d" % (s, k)
            # shared0.go: first the tag-dependent 'all' check, then an 'any' problem with an End position that every
            # configuration reports (so runs made in the LF and in the CRLF checkout always have a problem in common)
            kind = forced if (s, k) == (0, 0) else 0 if (s, k) == (0, 1) else rng.below(6)
            if kind == 0:
                lines += ["func any_%s(x int) bool { return x == x }" % n, "var _ = any_%s" % n, ""]
            elif kind == 1:
                lines += ["func nan_%s(x FA) bool { return x == x }" % n, "var _ = nan_%s" % n, ""]
            elif kind == 2:
                if rng.chance(1, 2):
                    lines += ["func cmp_%s(x TB) bool { return x < 0 }" % n, "var _ = cmp_%s" % n, ""]
                else:       # the End of the problem is on a later line than its start
                    lines += ["func cmp_%s(x TB) bool {" % n, "\treturn x <", "\t\t0", "}", "var _ = cmp_%s" % n, ""]
            elif kind == 3:
                lines += ["func unused_%s() {}" % n, ""]
                if rng.chance(2, 3):
                    users.append((rng.choice(CONSTRAINTS[1:]), "unused_%s" % n))
            elif kind == 4:
                lines += ["func both_%s(x TB, y FA) bool { return x < 0 || y == y }" % n, "var _ = both_%s" % n, ""]
            else:
                lines += ["func kc_%s(x bool) int {" % n, "\tif x == KC {", "\t\treturn 1", "\t}", "\treturn 0", "}", "var _ = kc_%s" % n, ""]
        files["shared%d.go" % s] = (None, lines)
    files["ta.go"] = ("a", ["package p", "", "type FA = float64", ""])
    files["tna.go"] = ("!a", ["package p", "", "type FA = int", ""])
    files["tb.go"] = ("b", ["package p", "", "type TB = uint", ""])
    files["tnb.go"] = ("!b", ["package p", "", "type TB = int", ""])
    files["tc.go"] = ("c", ["package p", "", "const KC = true", ""])
    files["tnc.go"] = ("!c", ["package p", "", "var KC = true", ""])
    for t in range(1 + rng.below(3)):
        c = rng.choice(CONSTRAINTS[1:])
        lines = ["package p", ""]
        n = "t%d" % t
        if rng.chance(2, 3):
            lines += ["func tany_%s(x int) bool { return x != x }" % n, "var _ = tany_%s" % n, ""]
        if rng.chance(1, 2):
            lines += ["func tcmp_%s(x TB) bool { return x < 0 }" % n, "var _ = tcmp_%s" % n, ""]
        if rng.chance(1, 2):
            lines += ["func tunused_%s() {}" % n, ""]
        files["tag%d.go" % t] = (c, lines)
    for i, (c, fn) in enumerate(users):
        files["use%d.go" % i] = (c, ["package p", "", "var _ = %s" % fn, ""])
    texts = {"go.mod": (None, "module example.com/mx%d\n\ngo 1.21\n" % mi)}
    for name, (c, lines) in files.items():
        texts[name] = (c, ("//go:build %s\n\n" % c if c else "") + "\n".join(lines))
    ncfg = 2 + rng.below(3 if thorough else 2)
    pool = rng.shuffle(CONFIG_POOL)
    cfgs = [next(c for c in pool if need in c[1]), next(c for c in pool if need not in c[1])]
    cfgs += [c for c in pool if c not in cfgs][:ncfg - 2]
    return texts, rng.shuffle(cfgs)


def materialise(texts, d, crlf):
    os.makedirs(os.path.join(d, "sub"), exist_ok=True)
    for name, (_, text) in texts.items():
        with open(os.path.join(d, name), "wb") as f:
            b = text.encode()
            if crlf and name != "go.mod":
                b = b.replace(b"\n", b"\r\n")
            f.write(b)


def cfg_variants(rng, name, tags):
    """Spellings of one configuration: (line text, envs, flags as parseBuildConfig must return them)."""
    c, s = ",".join(tags), " ".join(tags)
    if not tags:
        return rng.choice([("%s:" % name, [], []), ("%s: " % name, [], []), ("%s: -tags=" % name, [], ["-tags="]),
                           ("  %s:\t" % name, [], []), ("%s: X_UNUSED=1" % name, ["X_UNUSED=1"], [])])
    return rng.choice([
        ("%s: -tags=%s" % (name, c), [], ["-tags=" + c]),
        ("%s: -tags %s" % (name, c), [], ["-tags", c]),
        ("%s: \"-tags=%s\"" % (name, s), [], ["-tags=" + s]),
        ("%s: -tags \"%s\"" % (name, s), [], ["-tags", s]),
        ("%s: GOFLAGS=-tags=%s" % (name, c), ["GOFLAGS=-tags=" + c], []),
        (" %s:   -tags=%s  " % (name, c), [], ["-tags=" + c]),
        ("%s: \t-tags=%s" % (name, c), [], ["-tags=" + c]),
        ("%s: X_UNUSED=1 -tags=%s" % (name, c), ["X_UNUSED=1"], ["-tags=" + c]),
        ("%s: -ta\"gs=\"%s" % (name, c), [], ["-tags=" + c]),
    ])


def cfg_line(c):
    name, tags = c
    return "%s: -tags=%s" % (name, ",".join(tags)) if tags else "%s:" % name


def sc_run(sc, args, cwd, stdin, cache):
    env = vlib.go_env({"STATICCHECK_CACHE": cache, "GOMAXPROCS": "4"})
    p = subprocess.run([sc] + args, cwd=cwd, input=stdin, stdout=subprocess.PIPE, stderr=subprocess.PIPE, env=env, timeout=900)
    return p.returncode, p.stdout, p.stderr.decode(errors="replace")


class Offsets:
    """byte offset of (line, column) in a file, as go/token computes it"""
    def __init__(self):
        self.starts = {}

    def of(self, path, line, col):
        if not path or line < 1:
            return 0
        if path not in self.starts:
            b = open(path, "rb").read()
            st = [0]
            for i, ch in enumerate(b):
                if ch == 10:
                    st.append(i + 1)
            self.starts[path] = st
        return self.starts[path][line - 1] + col - 1


def short_path(cwd, p):
    """lintcmd.shortPath: relative to the working directory if that is shorter"""
    if not p:
        return p
    rel = os.path.relpath(p, cwd)
    return rel if len(rel) < len(p) else p


def matrix_module(ctx, gob, sc, cache, base, texts, cfgs, r, reg, with_sub):
    """All observations for one generated module with configurations `cfgs` (name, tags)."""
    from concurrent.futures import ThreadPoolExecutor
    fails, diffs = [], []
    stats = collections.Counter()
    reg_map = {n.lower(): m for n, m in reg}
    lf = os.path.join(base, "lf")
    crlf = os.path.join(base, "crlf", "deeper", "checkout")
    materialise(texts, lf, False)
    materialise(texts, crlf, True)
    gofiles = sorted(n for n in texts if n.endswith(".go"))
    offs = Offsets()
    snapshot = {n: t for n, (_, t) in texts.items()}

    probes = []

    def fail(what, **kw):
        d = {"module_files": snapshot, "configs": [list(c) for c in cfgs], "what": what}
        d.update(kw)
        (probes if what.startswith("world hypothesis probe") else fails).append(d)

    # (a) one PLAIN run per configuration: no -matrix, no -f binary, json output
    def plain(c):
        args = ["-show-ignored", "-f", "json"] + (["-tags", ",".join(c[1])] if c[1] else []) + ["./..."]
        rc, so, se = sc_run(sc, args, lf, None, cache)
        if rc not in (0, 1) or se.strip():
            raise vlib.HarnessError("plain staticcheck run failed in %s for %s: rc=%d %s" % (lf, c, rc, se[-800:]))
        out = []
        for line in so.decode().splitlines():
            j = json.loads(line)
            if j["code"] in ("compile", "config"):
                raise vlib.HarnessError("generated module %s does not compile under %s: %s" % (lf, c, j["message"]))
            if j.get("severity") == "ignored":
                raise vlib.HarnessError("generated module has an ignored problem")
            out.append({"file": j["location"]["file"], "line": j["location"]["line"], "col": j["location"]["column"],
                        "efile": j["end"]["file"], "eline": j["end"]["line"], "ecol": j["end"]["column"],
                        "cat": j["code"], "msg": j["message"], "sev": 0, "src": j["code"] == "U1000"})
        return c[0], out

    pool = ThreadPoolExecutor(max_workers=4)
    f_plain = [pool.submit(plain, c) for c in cfgs]

    # (b) one real -f binary run per configuration, alternately from the LF and the CRLF checkout
    where = {}
    for i, c in enumerate(cfgs):
        where[c[0]] = crlf if i % 2 == 1 else lf
    if r.chance(1, 2):
        where = {k: (crlf if v == lf else lf) for k, v in where.items()}
    invs = [(c, where[c[0]], where[c[0]], "./...") for c in cfgs]
    if with_sub:
        # the same two configurations from the sub directory of both checkouts (paths with "..")
        invs += [(cfgs[0], lf, os.path.join(lf, "sub"), "../..."), (cfgs[1], crlf, os.path.join(crlf, "sub"), "../...")]

    def binrun(iv):
        c, d, cwd, pat = iv
        rc, so, se = sc_run(sc, ["-matrix", "-f", "binary", pat], cwd, (cfg_line(c) + "\n").encode(), cache)
        if rc != 0 or se.strip():
            return "`echo '%s' | staticcheck -matrix -f binary %s` in %s: rc=%d stderr: %s" % (cfg_line(c), pat, os.path.relpath(cwd, base), rc, se[-800:])
        p = os.path.join(base, "run_%s_%s.bin" % (c[0], "sub" if pat != "./..." else "root"))
        with open(p, "wb") as f:
            f.write(so)
        return p

    f_bin = [pool.submit(binrun, iv) for iv in invs]
    try:
        raws = dict(f.result() for f in f_plain)
        bins = [f.result() for f in f_bin]
    finally:
        pool.shutdown()
    stats["invocations"] += len(cfgs) + len(invs)
    # probe of CaseConsistent on real runs: the categories reported, together with the registered names,
    # must be spelled in one letter case (a category that is not a registered name is fine as such)
    spelled = {}
    for n, _ in reg:
        spelled.setdefault(n.lower(), set()).add(n)
    for name, ds in raws.items():
        for d in ds:
            spelled.setdefault(d["cat"].lower(), set()).add(d["cat"])
            if d["cat"].lower() not in reg_map:
                stats["category_without_analyzer:" + d["cat"]] += 1
    for k, v in spelled.items():
        if len(v) > 1:
            fail("world hypothesis probe: check names that differ only in letter case occur in real runs / the registry: %s" % sorted(v))

    def checked_of(c, d):
        return [os.path.join(d, n) for n in gofiles if holds(texts[n][0], c[1])]

    def raw_at(c, d, cwd_rel=""):
        """the findings of configuration c as the runner reports them in checkout d (absolute paths, real offsets)"""
        out = []
        for x in raws[c[0]]:
            y = dict(x)
            for fk, lk, ck, ok in (("file", "line", "col", "off"), ("efile", "eline", "ecol", "eoff")):
                if y[fk]:
                    y[fk] = os.path.join(d, os.path.relpath(y[fk], lf))
                y[ok] = offs.of(y[fk], y[lk], y[ck])
            out.append(y)
        return out

    def doc_run(c, d, cwd):
        """the run of configuration c after -f binary from working directory cwd, as the property demands it"""
        def rel(p):
            return os.path.relpath(p, cwd).replace(os.sep, "/") if p else p
        ds = []
        for x in raw_at(c, d):
            ds.append({"file": rel(x["file"]), "off": 0, "line": x["line"], "col": x["col"], "efile": rel(x["efile"]),
                       "eoff": 0, "eline": x["eline"], "ecol": x["ecol"], "cat": x["cat"], "msg": x["msg"], "sev": 0,
                       "mergeif": doc_strategy(reg_map, x["cat"]), "build": c[0]})
        return {"checked": [rel(p) for p in checked_of(c, d)], "diags": ds}

    broken = [b for b in bins if not b.endswith(".bin")]
    if broken:
        # the plain run of the same configuration worked: a configuration given as a one-line matrix does not run
        fail("a one-line build matrix naming a configuration that lints fine with -tags does not produce a -f binary run", got=broken,
             expected=["one run per configuration"])
        return fails + probes, diffs, stats, {"configs": [cfg_line(c) for c in cfgs]}
    rc, so, se = vlib.run([gob, "dump"] + bins, env=vlib.go_env())
    if rc != 0:
        raise vlib.HarnessError("c12gob dump failed: " + se[-800:])
    decoded = []
    for line in so.splitlines():
        rs = json.loads(line)["runs"]
        if len(rs) != 1:
            raise vlib.HarnessError("expected one run per -f binary file, got %d" % len(rs))
        decoded.append(rs[0])
    # X4: the mirror types against the real gob stream
    rc, so, se = vlib.run([gob, "roundtrip"] + bins, env=vlib.go_env())
    if rc != 0:
        raise vlib.HarnessError("c12gob roundtrip failed: " + se[-800:])
    for line in so.splitlines():
        j = json.loads(line)
        if not j["equal"]:
            raise vlib.HarnessError("harness/cmd/c12gob's mirror of lintcmd.lintResult/diagnostic no longer matches the gob stream the "
                                    "real binary writes (update the mirror types): %s\nreal: %s\nmirror: %s" % (j.get("detail"), j.get("real_types"), j.get("mirror_types")))
    stats["roundtrips"] += len(bins)

    # model of what -f binary writes (lintRun + binOut) vs. the decoded real files
    lines = ["binout %s %s" % (enc_reg(reg), enc_prun(True, cwd, c[0], checked_of(c, d), raw_at(c, d))) for (c, d, cwd, pat) in invs]
    for (c, d, cwd, pat), line, real in zip(invs, run_model(ctx, lines), decoded):
        mchecked, mdiags = dec_binout(line)
        mm = ms(tuple(x[k] for k in DIAG_KEYS) for x in mdiags)
        rm = ms(tuple(x[k] for k in DIAG_KEYS) for x in real["diags"])
        aux = [a for x in real["diags"] for a in (x.get("aux") or []) if a["off"] != 0 or os.path.isabs(a["file"])]
        if sorted(mchecked) != sorted(real["checked"]) or mm != rm or aux:
            diffs.append({"what": "-f binary output of one configuration differs from the model (lintRun: MergeIf of the check's documentation, "
                                  "BuildName; binOut: paths relative to the working directory, offsets cleared)",
                          "module_files": snapshot, "config": list(c), "checkout": "crlf" if d == crlf else "lf", "cwd": os.path.relpath(cwd, base),
                          "model_checked": sorted(mchecked), "real_checked": sorted(real["checked"]),
                          "only_model": show_ms([(t, n) for t, n in mm if (t, n) not in rm]),
                          "only_real": show_ms([(t, n) for t, n in rm if (t, n) not in mm]), "related_not_normalised": aux})
        for x in real["diags"]:
            if x["cat"] == "U1000" and x["mergeif"] != ALL:
                fail("world hypothesis probe: a U1000 problem without MergeIfAll in a real run", config=list(c))
        stats["binout_compared"] += 1

    # the property's expectation, from the plain runs + the documentation's strategies
    root_invs = invs[:len(cfgs)]
    runs_doc = [doc_run(c, d, cwd) for (c, d, cwd, pat) in root_invs]
    exp = expected(runs_doc)
    exp_text = ms(text_proj(k, v) for k, v in exp.items())
    exp_json = ms(json_proj(k) for k in exp)
    tags = classify(runs_doc)
    alld = {}
    for rr in runs_doc:
        for dg in rr["diags"]:
            alld.setdefault(desc_of(dg), dg)
    for k, dg in alld.items():
        if dg["mergeif"] == ALL and dg["cat"] != "U1000" and k not in exp and dg["file"].startswith("shared"):
            tags.add("documented_all_check_not_U1000_dropped_in_shared_file")
    for t in tags:
        stats["tag:" + t] += 1
    if "documented_all_check_not_U1000_dropped_in_shared_file" not in tags:
        raise vlib.HarnessError("generator invariant broken: no 'all' check other than U1000 fires under a strict subset of the configurations (%s)" % base)
    stats["modules"] += 1
    stats["configs"] += len(cfgs)
    stats["problems_kept"] += len(exp)

    # stdin texts for -matrix: canonical, and one in varied syntax / order / repetition / blank lines / CRLF
    canon = "\n".join(cfg_line(c) for c in cfgs) + "\n"
    table = {}
    vlines = []
    order = r.shuffle(cfgs) + [r.choice(cfgs)]
    for c in order:
        text, envs, flags = cfg_variants(r, c[0], c[1])
        table[(tuple(envs), tuple(flags))] = c
        vlines.append(text)
        if r.chance(1, 3):
            vlines.append(r.choice(["", "  ", "\t"]))
    varied = "".join(l + r.choice(["\n", "\r\n", "\n\n"]) for l in vlines[:-1]) + vlines[-1] + r.choice(["", "\n", "\r\n"])
    for c in cfgs:
        table.setdefault(((), tuple(["-tags=" + ",".join(c[1])] if c[1] else [])), c)

    def enc_table():
        toks = [str(len(table))]
        for (envs, flags), c in table.items():
            toks += [enc_strs(list(envs)), enc_strs(list(flags)), enc_raw_res(checked_of(c, lf), raw_at(c, lf))]
        return " ".join(toks)

    bin_of = dict(zip([iv[0][0] for iv in root_invs], bins))
    obsv = [
        ("-merge of per-configuration -f binary runs (LF and CRLF checkouts in different directories)", "text",
         ["-merge"] + [bin_of[c[0]] for c in cfgs], None, base),
        ("-merge -f json of the same files, permuted", "json",
         ["-merge", "-f", "json"] + [bin_of[c[0]] for c in r.shuffle(cfgs)], None, base),
        ("-matrix", "text", ["-matrix", "./..."], canon.encode(), lf),
        ("-matrix, configurations in varied syntax, permuted, one repeated, blank lines, CRLF, final newline or not", "text",
         ["-matrix", "./..."], varied.encode(), lf),
    ]
    mlines = [
        "pipe %s %d %s" % (enc_reg(reg), len(root_invs), " ".join(enc_prun(True, cwd, c[0], checked_of(c, d), raw_at(c, d)) for (c, d, cwd, pat) in root_invs)),
        None,
        "matrix %s %s %s" % (enc_reg(reg), vlib.hexs(canon), enc_table()),
        "matrix %s %s %s" % (enc_reg(reg), vlib.hexs(varied), enc_table()),
    ]
    if with_sub:
        sub_invs = invs[len(cfgs):]
        sub_doc = [doc_run(c, d, cwd) for (c, d, cwd, pat) in sub_invs]
        obsv.append(("-merge of two -f binary runs started in the sub directory of the LF and of the CRLF checkout", "text",
                     ["-merge"] + bins[len(cfgs):], None, base))
        mlines.append("pipe %s %d %s" % (enc_reg(reg), len(sub_invs), " ".join(enc_prun(True, cwd, c[0], checked_of(c, d), raw_at(c, d)) for (c, d, cwd, pat) in sub_invs)))
    else:
        sub_doc = None

    def observe(o):
        what, fmt, args, stdin, cwd = o
        rc, so, se = sc_run(sc, args, cwd, stdin, cache)
        if rc not in (0, 1) or se.strip():
            # e.g. a matrix text the real parser rejects: an observation, not a harness failure
            return [(("staticcheck failed", "rc=%d" % rc, se.strip()[-600:]), 1)]
        return ms(parse_text(so.decode())) if fmt == "text" else ms(parse_json(so.decode()))

    with ThreadPoolExecutor(max_workers=3) as ex:
        gots = list(ex.map(observe, obsv))
    mouts = run_model(ctx, [l for l in mlines if l])
    mouts = iter(mouts)
    for i, ((what, fmt, args, stdin, cwd), got) in enumerate(zip(obsv, gots)):
        stats["invocations"] += 1
        is_sub = with_sub and i == len(obsv) - 1
        if is_sub:
            e = expected(sub_doc)
            want = ms(text_proj(k, v) for k, v in e.items())
        else:
            want = exp_text if fmt == "text" else exp_json
        if got != want:
            fail(what, args=[a if not a.startswith(base) else os.path.relpath(a, base) for a in args],
                 stdin=stdin.decode() if stdin is not None else None, cwd=os.path.relpath(cwd, base),
                 binary_runs_made_in={k: os.path.relpath(v, base) for k, v in where.items()},
                 expected=show_ms(want), got=show_ms(got),
                 expected_from="one plain `staticcheck -f json -tags=…` run per configuration + Doc.MergeIf of the real registry + files compiled per configuration")
        if mlines[i]:
            mo = dec_model(next(mouts))
            if stdin is not None:       # in-process matrix: absolute paths, printed through shortPath
                mo = [((short_path(cwd, k[0]),) + k[1:4] + (short_path(cwd, k[4]),) + k[5:], v) for k, v in mo]
            mo_ms = ms(text_proj(k, v) for k, v in mo)
            if mo_ms != got:
                diffs.append({"what": "model (parseBuildConfigs + lintRun + binOut + mergeRuns) differs from the real output: " + what,
                              "module_files": snapshot, "configs": [list(c) for c in cfgs], "stdin": stdin.decode() if stdin is not None else None,
                              "model": show_ms(mo_ms), "real": show_ms(got)})
    fails += probes           # concrete output differences first
    sample = {"configs": [cfg_line(c) for c in cfgs], "matrix_stdin_varied": varied, "kept": show_ms(exp_text)[:6], "situations": sorted(tags),
              "binary_runs_made_in": {k: os.path.relpath(v, base) for k, v in where.items()}}
    return fails, diffs, stats, sample


def check_matrix(ctx, gob, sc, rng, nmods, reg):
    from concurrent.futures import ThreadPoolExecutor
    cache = os.path.dirname(ctx.path("sccache", "x"))

    def one(mi):
        r = rng.fork("mod%d" % mi)
        base = os.path.join(os.path.realpath(ctx.scratch), "mods", "m%d" % mi)
        texts, cfgs = gen_module(r, mi, not ctx.quick)
        return matrix_module(ctx, gob, sc, cache, base, texts, cfgs, r, reg, with_sub=(mi % 4 == 0))

    with ThreadPoolExecutor(max_workers=3) as ex:
        res = list(ex.map(one, range(nmods)))
    fails, diffs, samples = [], [], []
    stats = collections.Counter()
    for f, dd, st, sm in res:
        fails += f
        diffs += dd
        stats.update(st)
        if len(samples) < 2:
            samples.append(sm)
    return fails, diffs, stats, samples


# ----------------------------------------------------------------------------- the matrix line parser through the CLI
ERR_RE = re.compile(r"^<stdin>:(\d+) couldn't parse build matrix: (.*)$")
KIND_OF_MSG = [("missing build name", "missing-name"), ("unterminated quoted string", "unterminated"),
               ("invalid build name", "invalid-name"), ("couldn't parse empty build config", "empty")]
NAME_CH = "abzAZ09_"
WEIRD_CH = "ab1_:\" -=,\t.:\" "


def gen_matrix_text(rng):
    """-> (text, simple): simple = every non-blank line is plainly valid (then the sentinel must be
    reported as configuration number (non-blank lines + 1))."""
    lines, simple, nvalid = [], True, 0
    for _ in range(rng.below(5)):
        k = rng.below(10)
        if k < 5:
            name = "".join(rng.choice(NAME_CH) for _ in range(1 + rng.below(5)))
            rest = rng.choice(["", " -tags=a", " -tags=a,b", " GOOS=linux", " X=1 -v", " -tags=a -x", "  -a   -b  ", " \"-tags=a b\" Y=2"])
            l = rng.choice(["", " ", "\t "]) + name + ":" + rest + rng.choice(["", " ", "\t", "  \t"])
            nvalid += 1
        elif k < 7:
            l = rng.choice(["", " ", "\t", "   \t "])
        else:
            simple = False
            l = rng.choice([
                "".join(rng.choice(WEIRD_CH) for _ in range(rng.below(12))),
                "x", "a b: -x", "a-b: x", "a:b", "a:b: -x", "a: \"x y\" z", "a: \"x", "a: x\"", ": -x", ":", "a::", "a: :", "::",
                "a: \"", "a: \" ", "é: -x", "a:  \"\"  b", "a: -x\" \"y", "a :", "a: b:", "n: A=1 \"B=2 3\" -tags \"a b\" C=4",
            ])
        lines.append(l)
    text = "".join(l + rng.choice(["\n", "\n", "\r\n"]) for l in lines)
    if lines and rng.chance(1, 3):
        text = text[:-2] if text.endswith("\r\n") else text[:-1]      # last line without newline
    return text, simple, nvalid


def check_parser(ctx, sc, rng, ncases):
    """X3. Every case ends in a parse error, so the real binary exits before linting anything."""
    from concurrent.futures import ThreadPoolExecutor
    fails, diffs = [], []
    stats = collections.Counter()
    cases = []
    fixed = [("ca: -tags=a\ncac: -tags=a,c", True, 2), ("one:", True, 1), ("", True, 0), ("\n\n", True, 0),
             ("a:\r\nb: -tags=x\r\n", True, 2), ("x", False, 0), ("ok:\nbad name: -x\n", False, 1), ("a: \"b", False, 0)]
    for i in range(ncases):
        cases.append(gen_matrix_text(rng.fork("p%d" % i)))
    cases = fixed + [c for c in cases if all(ord(ch) < 128 for ch in c[0])]
    first = run_model(ctx, ["parsecfg " + vlib.hexs(t) for t, _, _ in cases])
    texts = []
    for (t, simple, nvalid), m in zip(cases, first):
        if m.startswith("ok"):
            # sentinel: a line without colon; with or without final newline
            t2 = t + ("" if t == "" or t.endswith("\n") else "\n") + "!" + ("\n" if len(t) % 2 else "")
        else:
            t2 = t
        texts.append(t2)
    second = run_model(ctx, ["parsecfg " + vlib.hexs(t) for t in texts])
    d = os.path.dirname(ctx.path("parser", "x"))

    def real(t):
        env = vlib.go_env({"STATICCHECK_CACHE": os.path.join(d, "cache")})
        p = subprocess.run([sc, "-matrix", "./..."], cwd=d, input=t.encode(), stdout=subprocess.PIPE, stderr=subprocess.PIPE, env=env, timeout=300)
        se = p.stderr.decode(errors="replace").strip()
        m = ERR_RE.match(se)
        if p.returncode == 2 and m:
            kind = next((k for msg, k in KIND_OF_MSG if m.group(2).startswith(msg)), "other:" + m.group(2))
            return "err %s %s" % (m.group(1), kind)
        return "no-parse-error rc=%d %s" % (p.returncode, se[:120])

    with ThreadPoolExecutor(max_workers=6) as ex:
        reals = list(ex.map(real, texts))
    stats["distinct_texts_with_a_configuration_line"] = len(set(t for (t, _, _) in cases if t.strip()))
    for (t, simple, nvalid), m1, t2, m2, got in zip(cases, first, texts, second, reals):
        stats["invocations"] += 1
        stats["model:" + " ".join(m2.split()[::2][:2])] += 1
        if simple:
            stats["simple"] += 1
            want = "err %d missing-name" % (nvalid + 1)
            if got != want:
                fails.append({"stdin": t2, "what": "every non-blank line of a build matrix is one configuration: the sentinel line `!` after %d valid "
                                                   "lines must be reported as configuration %d" % (nvalid, nvalid + 1), "expected": want, "got": got})
        if m2 != got:
            diffs.append({"what": "parseBuildConfigs: model and `staticcheck -matrix` disagree", "stdin": t2, "model": m2, "real": got,
                          "model_on_text_without_sentinel": m1})
    return fails, diffs, stats


# ----------------------------------------------------------------------------- main
def replay(ctx, gob, sc, reg):
    obj = json.load(open(ctx.replay))
    cases = []
    for f in obj.get("failures", []):
        if "job" in f:
            cases.append(flat(f["job"]["files"]))
        if f.get("minimised"):
            cases.append(f["minimised"]["runs"])
    mfails = []
    nm = 0
    for i, f in enumerate(obj.get("failures", [])):
        if "module_files" in f and "configs" in f:
            base = os.path.join(os.path.realpath(ctx.scratch), "replaymods", "m%d" % i)
            texts = {n: (None, t) for n, t in f["module_files"].items()}
            for n, (_, t) in list(texts.items()):
                m = re.match(r"//go:build (.*)\n", t)
                if m:
                    texts[n] = (m.group(1), t)
            cfgs = [(c[0], list(c[1])) for c in f["configs"]]
            mf, md, _, _ = matrix_module(ctx, gob, sc, os.path.dirname(ctx.path("sccache", "x")), base, texts, cfgs, vlib.SplitMix(ctx.seed), reg, True)
            mfails += mf
            nm += 1
        elif "stdin" in f and "expected" in f:
            d = os.path.dirname(ctx.path("parser", "x"))
            p = subprocess.run([sc, "-matrix", "./..."], cwd=d, input=f["stdin"].encode(), stdout=subprocess.PIPE, stderr=subprocess.PIPE, env=vlib.go_env())
            se = p.stderr.decode(errors="replace").strip()
            m = ERR_RE.match(se)
            got = "err %s %s" % (m.group(1), next((k for msg, k in KIND_OF_MSG if m.group(2).startswith(msg)), "other")) if m and p.returncode == 2 else "no-parse-error"
            if got != f["expected"]:
                mfails.append({"stdin": f["stdin"], "expected": f["expected"], "got": got})
            nm += 1
    if mfails:
        ctx.violation("replayed_matrix.json", {"failures": mfails[:5]}, text="C12 replay: %d -matrix observations still fail" % len(mfails))
    if not cases:
        if not nm:
            raise vlib.HarnessError("replay file contains no case")
        ctx.coverage.update({"evaluations": nm, "replayed_modules": nm})
        return vlib.finish(ctx, "proof")
    fails, diffs, stats = check_crafted(ctx, gob, sc, [norm_runs(c) for c in cases], vlib.SplitMix(ctx.seed), "replay")
    if fails:
        ctx.violation("replayed.json", {"failures": fails[:5]}, text="C12 replay: %d of %d cases still fail" % (len(fails), len(cases)))
    ctx.coverage.update({"evaluations": stats["invocations"], "replayed_cases": len(cases)})
    return vlib.finish(ctx, "proof")


HOW = ("harness/cmd/c12gob: `echo '<job json>' | c12gob run -bin <staticcheck built from the tree> -dir <tmp>` writes one "
       "gob file per entry of job.files and runs `staticcheck -show-ignored -merge -f text|json <files>`; or ./check C12 --replay <this file>")
HOW_MATRIX = ("write module_files into two directories (the second with CRLF line endings, elsewhere in the file system); per configuration "
              "`echo '<name>: -tags=<tags>' | staticcheck -matrix -f binary ./... > run_<name>.bin` in the directory named by binary_runs_made_in; "
              "then `staticcheck -merge run_*.bin`, resp. `printf '<stdin>' | staticcheck <args>` in cwd; the expectation comes from one plain "
              "`staticcheck -f json -tags=<tags> ./...` per configuration and the merge strategy of each check's documentation; "
              "or ./check C12 --replay <this file>")


def run(ctx):
    import time
    from concurrent.futures import ThreadPoolExecutor
    phase = {}
    t0 = time.time()
    ex = ThreadPoolExecutor(max_workers=4)
    f_gob = ex.submit(vlib.build_harness, ctx, "c12gob")
    f_sc = ex.submit(vlib.build_repo_cmd, ctx, "./cmd/staticcheck")
    gob = f_gob.result()
    phase["go_build_harness"] = round(time.time() - t0, 1)
    comparator = extract_comparator(ctx, gob)            # tie G, before the proofs are built
    t = time.time()
    lean_ok, lean_broke = vlib.std_lean_phase(ctx, MODULES, THEOREMS)
    phase["lean_build_audit"] = round(time.time() - t, 1)
    if not os.path.exists(vlib.driver_path("C12")):
        raise vlib.HarnessError("c12driver was not built: " + json.dumps(lean_broke)[:2000])
    reg = load_registry(ctx, gob)
    sc = f_sc.result()
    # the registry c12gob links in must be the one the binary under test registers
    rc, so, se = vlib.run([sc, "-list-checks"], env=vlib.go_env(), timeout=120)
    listed = sorted(l.split()[0] for l in so.splitlines() if l.strip())
    if rc != 0 or listed != sorted(n for n, _ in reg):
        raise vlib.HarnessError("`staticcheck -list-checks` and `c12gob registry` disagree on the registered analyzers (update "
                                "harness/cmd/c12gob/registry.go): only binary %s, only harness %s" % (
                                    sorted(set(listed) - set(n for n, _ in reg))[:10], sorted(set(n for n, _ in reg) - set(listed))[:10]))
    phase["go_builds_total"] = round(time.time() - t0, 1)
    if ctx.replay:
        return replay(ctx, gob, sc, reg)

    # probe of the world hypothesis CaseConsistent on the real registry
    folded = collections.Counter(n.lower() for n, _ in reg)
    clash = sorted(n for n, _ in reg if folded[n.lower()] > 1)
    if clash:
        ctx.violation("registry_case.json", {"what": "analyzer names that differ only in letter case are registered; diagnostic.equal folds the case of the "
                                                     "category, the merge key does not (Lean: case_inconsistent_witness)", "names": clash},
                      text="C12: registered analyzer names collide after case folding: %s" % clash)

    rng = vlib.SplitMix(ctx.seed).fork("C12")
    ncases, ngroups, nmods, nparse = (28, 16, 3, 40) if ctx.quick else (300, 16, 10, 300)
    corpus = [norm_runs(c) for c in CORPUS]
    cdir = os.path.join(vlib.VERIF, "corpus", "C12")
    if os.path.isdir(cdir):
        for fn in sorted(os.listdir(cdir)):
            if fn.endswith(".json"):
                corpus.append(norm_runs(json.load(open(os.path.join(cdir, fn)))["runs"]))
    corpus_case = [norm_runs(c) for c in CORPUS_CASE]
    gen = [gen_case(rng.fork("case%d" % i), ngroups) for i in range(ncases)]

    def crafted():
        t = time.time()
        batch = [(c, "corpus", True) for c in corpus] + [(c, "corpus-case-inconsistent", False) for c in corpus_case] + \
                [(c, "generated", True) for c in gen]
        a = check_crafted(ctx, gob, sc, batch, rng.fork("craftedv"), "crafted")
        phase["crafted_merge"] = round(time.time() - t, 1)
        return a

    def real_modules():
        t = time.time()
        m = check_matrix(ctx, gob, sc, rng.fork("matrix"), nmods, reg)
        phase["real_modules"] = round(time.time() - t, 1)
        return m

    def parser():
        t = time.time()
        p = check_parser(ctx, sc, rng.fork("parser"), nparse)
        phase["matrix_parser"] = round(time.time() - t, 1)
        return p

    f1 = ex.submit(crafted)
    f2 = ex.submit(real_modules)
    f5 = ex.submit(parser)
    fails, d12, s1 = f1.result()
    s2 = collections.Counter()
    f3, d3, s3, msamples = f2.result()
    f4, d4, s4 = f5.result()
    ex.shutdown()
    diffs = d12 + d3 + d4

    hist = collections.Counter()
    nontrivial = set()
    for runs in corpus + gen:
        hist["runs=%d" % len(runs)] += 1
        # per independent group
        groups = collections.defaultdict(lambda: [{"checked": [], "diags": []} for _ in runs])
        for ri, r in enumerate(runs):
            for c in r["checked"]:
                groups[c.split("/")[0]][ri]["checked"].append(c)
            for dg in r["diags"]:
                groups[dg["file"].split("/")[0]][ri]["diags"].append(dg)
        for g, rs in groups.items():
            tags = classify(rs)
            for t in tags:
                hist["tag:" + t] += 1
            if tags:
                nontrivial.add(enc_runs(rs))
    ctx.coverage.update({
        "evaluations": s1["invocations"] + s2["invocations"] + s3["invocations"] + s4["invocations"],
        "distinct_nontrivial": len(nontrivial) + s3["modules"] + s4["distinct_texts_with_a_configuration_line"],
        "rule": "a crafted case is a list of runs over several independent file groups; a group counts as non-trivial when it "
                "contains an 'all' problem dropped because a run that checked its file was silent, an 'all' problem kept although "
                "some run was silent (that run did not check the file), a problem whose build names were merged from several runs, "
                "two distinct descriptors equal on (file,line,column,message) under several builds, a descriptor twice in one run, "
                "one descriptor reported with different strategies, or one (descriptor, build) with different severities; "
                "distinct = distinct canonical input lines of such groups; plus the real modules (each is asserted to contain an 'all' check "
                "other than U1000 that fires in a shared file under a strict subset of the configurations; details under real_modules); plus the "
                "distinct matrix texts with at least one non-blank line fed to the real parser (details under matrix_parser).",
        "crafted_cases": len(corpus) + len(corpus_case) + len(gen), "groups_per_case": ngroups,
        "histogram": dict(sorted(hist.items())),
        "real_modules": dict(sorted(s3.items())),
        "matrix_parser": dict(sorted(s4.items())),
        "registry": {"analyzers": len(reg), "documented_all": sorted(n for n, m in reg if m == ALL), "case_clashes": clash},
        "comparator": comparator,
        "phase_seconds": phase,
        "samples": [{"input": enc_runs(c)[:600], "kept": show_ms(ms(text_proj(k, v) for k, v in expected(c).items()))[:8]}
                    for c in (corpus[:3] + gen[:2])] + msamples,
    })
    ctx.assumptions += [
        "encoding/gob, sort.Slice (yields some permutation sorted for `less`), sort.Strings, strings.Join, filepath.Rel on clean absolute paths, "
        "bufio.Reader.ReadString and Go's map semantics are modelled, not verified",
        "the runner (analyzers, go/packages, build-constraint evaluation) is outside the model: what each configuration finds is taken from a plain "
        "`staticcheck -f json -tags=…` run of the same binary; which files a configuration compiles is computed here from the generated //go:build lines",
        "string order: Lean compares code points, Go bytes — equal for valid UTF-8; generated strings are ASCII; matrix lines with non-ASCII "
        "characters (unicode.IsSpace/IsLetter/IsNumber beyond ASCII) are outside the model",
        "Related, SuggestedFixes are not part of the property (only checked to be normalised in -f binary output); severities are varied in crafted "
        "runs (-show-ignored), the problems of generated modules all have severity error",
        "check names are spelled in one letter case (diagnostic.equal folds case, descriptor equality does not): theorem hypothesis, probed on the "
        "real registry and on the categories real runs report; the code's behaviour without it is tied to the model on crafted runs",
    ]

    if fails or f3 or f4:
        if fails:
            first = fails[0]
            try:
                first["minimised"] = shrink(ctx, gob, sc, first)
            except vlib.HarnessError as e:
                first["minimised"] = {"shrink_failed": str(e)}
            ctx.violation("merge_oracle.json", {
                "what": "`staticcheck -merge` on crafted -f binary runs does not print exactly the problems kept by the any/all rule, each once, annotated with exactly the builds that reported it (or the output depends on order / repetition of runs)",
                "how_to_replay": HOW, "count": len(fails), "failures": fails[:10],
                "model_vs_impl_diffs": len(diffs), "lean": lean_broke,
            }, text="C12: %d crafted run sets violate the merge oracle; first (%s/%s): %s\n%s" % (
                len(fails), first["label"], first["variant"], "; ".join(first["why"]),
                json.dumps(first.get("minimised") or {"got": first["got_text"], "expected": first["expected_text"]})[:1500]))
        if f3:
            ctx.violation("matrix_oracle.json", {
                "what": "`staticcheck -matrix` / `-f binary` + `-merge` on a real module differs from the any/all merge (strategies of the checks' "
                        "documentation) of one plain run per build configuration",
                "how_to_replay": HOW_MATRIX, "count": len(f3), "failures": f3[:6], "model_vs_impl_diffs": (d3 + d4)[:4],
            }, text="C12: %d observations on real modules differ from merging one run per configuration; first: %s\n stdin=%r\n got %s\n expected %s" % (
                len(f3), f3[0]["what"], f3[0].get("stdin"), (f3[0].get("got") or [])[:8], (f3[0].get("expected") or [])[:8]))
        if f4:
            ctx.violation("matrix_lines.json", {
                "what": "`staticcheck -matrix` does not turn every non-blank line of stdin into exactly one build configuration",
                "how_to_replay": "printf '<stdin>' | staticcheck -matrix ./...   (stderr names the number of the configuration that failed to parse)",
                "count": len(f4), "failures": f4[:10],
            }, text="C12: %d matrix texts are not parsed one configuration per non-blank line; first: stdin=%r expected %s got %s" % (
                len(f4), f4[0]["stdin"], f4[0]["expected"], f4[0]["got"]))
    elif diffs or not lean_ok:
        # violation search: the oracle already ran on everything above; add a collision-heavy batch
        extra = [gen_case(rng.fork("search%d" % i), 12) for i in range(150 if ctx.quick else 1500)]
        f5, d5, s5 = check_crafted(ctx, gob, sc, extra, rng.fork("searchv"), "search")
        if f5:
            first = f5[0]
            first["minimised"] = shrink(ctx, gob, sc, first)
            ctx.violation("merge_oracle.json", {"what": "found by violation search after a model/proof break", "how_to_replay": HOW,
                                                "count": len(f5), "failures": f5[:10], "lean": lean_broke},
                          text="C12: violation search found %d failing run sets" % len(f5))
        else:
            ctx.violation("correspondence.json", {
                "what": "the Lean model no longer corresponds to lintcmd (merge, -f binary normalisation, strategy assignment or matrix parser), or a proof no longer checks, but every explored input satisfies the oracle",
                "model_vs_impl_diffs": (diffs + d5)[:10], "lean": lean_broke,
                "correspondence": "C12 streams: crafted merge (text+json), binout, pipe, matrix, parsecfg; theorems " + ", ".join(THEOREMS),
            }, nofail=True)
    return vlib.finish(ctx, "proof")


META = {
    "level": "proof",
    "technique": "Lean 4 theorems over a model of runFromLintResult / mergeRuns / printDiagnostics' sort+dedup (all sorted permutations, all "
                 "descriptor-first comparators), linter.lint's strategy assignment, the -f binary normalisation and parseBuildConfigs; comparator field "
                 "order extracted from the source (G); executable correspondence and an independent oracle on the real `staticcheck -merge` / `-matrix` / "
                 "`-f binary`, with expectations from plain per-configuration runs and the real registry's documented strategies",
    "text": "Proved for all run lists: any/all (also for mixed strategies), no duplicates, exact build names, order independence, idempotence, for every "
            "permutation sorted for any comparator that compares the whole descriptor first (the source's field order is extracted and re-proved "
            "descriptor-first on every run); -f binary output and hence the merge result are independent of the checkout location and of byte offsets; "
            "parseBuildConfigs yields exactly one configuration per non-blank line whatever the newline conventions; -matrix = any/all over the build "
            "configurations with exactly the names of the reporting configurations. Tied by crafted gob runs (severities, mixed strategies, "
            "case-inconsistent names), by real modules where the expected -matrix / -merge result is computed by the model from plain per-configuration "
            "runs + Doc.MergeIf of the real registry (LF and CRLF checkouts in different directories), by the CLI's parse errors, and by a gob "
            "round trip of real -f binary files through the harness' mirror types.",
    "note": "Trusted: Lean kernel, compiled c12driver, harness/cmd/c12gob (mirror types are checked against the real stream at run time), this file's "
            "parsers and its evaluation of the generated //go:build lines; gob, sort.Slice, filepath.Rel, the runner that produces the findings of a "
            "configuration are modelled/assumed, not verified. World hypotheses (probed): analyzer names distinct after case folding; U1000 only "
            "from linter.lint's own loop.",
    "design_ref": "DESIGN.md section 5, C12",
}
