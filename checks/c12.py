"""C12 — merging runs follows any/all semantics, order-independently.

Lean: Verif/C12/{Model,Lemmas,Theorems}.lean — runFromLintResult (map keyed by descriptor,
last wins), mergeRuns (any/all), and the sort + de-duplication + build-name union of
printDiagnostics, where "sorted" is *any* permutation sorted for the comparator (sort.Slice
is unstable and mergeRuns ranges over Go maps).

Tie X, no hook: harness/cmd/c12gob gob-encodes structurally identical lintResult values
into `-f binary` run files and feeds them to the real `staticcheck -merge` built from the
current tree, for the runs as generated, permuted, with a run repeated, concatenated in
one file and on stdin; the kept problems and their build names (text format) and their
full descriptors (json format) are compared with the model.  Real `-matrix` runs on
generated modules with build-tagged files are compared with one `-f binary` run per
configuration + `-merge` (lines permuted / repeated / without final newline).

Oracle (independent of the model, computed here from the runs): the printed multiset is
exactly {(d, sorted build names of the runs that reported d) | d kept by any/all}, each
once, and it is invariant under permutation and repetition of runs.
"""
import collections
import json
import os
import re
import subprocess

import vlib

MODULES = ["Verif.C12.Theorems"]
THEOREMS = [
    "Verif.C12.keep_any",
    "Verif.C12.keep_all",
    "Verif.C12.kept_iff",
    "Verif.C12.out_nodup",
    "Verif.C12.builds_exact",
    "Verif.C12.builds_exact_uniform",
    "Verif.C12.out_unique",
    "Verif.C12.output_congr",
    "Verif.C12.merge_comm",
    "Verif.C12.merge_idem",
    "Verif.C12.merge_idem_mem",
    "Verif.C12.less_spec",
    "Verif.C12.sortDiags_sorted_perm",
    "Verif.C12.runFromLintResult_last_wins",
    "Verif.C12.old_comparator_witness",
]

ANY, ALL = 0, 1
CATS = [("SA1000", ANY), ("SA1001", ANY), ("S1000", ANY), ("ST1005", ANY),
        ("SA4006", ALL), ("U1000", ALL), ("SA9005", ALL), ("S1002", ALL)]
BUILDS = ["linux", "windows", "darwin", "a_1", "B", "b", "linux2", ""]
MSGS = ["m", "m1", "M", "m 2", "mm", "n"]

DESC_KEYS = ("file", "off", "line", "col", "efile", "eoff", "eline", "ecol", "cat", "msg")


# ----------------------------------------------------------------------------- generator
def gen_group(rng, gi, nruns):
    """One independent little universe: 1-2 files, a pool of descriptors with deliberate
    collisions (same position+message under different checks / Ends / offsets), and for
    every run: which files it checked and which descriptors it reported."""
    files = ["g%d/x.go" % gi] + (["g%d/y.go" % gi] if rng.chance(1, 2) else [])
    pool = []
    npool = 1 + rng.below(5)
    base = None
    for _ in range(npool):
        cat, mi = rng.choice(CATS)
        if base is not None and rng.chance(3, 5):
            # collide with an earlier descriptor on (file,line,col,message)
            d = dict(base)
            how = rng.below(6)
            if how <= 2:
                d["cat"], d["mergeif"] = cat, mi
            elif how == 3:
                d["efile"], d["eline"], d["ecol"] = d["file"], d["line"], d["col"] + 1 + rng.below(3)
            elif how == 4:
                d["cat"], d["mergeif"] = cat, mi
                d["efile"], d["eline"], d["ecol"] = d["file"], d["line"] + rng.below(2), d["col"] + rng.below(3)
            else:
                d["off"] = d["off"] + 1 + rng.below(2)
        else:
            f = rng.choice(files)
            line, col = 1 + rng.below(3), 1 + rng.below(2)
            d = {"file": f, "off": 0, "line": line, "col": col,
                 "efile": "", "eoff": 0, "eline": 0, "ecol": 0,
                 "cat": cat, "msg": rng.choice(MSGS), "sev": 0, "mergeif": mi}
            if rng.chance(1, 3):
                d["efile"], d["eline"], d["ecol"] = f, line, col + 1 + rng.below(2)
        if base is None or rng.chance(1, 2):
            base = d
        pool.append(d)
    per_run = []
    for _ in range(nruns):
        checked = [f for f in files if rng.chance(3, 4)]
        p = 1 + rng.below(4)            # reporting probability p/4, varies per run
        diags = [dict(d) for d in pool if rng.chance(p, 4)]
        if diags and rng.chance(1, 6):
            diags.append(dict(rng.choice(diags)))      # same descriptor twice in one run
        per_run.append((checked, diags))
    return per_run


def gen_case(rng, ngroups):
    nruns = 1 + rng.below(4)
    names = rng.shuffle(BUILDS)[:nruns]
    if nruns > 1 and rng.chance(1, 6):
        names[1] = names[0]                            # two runs of the same build
    runs = [{"checked": [], "diags": []} for _ in range(nruns)]
    for gi in range(ngroups):
        for ri, (checked, diags) in enumerate(gen_group(rng, gi, nruns)):
            runs[ri]["checked"] += checked
            for d in diags:
                d["build"] = names[ri]
                runs[ri]["diags"].append(d)
    for r in runs:
        r["checked"] = rng.shuffle(r["checked"])
        r["diags"] = rng.shuffle(r["diags"])
    return runs


CORPUS = [
    # DESIGN.md section 6 row 12: two checks, same position and message, two builds
    [{"checked": ["x.go"], "diags": [
        {"file": "x.go", "line": 1, "col": 1, "cat": "SA1000", "msg": "m", "mergeif": ANY, "build": "linux"},
        {"file": "x.go", "line": 1, "col": 1, "cat": "SA1001", "msg": "m", "mergeif": ANY, "build": "linux"}]},
     {"checked": ["x.go"], "diags": [
        {"file": "x.go", "line": 1, "col": 1, "cat": "SA1000", "msg": "m", "mergeif": ANY, "build": "windows"},
        {"file": "x.go", "line": 1, "col": 1, "cat": "SA1001", "msg": "m", "mergeif": ANY, "build": "windows"}]}],
    # same check, same position and message, different End, two builds
    [{"checked": ["x.go"], "diags": [
        {"file": "x.go", "line": 2, "col": 3, "efile": "x.go", "eline": 2, "ecol": 5, "cat": "SA4006", "msg": "m", "mergeif": ALL, "build": "linux"},
        {"file": "x.go", "line": 2, "col": 3, "efile": "x.go", "eline": 2, "ecol": 9, "cat": "SA4006", "msg": "m", "mergeif": ALL, "build": "linux"}]},
     {"checked": ["x.go"], "diags": [
        {"file": "x.go", "line": 2, "col": 3, "efile": "x.go", "eline": 2, "ecol": 5, "cat": "SA4006", "msg": "m", "mergeif": ALL, "build": "windows"},
        {"file": "x.go", "line": 2, "col": 3, "efile": "x.go", "eline": 2, "ecol": 9, "cat": "SA4006", "msg": "m", "mergeif": ALL, "build": "windows"}]}],
    # 'all': dropped because a run that checked the file did not report it; kept where the
    # silent run did not check the file; 'any' kept from a single run
    [{"checked": ["x.go", "y.go"], "diags": [
        {"file": "x.go", "line": 1, "col": 1, "cat": "U1000", "msg": "m", "mergeif": ALL, "build": "linux"},
        {"file": "y.go", "line": 1, "col": 1, "cat": "U1000", "msg": "n", "mergeif": ALL, "build": "linux"},
        {"file": "x.go", "line": 3, "col": 1, "cat": "SA1000", "msg": "m", "mergeif": ANY, "build": "linux"}]},
     {"checked": ["x.go"], "diags": []},
     {"checked": ["y.go"], "diags": [
        {"file": "y.go", "line": 1, "col": 1, "cat": "U1000", "msg": "n", "mergeif": ALL, "build": "darwin"}]}],
    # reporter did not check the file itself; empty build name next to a named one
    [{"checked": [], "diags": [
        {"file": "x.go", "line": 1, "col": 1, "cat": "U1000", "msg": "m", "mergeif": ALL, "build": ""}]},
     {"checked": ["x.go"], "diags": [
        {"file": "x.go", "line": 1, "col": 1, "cat": "U1000", "msg": "m", "mergeif": ALL, "build": "linux"}]}],
    # one diagnostic only (the len(diagnostics) > 1 guard); no runs at all
    [{"checked": ["x.go"], "diags": [
        {"file": "x.go", "line": 1, "col": 1, "cat": "SA1000", "msg": "m", "mergeif": ANY, "build": "linux"}]}],
    [],
    # offsets differ only (cannot come from -f binary, which clears them; gob accepts it)
    [{"checked": ["x.go"], "diags": [
        {"file": "x.go", "off": 0, "line": 1, "col": 1, "cat": "SA1000", "msg": "m", "mergeif": ANY, "build": "linux"},
        {"file": "x.go", "off": 7, "line": 1, "col": 1, "cat": "SA1000", "msg": "m", "mergeif": ANY, "build": "linux"}]},
     {"checked": ["x.go"], "diags": [
        {"file": "x.go", "off": 0, "line": 1, "col": 1, "cat": "SA1000", "msg": "m", "mergeif": ANY, "build": "windows"},
        {"file": "x.go", "off": 7, "line": 1, "col": 1, "cat": "SA1000", "msg": "m", "mergeif": ANY, "build": "windows"}]}],
]


def norm_diag(d):
    out = {"file": "", "off": 0, "line": 0, "col": 0, "efile": "", "eoff": 0, "eline": 0, "ecol": 0,
           "cat": "", "msg": "", "sev": 0, "mergeif": 0, "build": ""}
    out.update(d)
    return out


def norm_runs(runs):
    return [{"checked": list(r["checked"]), "diags": [norm_diag(d) for d in r["diags"]]} for r in runs]


# ----------------------------------------------------------------------------- oracle
def desc_of(d):
    return tuple(d[k] for k in DESC_KEYS)


def expected(runs):
    """The property, computed directly: desc -> sorted build names, for kept problems."""
    maps = []
    for r in runs:
        m = {}
        for d in r["diags"]:
            m[desc_of(d)] = d                           # one problem per descriptor and run
        maps.append((set(r["checked"]), m))
    out = {}
    for (_, m) in maps:
        for k, d in m.items():
            if d["mergeif"] == ANY:
                keep = True
            elif d["mergeif"] == ALL:
                keep = all(k in m2 for (c2, m2) in maps if d["file"] in c2)
            else:
                keep = False
            if keep:
                out.setdefault(k, set()).add(d["build"])
    return {k: sorted(v) for k, v in out.items()}


def text_proj(desc, names):
    """what the text format shows of a problem; build names as a set (canonical: sorted tuple)"""
    f, off, line, col, ef, eoff, el, ec, cat, msg = desc
    return (f, line, col, msg, tuple(sorted(set(names))), cat)


def json_proj(desc):
    f, off, line, col, ef, eoff, el, ec, cat, msg = desc
    return (cat, f, line, col, ef, el, ec, msg)


TEXT_RE = re.compile(r"^(?P<file>[^:]+):(?P<line>\d+):(?P<col>\d+): (?P<msg>.*?)(?: \[(?P<b>[^\]]*)\])? \((?P<cat>[^()]*)\)$")


def parse_text(s):
    out = []
    for line in s.splitlines():
        m = TEXT_RE.match(line)
        if not m:
            raise vlib.HarnessError("cannot parse text output line %r" % line)
        # "[a,b]" = strings.Join of the names; no bracket = the single empty name
        out.append((m.group("file"), int(m.group("line")), int(m.group("col")), m.group("msg"),
                    tuple(sorted((m.group("b") or "").split(","))), m.group("cat")))
    return out


def parse_json(s):
    out = []
    for line in s.splitlines():
        j = json.loads(line)
        out.append((j["code"], j["location"]["file"], j["location"]["line"], j["location"]["column"],
                    j["end"]["file"], j["end"]["line"], j["end"]["column"], j["message"]))
    return out


def ms(xs):
    return sorted(collections.Counter(xs).items())


def show_ms(m):
    return ["%dx %s" % (n, list(t)) for t, n in m]


# ----------------------------------------------------------------------------- model protocol
def enc_diag(d):
    return " ".join([vlib.hexs(d["file"]), str(d["off"]), str(d["line"]), str(d["col"]),
                     vlib.hexs(d["efile"]), str(d["eoff"]), str(d["eline"]), str(d["ecol"]),
                     vlib.hexs(d["cat"]), vlib.hexs(d["msg"]), str(d["sev"]), str(d["mergeif"]),
                     vlib.hexs(d["build"])])


def enc_runs(runs):
    toks = ["merge", str(len(runs))]
    for r in runs:
        toks.append(str(len(r["checked"])))
        toks += [vlib.hexs(c) for c in r["checked"]]
        toks.append(str(len(r["diags"])))
        toks += [enc_diag(d) for d in r["diags"]]
    return " ".join(toks)


def unhex(s):
    return "" if s == "-" else bytes.fromhex(s).decode()


def dec_model(line):
    """`n entry*`, entry = 10 descriptor tokens, k, k names -> {desc: [names]} + duplicate flag"""
    t = line.split()
    if not t or t[0] == "bad-op":
        raise vlib.HarnessError("model rejected a case: %r" % line[:200])
    n = int(t[0])
    i = 1
    out = []
    for _ in range(n):
        f, off, ln, col, ef, eoff, el, ec, cat, msg = t[i:i + 10]
        desc = (unhex(f), int(off), int(ln), int(col), unhex(ef), int(eoff), int(el), int(ec), unhex(cat), unhex(msg))
        k = int(t[i + 10])
        names = [unhex(x) for x in t[i + 11:i + 11 + k]]
        i += 11 + k
        out.append((desc, names))
    if i != len(t):
        raise vlib.HarnessError("trailing tokens in model output")
    return out


# ----------------------------------------------------------------------------- crafted runs
def variants(rng, runs, thorough):
    """(name, files, stdin): files = list of lists of runs; every variant is a permutation
    and/or repetition of the same multiset of runs, so all must print the same problems."""
    vs = [("base", [[r] for r in runs], False)]
    perm = rng.shuffle(runs)
    vs.append(("perm", [[r] for r in perm], False))
    if runs:
        dup = list(runs)
        k = rng.below(len(runs))
        dup.insert(rng.below(len(dup) + 1), runs[k])
        if rng.chance(1, 3):
            dup.insert(rng.below(len(dup) + 1), runs[rng.below(len(runs))])
        vs.append(("dup", [[r] for r in dup], False))
    else:
        vs.append(("dup", [], False))
    if thorough or rng.chance(1, 4):
        p2 = rng.shuffle(runs)
        if rng.chance(1, 2):
            vs.append(("onefile", [p2] if p2 else [], False))
        else:
            vs.append(("stdin", [p2], True))
    return vs


def flat(files):
    return [r for f in files for r in f]


def run_gob(ctx, gob, sc, jobs):
    inp = "".join(json.dumps(j) + "\n" for j in jobs)
    env = vlib.go_env({"GOMAXPROCS": "2"})
    d = ctx.path("gobjobs", "x")
    p = subprocess.run([gob, "run", "-bin", sc, "-dir", os.path.dirname(d), "-j", str(max(4, vlib.NCPU))],
                       input=inp, stdout=subprocess.PIPE, stderr=subprocess.PIPE, text=True, env=env, timeout=3000)
    if p.returncode != 0:
        raise vlib.HarnessError("c12gob run failed: " + p.stderr[-2000:])
    res = [json.loads(l) for l in p.stdout.splitlines()]
    if len(res) != len(jobs):
        raise vlib.HarnessError("c12gob: %d results for %d jobs" % (len(res), len(jobs)))
    for r in res:
        if r.get("err"):
            raise vlib.HarnessError("c12gob job %s: %s" % (r["id"], r["err"]))
        for f, o in r["out"].items():
            if o["rc"] not in (0, 1) or o["stderr"].strip():
                raise vlib.HarnessError("staticcheck -merge -f %s failed: rc=%s %s" % (f, o["rc"], o["stderr"][-500:]))
    return res


def classify(runs):
    """Which non-trivial situations a case contains (for evidence; measured on the input)."""
    exp = expected(runs)
    tags = set()
    maps = [({desc_of(d): d for d in r["diags"]}, set(r["checked"])) for r in runs]
    alld = {}
    for m, _ in maps:
        for k, d in m.items():
            alld.setdefault(k, d)
    for k, d in alld.items():
        if d["mergeif"] == ALL and k not in exp:
            tags.add("all_dropped")
        if d["mergeif"] == ALL and k in exp and any(k not in m for m, c in maps):
            tags.add("all_kept_despite_silent_unchecked_run")
        if k in exp and len(exp[k]) > 1:
            tags.add("builds_merged")
    by_pm = collections.defaultdict(set)
    for k in exp:
        by_pm[(k[0], k[2], k[3], k[9])].add(k)
    for pm, ks in by_pm.items():
        if len(ks) > 1 and any(len(exp[k]) > 1 for k in ks):
            tags.add("colliding_descriptors_multi_build")
    for r in runs:
        ds = [desc_of(d) for d in r["diags"]]
        if len(ds) != len(set(ds)):
            tags.add("descriptor_twice_in_run")
    return tags


def check_crafted(ctx, gob, sc, cases, rng, label):
    """cases: list of run lists. Returns (oracle_failures, model_diffs, stats)."""
    jobs, meta = [], []
    for ci, runs in enumerate(cases):
        for (vname, files, stdin) in variants(rng.fork("v%d" % ci), runs, not ctx.quick):
            fmts = ["text", "json"] if vname in ("base", "stdin", "onefile") else ["text"]
            jobs.append({"id": len(jobs), "files": files, "stdin": stdin, "formats": fmts})
            meta.append((ci, vname))
    res = run_gob(ctx, gob, sc, jobs)
    model = vlib.run_model(ctx, "C12", [enc_runs(flat(j["files"])) for j in jobs]) if ctx.c12_model else None
    fails, diffs = [], []
    stats = collections.Counter()
    base_text = {}
    for idx, (j, r, (ci, vname)) in enumerate(zip(jobs, res, meta)):
        runs = cases[ci]
        exp = expected(runs)                     # of the *generated* runs: variants must agree with it
        exp_text = ms(text_proj(k, v) for k, v in exp.items())
        exp_json = ms(json_proj(k) for k in exp)
        got_text = ms(parse_text(r["out"]["text"]["stdout"]))
        why = []
        if got_text != exp_text:
            why.append("text output is not {kept problems, each once, with exactly its build names}")
        if "json" in r["out"]:
            got_json = ms(parse_json(r["out"]["json"]["stdout"]))
            if got_json != exp_json:
                why.append("json output is not {kept problems, each once}")
        else:
            got_json = None
        if vname == "base":
            base_text[ci] = got_text
        elif ci in base_text and got_text != base_text[ci]:
            why.append("output differs from the output for the same runs in generated order (variant %s)" % vname)
        stats["invocations"] += len(r["out"])
        if why:
            fails.append({"case": ci, "label": label, "variant": vname, "why": why, "job": j,
                          "expected_text": show_ms(exp_text), "got_text": show_ms(got_text),
                          "expected_json": show_ms(exp_json), "got_json": show_ms(got_json) if got_json is not None else None,
                          "raw_text": r["out"]["text"]["stdout"]})
        if model is not None:
            mo = dec_model(model[idx])
            mo_text = ms(text_proj(k, v) for k, v in mo)
            mo_json = ms(json_proj(k) for k, v in mo)
            if mo_text != got_text or (got_json is not None and mo_json != got_json):
                diffs.append({"case": ci, "label": label, "variant": vname, "job": j,
                              "model_text": show_ms(mo_text), "impl_text": show_ms(got_text),
                              "model_json": show_ms(mo_json), "impl_json": show_ms(got_json) if got_json is not None else None})
    return fails, diffs, stats


def shrink(ctx, gob, sc, fail):
    """Greedy structural shrink of a failing job (delete runs, then diagnostics, then checked
    files), re-validated against the oracle on the real binary after every step."""
    files = fail["job"]["files"]
    runs = flat(files)
    stdin = False

    def bad(rs):
        j = {"id": 0, "files": [[r] for r in rs], "stdin": stdin, "formats": ["text", "json"]}
        r = run_gob(ctx, gob, sc, [j])[0]
        exp = expected(rs)
        return ms(parse_text(r["out"]["text"]["stdout"])) != ms(text_proj(k, v) for k, v in exp.items()) or \
            ms(parse_json(r["out"]["json"]["stdout"])) != ms(json_proj(k) for k in exp)

    if not bad(runs):
        return None            # fails only as a variant relation; keep the original
    steps = 0
    changed = True
    while changed and steps < 400:
        changed = False
        for i in range(len(runs)):
            cand = runs[:i] + runs[i + 1:]
            steps += 1
            if bad(cand):
                runs, changed = cand, True
                break
        if changed:
            continue
        for i, r in enumerate(runs):
            for key in ("diags", "checked"):
                for k in range(len(r[key])):
                    r2 = dict(r)
                    r2[key] = r[key][:k] + r[key][k + 1:]
                    cand = runs[:i] + [r2] + runs[i + 1:]
                    steps += 1
                    if bad(cand):
                        runs, changed = cand, True
                        break
                if changed:
                    break
            if changed:
                break
    j = {"id": 0, "files": [[r] for r in runs], "stdin": False, "formats": ["text", "json"]}
    r = run_gob(ctx, gob, sc, [j])[0]
    exp = expected(runs)
    return {"runs": runs, "expected_text": show_ms(ms(text_proj(k, v) for k, v in exp.items())),
            "got_text_raw": r["out"]["text"]["stdout"], "got_json_raw": r["out"]["json"]["stdout"]}


# ----------------------------------------------------------------------------- real -matrix
CONSTRAINTS = [None, "a", "!a", "b", "!b", "a && b", "a || b", "c"]
CONFIG_POOL = [("ca", ["a"]), ("cb", ["b"]), ("cab", ["a", "b"]), ("none", []), ("cc", ["c"]), ("cac", ["a", "c"])]


def gen_module(rng, d, mi):
    """A one-package module without imports. Problems:
       any  SA4000 `x == x` (syntactic; not for floats) — in shared and in tagged files,
            and on a type that is float64 under tag a and int otherwise (varies by build);
       all  SA4003 `x < 0` on a type that is uint under tag b and int otherwise;
       all  U1000 functions in shared files that only some tagged file uses."""
    os.makedirs(d, exist_ok=True)
    with open(os.path.join(d, "go.mod"), "w") as f:
        f.write("module example.com/mx%d\n\ngo 1.21\n" % mi)
    nsh = 1 + rng.below(2)
    files = {}
    users = []          # (constraint, function name)
    for s in range(nsh):
        lines = ["package p", ""]
        for k in range(1 + rng.below(3)):
            n = "s%d_%d" % (s, k)
            kind = rng.below(5)
            if kind == 0:
                lines += ["func any_%s(x int) bool { return x == x }" % n, "var _ = any_%s" % n, ""]
            elif kind == 1:
                lines += ["func nan_%s(x FA) bool { return x == x }" % n, "var _ = nan_%s" % n, ""]
            elif kind == 2:
                lines += ["func cmp_%s(x TB) bool { return x < 0 }" % n, "var _ = cmp_%s" % n, ""]
            elif kind == 3:
                lines += ["func unused_%s() {}" % n, ""]
                if rng.chance(2, 3):
                    users.append((rng.choice(CONSTRAINTS[1:]), "unused_%s" % n))
            else:
                lines += ["func both_%s(x TB, y FA) bool { return x < 0 || y == y }" % n, "var _ = both_%s" % n, ""]
        files["shared%d.go" % s] = (None, lines)
    files["ta.go"] = ("a", ["package p", "", "type FA = float64", ""])
    files["tna.go"] = ("!a", ["package p", "", "type FA = int", ""])
    files["tb.go"] = ("b", ["package p", "", "type TB = uint", ""])
    files["tnb.go"] = ("!b", ["package p", "", "type TB = int", ""])
    for t in range(1 + rng.below(3)):
        c = rng.choice(CONSTRAINTS[1:])
        lines = ["package p", ""]
        n = "t%d" % t
        if rng.chance(2, 3):
            lines += ["func tany_%s(x int) bool { return x != x }" % n, "var _ = tany_%s" % n, ""]
        if rng.chance(1, 2):
            lines += ["func tcmp_%s(x TB) bool { return x < 0 }" % n, "var _ = tcmp_%s" % n, ""]
        if rng.chance(1, 2):
            lines += ["func tunused_%s() {}" % n, ""]
        files["tag%d.go" % t] = (c, lines)
    for i, (c, fn) in enumerate(users):
        files["use%d.go" % i] = (c, ["package p", "", "var _ = %s" % fn, ""])
    for name, (c, lines) in files.items():
        with open(os.path.join(d, name), "w") as f:
            if c:
                f.write("//go:build %s\n\n" % c)
            f.write("\n".join(lines))
    ncfg = 2 + rng.below(3)
    cfgs = rng.shuffle(CONFIG_POOL)[:ncfg]
    return cfgs


def cfg_line(c):
    name, tags = c
    return "%s: -tags=%s" % (name, ",".join(tags)) if tags else "%s:" % name


def sc_run(sc, args, cwd, stdin, cache):
    env = vlib.go_env({"STATICCHECK_CACHE": cache})
    p = subprocess.run([sc] + args, cwd=cwd, input=stdin, stdout=subprocess.PIPE, stderr=subprocess.PIPE, env=env, timeout=900)
    return p.returncode, p.stdout, p.stderr.decode(errors="replace")


def matrix_module(ctx, gob, sc, cache, d, cfgs, r):
    """All observations for one generated module directory `d` with configurations `cfgs`."""
    from concurrent.futures import ThreadPoolExecutor
    fails, diffs = [], []
    stats = collections.Counter()

    # one -f binary run per configuration (a one-line matrix gives the run its name)
    def binrun(c):
        rc, so, se = sc_run(sc, ["-matrix", "-f", "binary", "./..."], d, (cfg_line(c) + "\n").encode(), cache)
        if rc != 0 or se.strip():
            raise vlib.HarnessError("staticcheck -matrix -f binary failed in %s for %s: rc=%d %s" % (d, c, rc, se[-800:]))
        p = os.path.join(d, "run_%s.bin" % c[0])
        with open(p, "wb") as f:
            f.write(so)
        return c[0], p

    with ThreadPoolExecutor(max_workers=4) as ex:
        bins = dict(ex.map(binrun, cfgs))
    rc, so, se = vlib.run([gob, "dump"] + [bins[c[0]] for c in cfgs], env=vlib.go_env())
    if rc != 0:
        raise vlib.HarnessError("c12gob dump failed: " + se[-800:])
    runs = []
    for line in so.splitlines():
        rs = json.loads(line)["runs"]
        if len(rs) != 1:
            raise vlib.HarnessError("expected one run per -f binary file, got %d" % len(rs))
        runs += rs
    if any(dg["cat"] == "compile" for rr in runs for dg in rr["diags"]):
        raise vlib.HarnessError("generated module %s does not compile under some configuration" % d)
    exp = expected(runs)
    exp_text = ms(text_proj(k, v) for k, v in exp.items())
    tags = classify(runs)
    for t in tags:
        stats["tag:" + t] += 1
    stats["modules"] += 1
    stats["configs"] += len(cfgs)
    stats["problems_kept"] += len(exp)
    lines = [cfg_line(c) for c in cfgs]
    obsv = [
        ("-merge of per-configuration -f binary runs", ["-merge"] + [bins[c[0]] for c in cfgs], None),
        ("-merge, files permuted", ["-merge"] + [bins[c[0]] for c in r.shuffle(cfgs)], None),
        ("-matrix", ["-matrix", "./..."], ("\n".join(lines) + "\n").encode()),
        ("-matrix, lines permuted", ["-matrix", "./..."], ("\n".join(r.shuffle(lines)) + "\n").encode()),
        ("-matrix, a configuration repeated", ["-matrix", "./..."], ("\n".join(lines + [lines[0]]) + "\n").encode()),
        ("-matrix, blank lines and no final newline", ["-matrix", "./..."], ("\n" + "\n\n".join(lines)).encode()),
    ]

    def observe(o):
        what, args, stdin = o
        rc, so, se = sc_run(sc, args, d, stdin, cache)
        if rc not in (0, 1) or se.strip():
            raise vlib.HarnessError("%s failed in %s: rc=%d %s" % (what, d, rc, se[-800:]))
        return ms(parse_text(so.decode()))

    with ThreadPoolExecutor(max_workers=3) as ex:
        gots = list(ex.map(observe, obsv))
    for (what, args, stdin), got in zip(obsv, gots):
        stats["invocations"] += 1
        if got != exp_text:
            fails.append({"module_dir_snapshot": snapshot(d), "configs": [list(c) for c in cfgs], "what": what,
                          "args": [a if not a.startswith(d) else os.path.basename(a) for a in args],
                          "stdin": stdin.decode() if stdin is not None else None,
                          "expected_text": show_ms(exp_text), "got_text": show_ms(got),
                          "runs_decoded_from_f_binary": runs})
    if ctx.c12_model:
        mo = dec_model(vlib.run_model(ctx, "C12", [enc_runs(norm_runs(runs))])[0])
        mo_text = ms(text_proj(k, v) for k, v in mo)
        if mo_text != exp_text:
            diffs.append({"module": d, "model_text": show_ms(mo_text), "expected_text": show_ms(exp_text)})
    sample = {"configs": lines, "kept": show_ms(exp_text)[:6], "situations": sorted(tags)}
    return fails, diffs, stats, sample


def check_matrix(ctx, gob, sc, rng, nmods):
    from concurrent.futures import ThreadPoolExecutor
    cache = os.path.dirname(ctx.path("sccache", "x"))

    def one(mi):
        r = rng.fork("mod%d" % mi)
        d = os.path.join(ctx.scratch, "mods", "m%d" % mi)
        cfgs = gen_module(r, d, mi)
        return matrix_module(ctx, gob, sc, cache, d, cfgs, r)

    with ThreadPoolExecutor(max_workers=max(2, vlib.NCPU // 3)) as ex:
        res = list(ex.map(one, range(nmods)))
    fails, diffs, samples = [], [], []
    stats = collections.Counter()
    for f, dd, st, sm in res:
        fails += f
        diffs += dd
        stats.update(st)
        if len(samples) < 2:
            samples.append(sm)
    return fails, diffs, stats, samples


def snapshot(d):
    out = {}
    for fn in sorted(os.listdir(d)):
        if fn.endswith(".go") or fn == "go.mod":
            out[fn] = open(os.path.join(d, fn)).read()
    return out


# ----------------------------------------------------------------------------- main
def replay(ctx, gob, sc):
    obj = json.load(open(ctx.replay))
    cases = []
    for f in obj.get("failures", []):
        if "job" in f:
            cases.append(flat(f["job"]["files"]))
        if f.get("minimised"):
            cases.append(f["minimised"]["runs"])
    mfails = []
    nm = 0
    for i, f in enumerate(obj.get("failures", [])):
        if "module_dir_snapshot" in f:
            d = os.path.join(ctx.scratch, "replaymods", "m%d" % i)
            os.makedirs(d, exist_ok=True)
            for fn, txt in f["module_dir_snapshot"].items():
                with open(os.path.join(d, fn), "w") as fh:
                    fh.write(txt)
            cfgs = [(c[0], c[1]) for c in f["configs"]]
            mf, _, _, _ = matrix_module(ctx, gob, sc, os.path.dirname(ctx.path("sccache", "x")), d, cfgs, vlib.SplitMix(ctx.seed))
            mfails += mf
            nm += 1
    if mfails:
        ctx.violation("replayed_matrix.json", {"failures": mfails[:5]}, text="C12 replay: %d -matrix observations still fail" % len(mfails))
    if not cases:
        if not nm:
            raise vlib.HarnessError("replay file contains no case")
        ctx.coverage.update({"evaluations": 6 * nm, "replayed_modules": nm})
        return vlib.finish(ctx, "proof")
    fails, diffs, stats = check_crafted(ctx, gob, sc, cases, vlib.SplitMix(ctx.seed), "replay")
    if fails:
        ctx.violation("replayed.json", {"failures": fails[:5]}, text="C12 replay: %d of %d cases still fail" % (len(fails), len(cases)))
    ctx.coverage.update({"evaluations": stats["invocations"], "replayed_cases": len(cases)})
    return vlib.finish(ctx, "proof")


HOW = ("harness/cmd/c12gob: `echo '<job json>' | c12gob run -bin <staticcheck built from the tree> -dir <tmp>` writes one "
       "gob file per entry of job.files and runs `staticcheck -merge -f text|json <files>`; or ./check C12 --replay <this file>")


def run(ctx):
    import time
    phase = {}
    t = time.time()
    lean_ok, lean_broke = vlib.std_lean_phase(ctx, MODULES, THEOREMS)
    phase["lean_build_audit"] = round(time.time() - t, 1)
    if not os.path.exists(vlib.driver_path("C12")):
        raise vlib.HarnessError("c12driver was not built: " + json.dumps(lean_broke)[:2000])
    ctx.c12_model = True
    t = time.time()
    gob = vlib.build_harness(ctx, "c12gob")
    sc = vlib.build_repo_cmd(ctx, "./cmd/staticcheck")
    phase["go_builds"] = round(time.time() - t, 1)
    if ctx.replay:
        return replay(ctx, gob, sc)

    rng = vlib.SplitMix(ctx.seed).fork("C12")
    ncases, ngroups, nmods = (60, 16, 3) if ctx.quick else (2000, 16, 40)
    corpus = [norm_runs(c) for c in CORPUS]
    cdir = os.path.join(vlib.VERIF, "corpus", "C12")
    if os.path.isdir(cdir):
        for fn in sorted(os.listdir(cdir)):
            if fn.endswith(".json"):
                corpus.append(norm_runs(json.load(open(os.path.join(cdir, fn)))["runs"]))
    gen = [gen_case(rng.fork("case%d" % i), ngroups) for i in range(ncases)]

    t = time.time()
    f1, d1, s1 = check_crafted(ctx, gob, sc, corpus, rng.fork("corpusv"), "corpus")
    f2, d2, s2 = check_crafted(ctx, gob, sc, gen, rng.fork("genv"), "generated")
    phase["crafted_merge"] = round(time.time() - t, 1)
    t = time.time()
    f3, d3, s3, msamples = check_matrix(ctx, gob, sc, rng.fork("matrix"), nmods)
    phase["matrix"] = round(time.time() - t, 1)
    fails, diffs = f1 + f2, d1 + d2 + d3

    hist = collections.Counter()
    nontrivial = set()
    for runs in corpus + gen:
        hist["runs=%d" % len(runs)] += 1
        # per independent group
        groups = collections.defaultdict(lambda: [{"checked": [], "diags": []} for _ in runs])
        for ri, r in enumerate(runs):
            for c in r["checked"]:
                groups[c.split("/")[0]][ri]["checked"].append(c)
            for dg in r["diags"]:
                groups[dg["file"].split("/")[0]][ri]["diags"].append(dg)
        for g, rs in groups.items():
            tags = classify(rs)
            for t in tags:
                hist["tag:" + t] += 1
            if tags:
                nontrivial.add(enc_runs(rs))
    ctx.coverage.update({
        "evaluations": s1["invocations"] + s2["invocations"] + s3["invocations"],
        "distinct_nontrivial": len(nontrivial),
        "rule": "a crafted case is a list of runs over several independent file groups; a group counts as non-trivial when it "
                "contains an 'all' problem dropped because a run that checked its file was silent, an 'all' problem kept although "
                "some run was silent (that run did not check the file), a problem whose build names were merged from several runs, "
                "two distinct descriptors equal on (file,line,column,message) under several builds, or a descriptor twice in one run; "
                "distinct = distinct canonical input lines of such groups",
        "crafted_cases": len(corpus) + len(gen), "groups_per_case": ngroups,
        "histogram": dict(sorted(hist.items())),
        "matrix": dict(sorted(s3.items())),
        "phase_seconds": phase,
        "samples": [{"input": enc_runs(c)[:600], "kept": show_ms(ms(text_proj(k, v) for k, v in expected(c).items()))[:8]}
                    for c in (corpus[:3] + gen[:2])] + msamples,
    })
    ctx.assumptions += [
        "encoding/gob, sort.Slice (yields some permutation sorted for `less`), sort.Strings, strings.Join and Go's map semantics are modelled, not verified",
        "the linter producing each run (runner, analyzers, go/packages, build-constraint evaluation) is outside the model; -matrix is compared with per-configuration runs of the same binary",
        "string order: Lean compares code points, Go bytes — equal for valid UTF-8; generated strings are ASCII",
        "Severity, Related, SuggestedFixes are not part of the property; crafted runs use severity 0 and no related information",
        "check names are spelled in one letter case (diagnostic.equal folds case, descriptor equality does not)",
    ]

    if fails or f3:
        if fails:
            first = fails[0]
            try:
                first["minimised"] = shrink(ctx, gob, sc, first)
            except vlib.HarnessError as e:
                first["minimised"] = {"shrink_failed": str(e)}
            ctx.violation("merge_oracle.json", {
                "what": "`staticcheck -merge` on crafted -f binary runs does not print exactly the problems kept by the any/all rule, each once, annotated with exactly the builds that reported it (or the output depends on order / repetition of runs)",
                "how_to_replay": HOW, "count": len(fails), "failures": fails[:10],
                "model_vs_impl_diffs": len(diffs), "lean": lean_broke,
            }, text="C12: %d crafted run sets violate the merge oracle; first (%s/%s): %s\n%s" % (
                len(fails), first["label"], first["variant"], "; ".join(first["why"]),
                json.dumps(first.get("minimised") or {"got": first["got_text"], "expected": first["expected_text"]})[:1500]))
        if f3:
            ctx.violation("matrix_oracle.json", {
                "what": "`staticcheck -matrix` (or -merge of real -f binary runs) differs from the any/all merge of one run per build configuration",
                "how_to_replay": "recreate the files of module_dir_snapshot in a directory, then `printf '<stdin>' | staticcheck <args>` there "
                                 "(per-configuration runs: `echo '<config line>' | staticcheck -matrix -f binary ./... > run.bin`)",
                "count": len(f3), "failures": f3[:6],
            }, text="C12: %d -matrix observations differ from merging one run per configuration; first: %s, stdin=%r\n got %s\n expected %s" % (
                len(f3), f3[0]["what"], f3[0]["stdin"], f3[0]["got_text"][:8], f3[0]["expected_text"][:8]))
    elif diffs or not lean_ok:
        # violation search: the oracle already ran on everything above; add a collision-heavy batch
        extra = [gen_case(rng.fork("search%d" % i), 12) for i in range(150 if ctx.quick else 1500)]
        f4, d4, s4 = check_crafted(ctx, gob, sc, extra, rng.fork("searchv"), "search")
        if f4:
            first = f4[0]
            first["minimised"] = shrink(ctx, gob, sc, first)
            ctx.violation("merge_oracle.json", {"what": "found by violation search after a model/proof break", "how_to_replay": HOW,
                                                "count": len(f4), "failures": f4[:10], "lean": lean_broke},
                          text="C12: violation search found %d failing run sets" % len(f4))
        else:
            ctx.violation("correspondence.json", {
                "what": "the Lean model no longer corresponds to lintcmd's merge (or a proof no longer checks), but every explored run set satisfies the oracle",
                "model_vs_impl_diffs": (diffs + d4)[:10], "lean": lean_broke,
                "correspondence": "C12 merge stream (text+json projections); theorems " + ", ".join(THEOREMS),
            }, nofail=True)
    return vlib.finish(ctx, "proof")


META = {
    "level": "proof",
    "technique": "Lean 4 theorems over a model of runFromLintResult / mergeRuns / printDiagnostics' sort+dedup (all sorted permutations); "
                 "executable correspondence and an independent oracle on the real `staticcheck -merge` / `-matrix`",
    "text": "keep_any, keep_all, out_nodup, builds_exact, merge_comm, merge_idem are proved for all run lists and for every permutation sorted "
            "for the comparator; the model is tied to the code by feeding gob-crafted -f binary runs (permuted, repeated, concatenated, on stdin) "
            "to the real binary and comparing the printed problems and build names; real -matrix runs on generated tagged modules are compared "
            "with -merge of one -f binary run per configuration.",
    "note": "Trusted: Lean kernel, compiled c12driver, harness/cmd/c12gob (gob mirror types), this file's parsers; gob, sort.Slice, the linter "
            "that produces runs are modelled/assumed, not verified.",
    "design_ref": "DESIGN.md section 5, C12",
}
