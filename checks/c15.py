"""C15 — nilness facts are sound with respect to real executions.

Oracle (the heart): a seeded generator emits small type-correct Go functions with
pointer-like results in two packages (b imports a, so facts cross a package boundary).
The REAL nilness analysis and the REAL SA4023 run over them (harness/cmd/c15probe = real
lintcmd runner + nilness.Analysis + sa4023; and the real staticcheck binary for SA4023);
the SAME source is compiled with `go build` with a generated main that calls every
function on a vector of inputs (recover around each call) and prints, per result,
whether the outer value is nil and, for interfaces, whether the held value is nil.
Violation = NeverNil observed nil / AlwaysNil observed non-nil (outer and inner), or a
comparison SA4023 calls impossible that succeeds.

Tie X: the probe dumps the IR subset the Lean model of processBlock interprets; the
compiled Lean model (Verif/C15/Model.lean) recomputes every function's ValueNilness and
the result is compared with Result.Nilness of the real analysis.

Lean: Verif/C15/{Model,Sem,Theorems}.lean (transfer_sound per instruction kind,
merge_sound, normalize_sound, path/result soundness over post-fixpoints, sa4023_sound).
"""
import hashlib
import json
import os
import re

import vlib

# =========================================================================== types
# key -> (go syntax with {A} = package qualifier of package a, pointer-like, interface)
TYPES = {
    "int": ("int", False, False),
    "uintptr": ("uintptr", False, False),
    "bool": ("bool", False, False),
    "string": ("string", False, False),
    "pint": ("*int", True, False),
    "ppint": ("**int", True, False),
    "pt": ("*{A}T", True, False),
    "pe": ("*{A}E", True, False),
    "sl": ("[]int", True, False),
    "is": ("{A}IS", True, False),
    "bs": ("[]byte", True, False),
    "mp": ("map[int]*int", True, False),
    "ch": ("chan int", True, False),
    "fn": ("func() *int", True, False),
    "fv": ("func()", True, False),
    "nf": ("{A}F", True, False),
    "any": ("any", True, True),
    "err": ("error", True, True),
    "ii": ("{A}I", True, True),
    "up": ("unsafe.Pointer", True, False),
    "parr": ("*[2]int", True, False),
    "parr0": ("*[0]int", True, False),
    "pany": ("*any", True, False),
    "fe": ("func() error", True, False),
    "fa": ("func() any", True, False),
    "src": ("{A}Src", True, True),
}
PTRLIKE = [k for k, v in TYPES.items() if v[1]]
RESULT_TYPES = ["pint", "pint", "pt", "sl", "sl", "is", "bs", "mp", "ch", "fn", "fv", "nf", "any", "any", "any",
                "err", "err", "ii", "up", "up", "parr", "parr0", "pany", "ppint", "pe"]
PARAM_TYPES = ["pint", "pint", "pt", "pt", "sl", "sl", "is", "mp", "ch", "fn", "fv", "any", "any", "err", "ii", "up",
               "uintptr", "uintptr", "bool", "string", "parr", "pany", "pany", "ppint", "int", "pe", "bs", "fe", "fa", "src"]
COMPARABLE = ["pint", "pt", "ch", "up", "pe", "ppint", "pany"]
GLOBALS = [("GP", "pint"), ("GA", "any"), ("GE", "err"), ("GS", "sl"), ("GF", "fn"), ("GM", "mp"), ("GU", "up"), ("GI", "ii"),
           ("GFE", "fe"), ("GFA", "fa"), ("GSrc", "src"), ("GPE", "pe")]
# package-level variables that no input vector sets: never assigned (nil at run time) / assigned once in init()
FIXED_GLOBALS = {"pint": ["NP", "IP", "IQ"], "any": ["NA"], "err": ["NE", "IE"], "sl": ["NS"], "pe": ["NPE"]}
GLOBALS_BY_TYPE = {}
for _g, _t in GLOBALS:
    GLOBALS_BY_TYPE.setdefault(_t, []).append(_g)
for _t, _gs in FIXED_GLOBALS.items():
    GLOBALS_BY_TYPE.setdefault(_t, []).extend(_gs)


def gotype(t, pkg):
    return TYPES[t][0].replace("{A}", "" if pkg == "a" else "a.")


def q(name, pkg):
    """qualify a package-a level name for use in package pkg"""
    return name if pkg == "a" else "a." + name


PRELUDE_A = """package a

import "unsafe"

var _ unsafe.Pointer

type T struct {
	X int
	P *int
	S []int
	M map[int]*int
	I any
	E error
	F func() *int
	U unsafe.Pointer
	C chan int
}
type IS []int
type F func()
type E struct{ Code int }

func (e *E) Error() string { return "e" }
func (e *E) Get() *int     { return nil }

type I interface{ Get() *int }

func (t *T) Get() *int { return t.P }
func G0()              {}
func MkT(n int) T {
	if n > 0 {
		return T{P: new(int), I: 1, S: []int{1}}
	}
	return T{}
}
func MkArr(n int) [2]*int {
	if n > 0 {
		return [2]*int{new(int), nil}
	}
	return [2]*int{}
}
func MkNil() *int      { return nil }
func MkNew() *int      { return new(int) }

// dynamic-call targets: interface method sets and functions handed around as values
type Src interface {
	Next() error
	Val() any
	Ptr() *int
}
type NilSrc struct{}

func (NilSrc) Next() error { return (*E)(nil) }
func (NilSrc) Val() any    { return (*int)(nil) }
func (NilSrc) Ptr() *int   { return nil }

type OkSrc struct{ P *int }

func (s *OkSrc) Next() error {
	if s == nil || s.P == nil {
		return nil
	}
	return &E{}
}
func (s *OkSrc) Val() any {
	if s == nil {
		return nil
	}
	return s.P
}
func (s *OkSrc) Ptr() *int { return s.P }

func TypedNilErr() error { return (*E)(nil) }
func NilErr() error      { return nil }
func NewErr() error      { return &E{} }
func TypedNilAny() any   { return (*int)(nil) }
func NilAny() any        { return nil }
func NewAny() any        { return new(int) }

var GP *int
var GA any
var GE error
var GS []int
var GF func() *int
var GM map[int]*int
var GU unsafe.Pointer
var GI I
var GFE func() error
var GFA func() any
var GSrc Src
var GPE *E

// never assigned: nil in every execution
var NP *int
var NA any
var NE error
var NS []int
var NPE *E

// assigned once, in init
var IP *int
var IQ *int
var IE error

func init() {
	IP = nil
	IQ = new(int)
	IE = (*E)(nil)
}
"""

PRELUDE_B = """package b

import (
	"unsafe"

	"example.com/m/a"
)

var _ unsafe.Pointer
var _ = a.G0
"""

# input pools (expressions valid in package main; fresh values per call)
INPUTS = {
    "int": ["0", "1", "2", "3", "7"],
    "uintptr": ["0", "8"],
    "bool": ["false", "true"],
    "string": ['""', '"ab"'],
    "pint": ["nil", "new(int)"],
    "ppint": ["nil", "new(*int)", "pp(new(int))"],
    "pt": ["nil", "&a.T{}", "fullT()", "typedNilT()"],
    "pe": ["nil", "&a.E{}"],
    "sl": ["nil", "[]int{}", "[]int{1, 2, 3}"],
    "is": ["nil", "a.IS{}", "a.IS{1, 2, 3}"],
    "bs": ["nil", "[]byte{}", "[]byte{1, 2}"],
    "mp": ["nil", "map[int]*int{}", "map[int]*int{1: new(int), 2: nil}"],
    "ch": ["nil", "make(chan int, 1)"],
    "fn": ["nil", "a.MkNil", "a.MkNew"],
    "fv": ["nil", "a.G0"],
    "nf": ["nil", "a.F(a.G0)"],
    "any": ["nil", "1", "(*int)(nil)", "new(int)", "new(int)", "(*int)(nil)", '"s"', "[]int(nil)", "[]int{1}", "&a.T{}", "(*a.T)(nil)", "(*a.E)(nil)",
            "&a.E{}", "a.G0", "map[int]*int(nil)", "fullT()", "error((*a.E)(nil))"],
    "err": ["nil", "(*a.E)(nil)", "&a.E{}"],
    "ii": ["nil", "(*a.T)(nil)", "&a.T{}", "fullT()", "(*a.E)(nil)", "&a.E{}"],
    "up": ["nil", "unsafe.Pointer(new(int))"],
    "parr": ["nil", "new([2]int)"],
    "parr0": ["nil", "new([0]int)"],
    "fe": ["nil", "a.TypedNilErr", "a.NewErr", "a.NilErr", "func() error { return (*a.E)(nil) }", "a.NilSrc{}.Next", "(&a.OkSrc{P: new(int)}).Next"],
    "fa": ["nil", "a.TypedNilAny", "a.NewAny", "a.NilAny", "func() any { return (*a.T)(nil) }", "a.NilSrc{}.Val"],
    "src": ["nil", "a.NilSrc{}", "&a.OkSrc{P: new(int)}", "&a.OkSrc{}", "(*a.OkSrc)(nil)"],
    "pany": ["nil", "new(any)", "anyp(1)", "anyp((*int)(nil))", "anyp(new(int))", "anyp(&a.E{})", "anyp((*a.E)(nil))", "anyp([]int{1})"],
}

MAIN_PRELUDE = """package main

import (
	"fmt"
	"os"
	"reflect"
	"strings"
	"unsafe"

	"example.com/m/a"
	"example.com/m/b"
)

var _ unsafe.Pointer
var _ = a.G0
var _ = b.BInit

func pp(p *int) **int { return &p }
func anyp(x any) *any { return &x }
func fullT() *a.T {
	return &a.T{X: 1, P: new(int), S: []int{1, 2, 3}, M: map[int]*int{1: new(int)}, I: new(int), E: &a.E{}, F: a.MkNew, U: unsafe.Pointer(new(int)), C: make(chan int, 1)}
}
func typedNilT() *a.T {
	return &a.T{I: (*int)(nil), E: (*a.E)(nil), F: a.MkNil}
}

// o: outer nil-ness of a non-interface pointer-like result
func o(isNil bool) string {
	if isNil {
		return "N"
	}
	return "V"
}

// ia: nil-ness of an interface result: N | Vn (holds a nil value) | Vv
func ia(x any) string {
	if x == nil {
		return "N"
	}
	v := reflect.ValueOf(x)
	switch v.Kind() {
	case reflect.Pointer, reflect.Slice, reflect.Map, reflect.Chan, reflect.Func, reflect.UnsafePointer:
		if v.IsNil() {
			return "Vn"
		}
	}
	return "Vv"
}

func bs(x bool) string {
	if x {
		return "T"
	}
	return "F"
}

var skip = map[string]bool{}

func run(name string, tab []func() string) {
	if skip[name] {
		return
	}
	for i, f := range tab {
		func() {
			defer func() {
				if r := recover(); r != nil {
					fmt.Printf("R %s %d P\\n", name, i)
				}
			}()
			fmt.Printf("B %s %d\\n", name, i)
			s := f()
			fmt.Printf("R %s %d %s\\n", name, i, s)
		}()
	}
}

func main() {
	for _, s := range strings.Split(os.Getenv("C15_SKIP"), ",") {
		skip[s] = true
	}
	runAll()
}
"""


# =========================================================================== generator
class Func:
    def __init__(self, name, pkg, params, results, named, method):
        self.name = name          # e.g. F12 or Md3
        self.pkg = pkg
        self.params = params      # [(name, type)] ; params[0] = ("n","int"); for methods params[1] = ("t","pt") is the receiver
        self.results = results    # [type]
        self.named = named
        self.method = method
        self.text = ""
        self.callees = set()
        self.cost = 1
        self.feats = set()
        self.corpus = False
        self.shape = None         # control-flow template the function was built from (None: random grammar)
        self.grid = False         # member of the merge grid

    @property
    def key(self):
        return ("T." if self.method else "") + self.name

    @property
    def qname(self):
        return self.pkg + "." + self.key

    def call(self, pkg, args):
        """call expression from package pkg with argument expressions args (in params order)"""
        if self.method:
            return "%s.%s(%s)" % (args[1], self.name, ", ".join([args[0]] + args[2:]))
        pre = "" if pkg == self.pkg else self.pkg + "."
        return "%s%s(%s)" % (pre, self.name, ", ".join(args))


COST_LIMIT = 3000


class Gen:
    def __init__(self, rng, funcs, pkg, idx, allow_forward=None):
        self.r = rng
        self.funcs = funcs        # callable earlier functions
        self.pkg = pkg
        self.idx = idx
        self.scopes = []
        self.counter = 0
        self.mult = 1
        self.loop_depth = 0
        self.f = None
        self.forward = allow_forward  # Func that may be called although generated later (mutual recursion)
        self.nonil = 0
        self.risk = 2 + rng.below(4)  # budget of operations that panic on nil / wrong dynamic type

    # ---- scopes
    def push(self):
        self.scopes.append({})

    def pop(self):
        self.scopes.pop()

    def declare(self, name, t, assignable=True):
        self.scopes[-1].setdefault(t, []).append((name, assignable))

    def vars_of(self, t, assignable=False):
        out = []
        for sc in self.scopes:
            for (n, a) in sc.get(t, []):
                if a or not assignable:
                    out.append(n)
        return out

    def fresh(self, p="v"):
        self.counter += 1
        return "%s%d" % (p, self.counter)

    def ty(self, t):
        return gotype(t, self.pkg)

    def q(self, name):
        return q(name, self.pkg)

    def feat(self, s):
        self.f.feats.add(s)

    # ---- expressions
    def nil_of(self, t, bare=False):
        if bare:
            return "nil"
        return "(%s)(nil)" % self.ty(t) if t not in ("any", "err", "ii", "up", "sl", "is", "nf", "bs", "src") else "%s(nil)" % self.ty(t)

    def callable_with_result(self, t):
        out = []
        cands = list(self.funcs)
        if self.forward is not None:
            cands.append(self.forward)
        for g in cands:
            if len(g.results) == 1 and g.results[0] == t and (self.pkg == "b" or g.pkg == "a"):
                out.append(g)
        return out

    def gen_call(self, g, d):
        """call expression to g, or None if the cost budget does not allow it"""
        extra = g.cost * self.mult
        if g is self.forward:
            extra = 50 * self.mult
        if self.f.cost + extra > COST_LIMIT:
            return None
        args = []
        for i, (pn, pt) in enumerate(g.params):
            if i == 0:
                if g is self.forward:
                    args.append("n-1")
                else:
                    args.append(self.r.choice(["n", "0", "1", "2"]))
            else:
                args.append(self.expr(pt, d + 1))
        self.f.cost += extra
        self.f.callees.add(g.qname)
        self.feat("call-cross" if g.pkg != self.pkg else "call-local")
        if g.method:
            self.feat("call-method")
        return g.call(self.pkg, args)

    def expr(self, t, d=0, bare=False):
        e = self.expr0(t, d, bare)
        if d > 0 and not re.match(r"^[A-Za-z_][\w.]*$", e) and e != "nil":
            return "(" + e + ")"
        return e

    def expr0(self, t, d=0, bare=False):
        """a Go expression of type t (typed unless bare=True allows an untyped nil)"""
        r = self.r
        vs = self.vars_of(t)
        if t in TYPES and TYPES[t][1]:
            # prefer variables as depth grows
            if vs and r.chance(2 + 2 * d, 8):
                return r.choice(vs)
            if d >= 2:
                if vs:
                    return r.choice(vs)
                return self.leaf(t, bare)
            if r.chance(1, 8) and not self.nonil:
                self.feat("nil-const")
                return self.nil_of(t, bare)
            if r.chance(1, 9):
                cs = self.callable_with_result(t)
                if cs:
                    c = self.gen_call(r.choice(cs), d)
                    if c:
                        return c
            prods = getattr(self, "e_" + t)(d)
            if self.risk <= 0:
                safe = [p for p in prods if not p.risky]
                if safe:
                    prods = safe
                elif vs:
                    return r.choice(vs)
                else:
                    return self.leaf(t, bare)
            return r.choice(prods)()
        # non pointer-like
        if t == "int":
            opts = ["0", "1", "2", "n"]
            if vs:
                opts += vs * 2
            if d < 3 and self.risk > 0:
                k = r.below(16)
                if k <= 2 or k == 6:
                    self.risk -= 1
                    self.nonil += 1
                    try:
                        return {0: "*" + self.expr("pint", d + 1), 1: self.expr("pt", d + 1) + ".X",
                                2: self.expr("sl", d + 1) + "[0]", 6: self.expr("parr", d + 1) + "[1]"}[k]
                    finally:
                        self.nonil -= 1
                if k == 0:
                    self.feat("deref")
                    return "*" + self.expr("pint", d + 1)
                if k == 1:
                    self.feat("fieldaddr-load")
                    return self.expr("pt", d + 1) + ".X"
                if k == 2:
                    self.feat("index-slice")
                    return self.expr("sl", d + 1) + "[0]"
                if k == 3:
                    return "len(%s)" % self.expr("sl", d + 1)
                if k == 4:
                    return "len(%s)" % self.expr("mp", d + 1)
                if k == 5:
                    return "n-1"
                if k == 6:
                    self.feat("index-parr")
                    return self.expr("parr", d + 1) + "[1]"
            return r.choice(opts)
        if t == "uintptr":
            opts = ["uintptr(0)", "uintptr(8)"] + vs * 3
            if d < 3 and r.chance(1, 4):
                return "uintptr(%s)" % self.expr("up", d + 1)
            return r.choice(opts)
        if t == "bool":
            return self.cond(d)
        if t == "string":
            return r.choice(['""', '"ab"'] + vs * 3)
        raise AssertionError(t)

    def leaf(self, t, bare):
        leaves = {
            "pint": "new(int)", "ppint": "new(*int)", "pt": "&%s{}" % self.q("T"), "pe": "&%s{}" % self.q("E"),
            "sl": "[]int{1}", "is": "%s{1}" % self.q("IS"), "bs": "[]byte{1}", "mp": "map[int]*int{}",
            "ch": "make(chan int, 1)", "fn": self.q("MkNew"), "fv": self.q("G0"), "nf": "%s(%s)" % (self.q("F"), self.q("G0")),
            "any": "any(1)", "err": "error(&%s{})" % self.q("E"), "ii": "%s(&%s{})" % (self.q("I"), self.q("T")),
            "up": "unsafe.Pointer(new(int))", "parr": "new([2]int)", "parr0": "new([0]int)", "pany": "new(any)",
            "fe": self.q("NewErr"), "fa": self.q("NewAny"), "src": "%s(%s{})" % (self.q("Src"), self.q("NilSrc")),
        }
        if self.r.chance(1, 3) and not self.nonil:
            return self.nil_of(t, bare)
        return leaves[t]

    RISKY = {"fieldaddr", "indexaddr", "field-load", "load-pp", "typeassert", "typeassert-ii", "typeassert-err",
             "typeassert-iface", "call-dyn", "invoke", "static-method", "indexaddr-parr", "s2ap", "slice-nz", "slice-var",
             "slice-parr", "slice-parr0", "iface-method-value", "load-iface", "global-addr-load", "make-slice",
             "call-dyn-iface", "invoke-iface", "call-closure-iface"}

    def F(self, feat, fn):
        def g():
            self.feat(feat)
            if feat in self.RISKY:
                self.risk -= 1
                self.nonil += 1
                try:
                    return fn()
                finally:
                    self.nonil -= 1
            return fn()
        g.risky = feat in self.RISKY
        return g

    def holding(self, src, tgt, d):
        """an expression of interface type src that (mostly) holds a value of type tgt"""
        vs = self.vars_of(src)
        if vs and self.r.chance(1, 2):
            return self.r.choice(vs)
        return "(%s(%s))" % (self.ty(src), self.expr(tgt, d + 1))

    def e_pint(self, d):
        e, F = self.expr, self.F
        return [
            F("new", lambda: "new(int)"), F("new", lambda: "new(int)"),
            F("fieldaddr", lambda: "&%s.X" % e("pt", d + 1)),
            F("indexaddr", lambda: "&%s[0]" % e("sl", d + 1)),
            F("indexaddr", lambda: "&%s[n]" % e("sl", d + 1)),
            F("field-load", lambda: "%s.P" % e("pt", d + 1)),
            F("maplookup", lambda: "%s[1]" % e("mp", d + 1)),
            F("load-pp", lambda: "*%s" % e("ppint", d + 1)),
            F("conv-up-ptr", lambda: "(*int)(%s)" % e("up", d + 1)),
            F("conv-uintptr", lambda: "(*int)(unsafe.Pointer(%s))" % e("uintptr", d + 1)),
            F("typeassert", lambda: "%s.(*int)" % self.holding("any", "pint", d)),
            F("call-dyn", lambda: "%s()" % e("fn", d + 1)),
            F("invoke", lambda: "%s.Get()" % e("ii", d + 1)),
            F("static-method", lambda: "%s.Get()" % e("pt", d + 1)),
            F("indexaddr-parr", lambda: "&%s[1]" % e("parr", d + 1)),
            F("slicedata", lambda: "unsafe.SliceData(%s)" % e("sl", d + 1)),
            F("global-load", lambda: self.q(self.r.choice(GLOBALS_BY_TYPE["pint"]))),
            F("invoke", lambda: "%s.Ptr()" % e("src", d + 1)),
            F("global-addr-load", lambda: "*(&%s)" % self.q("GP")),
            F("field-value", lambda: "%s(n).P" % self.q("MkT")),
            F("index-value", lambda: "%s(n)[%s]" % (self.q("MkArr"), self.r.choice(["0", "1"]))),
        ]

    def e_ppint(self, d):
        e, F = self.expr, self.F
        return [F("new", lambda: "new(*int)"), F("fieldaddr", lambda: "&%s.P" % e("pt", d + 1)),
                F("global-addr", lambda: "&%s" % self.q("GP"))]

    def e_pt(self, d):
        e, F = self.expr, self.F
        return [
            F("complit-addr", lambda: "&%s{}" % self.q("T")),
            F("new", lambda: "new(%s)" % self.q("T")),
            F("complit-addr", lambda: "&%s{P: %s, I: %s}" % (self.q("T"), e("pint", d + 1), e("any", d + 1))),
            F("typeassert", lambda: "%s.(*%s)" % (self.holding("any", "pt", d), self.q("T"))),
            F("typeassert-ii", lambda: "%s.(*%s)" % (self.holding("ii", "pt", d), self.q("T"))),
        ]

    def e_pe(self, d):
        e, F = self.expr, self.F
        return [
            F("complit-addr", lambda: "&%s{}" % self.q("E")),
            F("typeassert-err", lambda: "%s.(*%s)" % (self.holding("err", "pe", d), self.q("E"))),
            F("typeassert", lambda: "%s.(*%s)" % (self.holding("any", "pe", d), self.q("E"))),
            F("global-load", lambda: self.q(self.r.choice(GLOBALS_BY_TYPE["pe"]))),
        ]

    def e_sl(self, d):
        e, F = self.expr, self.F
        return [
            F("slice-lit", lambda: "[]int{}"), F("slice-lit", lambda: "[]int{1, 2}"),
            F("make-slice", lambda: "make([]int, %s)" % e("int", d + 1)),
            F("make-slice", lambda: "make([]int, 0)"),
            F("slice-zero", lambda: "%s[:0]" % e("sl", d + 1)),
            F("slice-zero", lambda: "%s[0:0:0]" % e("sl", d + 1)),
            F("slice-zero", lambda: "%s[:]" % e("sl", d + 1)),
            F("slice-nz", lambda: "%s[1:]" % e("sl", d + 1)),
            F("slice-nz", lambda: "%s[:1]" % e("sl", d + 1)),
            F("slice-var", lambda: "%s[n:]" % e("sl", d + 1)),
            F("slice-var", lambda: "%s[:n]" % e("sl", d + 1)),
            F("append", lambda: "append(%s, 1)" % e("sl", d + 1)),
            F("append-none", lambda: "append(%s)" % e("sl", d + 1)),
            F("append-spread", lambda: "append(%s, %s...)" % (e("sl", d + 1), e("sl", d + 1))),
            F("conv-named-slice", lambda: "[]int(%s)" % e("is", d + 1)),
            F("slice-parr", lambda: "%s[:]" % e("parr", d + 1)),
            F("slice-parr", lambda: "%s[:0]" % e("parr", d + 1)),
            F("slice-parr", lambda: "%s[1:]" % e("parr", d + 1)),
            F("slice-parr0", lambda: "%s[:]" % e("parr0", d + 1)),
            F("field-load", lambda: "%s.S" % e("pt", d + 1)),
            F("unsafe-slice", lambda: "unsafe.Slice(%s, 0)" % e("pint", d + 1)),
            F("unsafe-slice", lambda: "unsafe.Slice(%s, 1)" % e("pint", d + 1)),
            F("typeassert", lambda: "%s.([]int)" % self.holding("any", "sl", d)),
            F("field-value", lambda: "%s(n).S" % self.q("MkT")),
            F("global-load", lambda: self.q(self.r.choice(GLOBALS_BY_TYPE["sl"]))),
        ]

    def e_is(self, d):
        e, F = self.expr, self.F
        return [F("conv-named-slice", lambda: "%s(%s)" % (self.q("IS"), e("sl", d + 1))),
                F("slice-lit", lambda: "%s{}" % self.q("IS")),
                F("slice-zero", lambda: "%s[:0]" % e("is", d + 1)),
                F("append", lambda: "append(%s, 1)" % e("is", d + 1))]

    def e_bs(self, d):
        e, F = self.expr, self.F
        return [F("conv-string-bytes", lambda: "[]byte(%s)" % e("string", d + 1)),
                F("conv-string-bytes", lambda: '[]byte("")'),
                F("append-string", lambda: "append([]byte(nil), %s...)" % e("string", d + 1)),
                F("append-string", lambda: "append(%s, %s...)" % (e("bs", d + 1), e("string", d + 1))),
                F("slice-zero", lambda: "%s[:0]" % e("bs", d + 1))]

    def e_mp(self, d):
        e, F = self.expr, self.F
        return [F("map-lit", lambda: "map[int]*int{}"), F("make-map", lambda: "make(map[int]*int)"),
                F("map-lit", lambda: "map[int]*int{1: %s}" % e("pint", d + 1)),
                F("field-load", lambda: "%s.M" % e("pt", d + 1)),
                F("global-load", lambda: self.q("GM"))]

    def e_ch(self, d):
        e, F = self.expr, self.F
        return [F("make-chan", lambda: "make(chan int)"), F("make-chan", lambda: "make(chan int, 1)"),
                F("field-load", lambda: "%s.C" % e("pt", d + 1))]

    def e_fn(self, d):
        e, F = self.expr, self.F
        return [
            F("closure", lambda: "func() *int { return %s }" % e("pint", 3)),
            F("method-value", lambda: "%s.Get" % e("pt", d + 1)),
            F("iface-method-value", lambda: "%s.Get" % e("ii", d + 1)),
            F("field-load", lambda: "%s.F" % e("pt", d + 1)),
            F("func-value", lambda: self.q("MkNew")), F("func-value", lambda: self.q("MkNil")),
            F("global-load", lambda: self.q("GF")),
        ]

    def e_fv(self, d):
        e, F = self.expr, self.F
        return [F("func-value", lambda: self.q("G0")), F("closure", lambda: "func() {}"),
                F("conv-func", lambda: "(func())(%s)" % e("nf", d + 1))]

    def e_nf(self, d):
        e, F = self.expr, self.F
        return [F("conv-func", lambda: "%s(%s)" % (self.q("F"), self.q("G0"))),
                F("conv-func", lambda: "%s(%s)" % (self.q("F"), e("fv", d + 1)))]

    def e_any(self, d):
        e, F = self.expr, self.F
        return [
            F("makeiface-ptr", lambda: "any(%s)" % e("pint", d + 1)),
            F("makeiface-ptr", lambda: "any(%s)" % e("pt", d + 1)),
            F("makeiface-slice", lambda: "any(%s)" % e("sl", d + 1)),
            F("makeiface-scalar", lambda: "any(%s)" % e("int", d + 1)),
            F("makeiface-func", lambda: "any(%s)" % e("fv", d + 1)),
            F("makeiface-up", lambda: "any(%s)" % e("up", d + 1)),
            F("changeiface", lambda: "any(%s)" % e("err", d + 1)),
            F("changeiface", lambda: "any(%s)" % e("ii", d + 1)),
            F("field-load", lambda: "%s.I" % e("pt", d + 1)),
            F("load-iface", lambda: "*%s" % e("pany", d + 1)),
            F("load-iface", lambda: "*%s" % e("pany", d + 1)),
            F("global-load", lambda: self.q(self.r.choice(GLOBALS_BY_TYPE["any"]))),
            F("call-dyn-iface", lambda: "%s()" % e("fa", d + 1)),
            F("invoke-iface", lambda: "%s.Val()" % e("src", d + 1)),
            F("call-closure-iface", lambda: "func() any { return %s }()" % e("any", 3)),
            F("field-value", lambda: "%s(n).I" % self.q("MkT")),
            F("recover", lambda: "recover()"),
        ]

    def e_err(self, d):
        e, F = self.expr, self.F
        return [
            F("makeiface-ptr", lambda: "error(%s)" % e("pe", d + 1)),
            F("makeiface-typednil", lambda: "error((*%s)(nil))" % self.q("E")),
            F("typeassert-iface", lambda: "%s.(error)" % self.holding("any", "pe", d)),
            F("field-load", lambda: "%s.E" % e("pt", d + 1)),
            F("global-load", lambda: self.q(self.r.choice(GLOBALS_BY_TYPE["err"]))),
            F("call-dyn-iface", lambda: "%s()" % e("fe", d + 1)),
            F("call-dyn-iface", lambda: "%s()" % e("fe", d + 1)),
            F("invoke-iface", lambda: "%s.Next()" % e("src", d + 1)),
            F("call-closure-iface", lambda: "func() error { return %s }()" % e("err", 3)),
        ]

    def e_ii(self, d):
        e, F = self.expr, self.F
        return [
            F("makeiface-ptr", lambda: "%s(%s)" % (self.q("I"), e("pt", d + 1))),
            F("makeiface-ptr", lambda: "%s(%s)" % (self.q("I"), e("pe", d + 1))),
            F("typeassert-iface", lambda: "%s.(%s)" % (self.holding("any", "pt", d), self.q("I"))),
            F("typeassert-iface", lambda: "%s.(%s)" % (self.holding("err", "pe", d), self.q("I"))),
            F("global-load", lambda: self.q("GI")),
        ]

    def e_fe(self, d):
        e, F = self.expr, self.F
        return [
            F("func-value", lambda: self.q("TypedNilErr")), F("func-value", lambda: self.q("NewErr")),
            F("func-value", lambda: self.q("NilErr")),
            F("closure", lambda: "func() error { return %s }" % e("err", 3)),
            F("closure", lambda: "func() error { return (*%s)(nil) }" % self.q("E")),
            F("iface-method-value", lambda: "%s.Next" % e("src", d + 1)),
            F("method-value", lambda: "%s{}.Next" % self.q("NilSrc")),
            F("global-load", lambda: self.q("GFE")),
        ]

    def e_fa(self, d):
        e, F = self.expr, self.F
        return [
            F("func-value", lambda: self.q("TypedNilAny")), F("func-value", lambda: self.q("NewAny")),
            F("func-value", lambda: self.q("NilAny")),
            F("closure", lambda: "func() any { return %s }" % e("any", 3)),
            F("iface-method-value", lambda: "%s.Val" % e("src", d + 1)),
            F("method-value", lambda: "(&%s{P: %s}).Val" % (self.q("OkSrc"), e("pint", d + 1))),
            F("global-load", lambda: self.q("GFA")),
        ]

    def e_src(self, d):
        e, F = self.expr, self.F
        return [
            F("makeiface-struct", lambda: "%s(%s{})" % (self.q("Src"), self.q("NilSrc"))),
            F("makeiface-ptr", lambda: "%s(&%s{P: %s})" % (self.q("Src"), self.q("OkSrc"), e("pint", d + 1))),
            F("makeiface-ptr", lambda: "%s(&%s{})" % (self.q("Src"), self.q("OkSrc"))),
            F("global-load", lambda: self.q("GSrc")),
        ]

    def e_up(self, d):
        e, F = self.expr, self.F
        return [
            F("conv-ptr-up", lambda: "unsafe.Pointer(%s)" % e("pint", d + 1)),
            F("conv-ptr-up", lambda: "unsafe.Pointer(%s)" % e("pt", d + 1)),
            F("conv-uintptr", lambda: "unsafe.Pointer(%s)" % e("uintptr", d + 1)),
            F("conv-uintptr", lambda: "unsafe.Pointer(%s)" % e("uintptr", d + 1)),
            F("conv-const-up", lambda: "unsafe.Pointer(uintptr(0))"),
            F("conv-const-up", lambda: "unsafe.Pointer(uintptr(8))"),
            F("unsafe-add", lambda: "unsafe.Add(%s, 0)" % e("up", d + 1)),
            F("unsafe-add", lambda: "unsafe.Add(unsafe.Pointer(nil), n)"),
            F("field-load", lambda: "%s.U" % e("pt", d + 1)),
            F("global-load", lambda: self.q("GU")),
        ]

    def e_parr(self, d):
        e, F = self.expr, self.F
        return [F("new", lambda: "new([2]int)"), F("complit-addr", lambda: "&[2]int{}"),
                F("s2ap", lambda: "(*[2]int)(%s)" % e("sl", d + 1))]

    def e_parr0(self, d):
        e, F = self.expr, self.F
        return [F("new", lambda: "new([0]int)"), F("s2ap0", lambda: "(*[0]int)(%s)" % e("sl", d + 1))]

    def e_pany(self, d):
        e, F = self.expr, self.F
        return [F("new", lambda: "new(any)"), F("fieldaddr", lambda: "&%s.I" % e("pt", d + 1)),
                F("global-addr", lambda: "&%s" % self.q("GA"))]

    def cond(self, d=0):
        r = self.r
        k = r.below(10)
        ptrvars = [(t, v) for t in PTRLIKE for v in self.vars_of(t)]
        if k <= 4 and ptrvars:
            t, v = r.choice(ptrvars)
            self.feat("nilcheck")
            return r.choice(["%s == nil", "%s != nil", "nil == %s", "nil != %s"]) % v
        if k == 5:
            t = r.choice(PTRLIKE)
            self.feat("nilcheck-expr")
            return "%s %s nil" % (self.expr(t, d + 2), r.choice(["==", "!="]))
        if k == 6:
            t = r.choice(COMPARABLE)
            return "%s %s %s" % (self.expr(t, d + 2), r.choice(["==", "!="]), self.expr(t, d + 2))
        if k == 7:
            bv = self.vars_of("bool")
            if bv:
                return r.choice(bv)
        return r.choice(["n > 0", "n == 0", "n > 1", "%s > 0" % self.expr("int", d + 2)])

    # ---- statements
    def block(self, depth, out, ind, nstmts):
        """emit up to nstmts statements; returns True if the block ended with a terminating statement"""
        self.push()
        try:
            for _ in range(nstmts):
                if self.stmt(depth, out, ind):
                    return True
            return False
        finally:
            self.pop()

    def ret_stmt(self):
        f = self.f
        if f.named and self.r.chance(1, 3):
            self.feat("bare-return")
            return "return"
        return "return " + ", ".join(self.expr(t, 0 if i == 0 else 1, bare=True) for i, t in enumerate(f.results))

    def stmt(self, depth, out, ind):
        r = self.r
        k = r.below(100)
        if k < 22:      # declaration
            t = r.choice(PTRLIKE + ["int", "uintptr"])
            v = self.fresh()
            out.append("%s%s := %s" % (ind, v, self.expr(t)))
            out.append("%s_ = %s" % (ind, v))
            self.declare(v, t)
            return False
        if k < 34:      # assignment
            cands = [(t, v) for t in PTRLIKE for v in self.vars_of(t, assignable=True)]
            if not cands:
                return False
            t, v = r.choice(cands)
            self.feat("assign")
            out.append("%s%s = %s" % (ind, v, self.expr(t, bare=True)))
            return False
        if k < 46:      # uses that imply non-nil operands
            if self.risk <= 0:
                return False
            self.risk -= 1
            self.nonil += 1
            try:
                return self.use_stmt(out, ind)
            finally:
                self.nonil -= 1
        if False:
            u = r.below(9)
            if u == 0:
                self.feat("deref")
                out.append("%s_ = *%s" % (ind, self.expr("pint", 1)))
            elif u == 1:
                self.feat("store")
                out.append("%s*%s = 1" % (ind, self.expr("pint", 1)))
            elif u == 2:
                self.feat("index-slice")
                out.append("%s_ = %s[0]" % (ind, self.expr("sl", 1)))
            elif u == 3:
                self.feat("mapupdate")
                out.append("%s%s[1] = %s" % (ind, self.expr("mp", 1), self.expr("pint", 1, bare=True)))
            elif u == 4:
                self.feat("fieldaddr-load")
                out.append("%s_ = %s.X" % (ind, self.expr("pt", 1)))
            elif u == 5:
                self.feat("field-store")
                out.append("%s%s.P = %s" % (ind, self.expr("pt", 1), self.expr("pint", 1, bare=True)))
            elif u == 6:
                self.feat("call-dyn")
                out.append("%s%s()" % (ind, self.expr("fv", 1)))
            elif u == 7:
                self.feat("store-iface")
                out.append("%s*%s = %s" % (ind, self.expr("pany", 1), self.expr("any", 1, bare=True)))
            else:
                self.feat("select-default")
                ch = self.expr("ch", 1)
                if r.chance(1, 2):
                    out.append("%sselect {\n%scase %s <- 1:\n%sdefault:\n%s}" % (ind, ind, ch, ind, ind))
                else:
                    out.append("%sselect {\n%scase <-%s:\n%sdefault:\n%s}" % (ind, ind, ch, ind, ind))
            return False
        if k < 62 and depth < 3:      # if / else
            self.feat("if")
            out.append("%sif %s {" % (ind, self.cond()))
            t1 = self.block(depth + 1, out, ind + "\t", 1 + r.below(3))
            if r.chance(1, 2):
                out.append("%s} else {" % ind)
                t2 = self.block(depth + 1, out, ind + "\t", 1 + r.below(3))
                out.append("%s}" % ind)
                return t1 and t2
            out.append("%s}" % ind)
            return False
        if k < 70 and depth < 2 and self.loop_depth < 2:     # loops
            self.loop_depth += 1
            old = self.mult
            self.mult *= 3
            kind = r.below(4)
            if kind <= 1:
                self.feat("for-n")
                i = self.fresh("i")
                out.append("%sfor %s := 0; %s < n; %s++ {" % (ind, i, i, i))
                self.push()
                self.declare(i, "int", assignable=False)
                self.block(depth + 1, out, ind + "\t", 1 + r.below(3))
                self.pop()
            elif kind == 2:
                self.feat("range-slice")
                v = self.fresh()
                out.append("%sfor _, %s := range %s {" % (ind, v, self.expr("sl", 1)))
                out.append("%s\t_ = %s" % (ind, v))
                self.push()
                self.declare(v, "int", assignable=False)
                self.block(depth + 1, out, ind + "\t", 1 + r.below(2))
                self.pop()
            else:
                self.feat("range-map")
                v = self.fresh()
                out.append("%sfor _, %s := range %s {" % (ind, v, self.expr("mp", 1)))
                out.append("%s\t_ = %s" % (ind, v))
                self.push()
                self.declare(v, "pint")
                self.block(depth + 1, out, ind + "\t", 1 + r.below(2))
                self.pop()
            out.append("%s}" % ind)
            self.mult = old
            self.loop_depth -= 1
            return False
        if k < 78 and depth < 3:      # type switch
            return self.typeswitch(depth, out, ind)
        if k < 84:      # comma-ok forms
            u = r.below(3)
            v, ok = self.fresh(), self.fresh("ok")
            if u == 0:
                src = r.choice(["any", "any", "err", "ii"])
                tgt = r.choice({"any": ["pint", "pt", "sl", "err", "ii", "pe", "mp", "fv"], "err": ["pe", "ii"], "ii": ["pt", "pe", "err"]}[src])
                self.feat("typeassert-commaok")
                out.append("%s%s, %s := %s.(%s)" % (ind, v, ok, self.expr(src, 1), self.ty(tgt)))
                self.declare(v, tgt)
            elif u == 1:
                self.feat("maplookup-commaok")
                out.append("%s%s, %s := %s[1]" % (ind, v, ok, self.expr("mp", 1)))
                self.declare(v, "pint")
            else:
                self.feat("typeassert-commaok")
                out.append("%s%s, %s := %s.(*int)" % (ind, v, ok, self.expr("any", 1)))
                self.declare(v, "pint")
            out.append("%s_, _ = %s, %s" % (ind, v, ok))
            self.declare(ok, "bool")
            return False
        if k < 88:      # multi-result call
            cands = [g for g in self.funcs if len(g.results) > 1 and (self.pkg == "b" or g.pkg == "a")]
            if not cands:
                return False
            g = r.choice(cands)
            c = self.gen_call(g, 1)
            if not c:
                return False
            self.feat("call-multi")
            names = [self.fresh() for _ in g.results]
            out.append("%s%s := %s" % (ind, ", ".join(names), c))
            out.append("%s%s = %s" % (ind, ", ".join("_" for _ in names), ", ".join(names)))
            for nm, t in zip(names, g.results):
                self.declare(nm, t)
            return False
        if k < 91 and depth > 0:      # panic
            self.feat("panic")
            out.append('%spanic("x")' % ind)
            return True
        if k < 93 and self.loop_depth > 0:
            out.append("%s%s" % (ind, r.choice(["break", "continue"])))
            self.feat("break-continue")
            return True
        if k < 100 and depth > 0:     # early return
            self.feat("early-return" + ("-loop" if self.loop_depth else ""))
            out.append(ind + self.ret_stmt())
            return True
        return False

    def use_stmt(self, out, ind):
        r = self.r
        u = r.below(11)
        if u == 9:
            self.feat("s2a")
            out.append("%s_ = [2]int(%s)" % (ind, self.expr("sl", 1)))
            return False
        if u == 10:
            self.feat("s2a0")
            self.nonil -= 1
            try:
                out.append("%s_ = [0]int(%s)" % (ind, self.expr("sl", 1)))
            finally:
                self.nonil += 1
            return False
        if u == 0:
            self.feat("deref")
            out.append("%s_ = *%s" % (ind, self.expr("pint", 1)))
        elif u == 1:
            self.feat("store")
            out.append("%s*%s = 1" % (ind, self.expr("pint", 1)))
        elif u == 2:
            self.feat("index-slice")
            out.append("%s_ = %s[0]" % (ind, self.expr("sl", 1)))
        elif u == 3:
            self.feat("mapupdate")
            out.append("%s%s[1] = %s" % (ind, self.expr("mp", 1), self.expr("pint", 1, bare=True)))
        elif u == 4:
            self.feat("fieldaddr-load")
            out.append("%s_ = %s.X" % (ind, self.expr("pt", 1)))
        elif u == 5:
            self.feat("field-store")
            out.append("%s%s.P = %s" % (ind, self.expr("pt", 1), self.expr("pint", 1, bare=True)))
        elif u == 6:
            self.feat("call-dyn")
            out.append("%s%s()" % (ind, self.expr("fv", 1)))
        elif u == 7:
            self.feat("store-iface")
            out.append("%s*%s = %s" % (ind, self.expr("pany", 1), self.expr("any", 1, bare=True)))
        else:
            self.feat("select-default")
            ch = self.expr("ch", 1)
            if r.chance(1, 2):
                out.append("%sselect {\n%scase %s <- 1:\n%sdefault:\n%s}" % (ind, ind, ch, ind, ind))
            else:
                out.append("%sselect {\n%scase <-%s:\n%sdefault:\n%s}" % (ind, ind, ch, ind, ind))
        return False

    def typeswitch(self, depth, out, ind):
        r = self.r
        src = r.choice(["any", "any", "any", "err", "ii"])
        pool = {"any": ["nil", "pint", "pt", "sl", "err", "ii", "pe", "mp", "fv", "int", "multi", "up"],
                "err": ["nil", "pe", "ii"], "ii": ["nil", "pt", "pe", "err"]}[src]
        cases = r.shuffle(pool)[:1 + r.below(min(4, len(pool)))]
        y = self.fresh("y")
        self.feat("typeswitch")
        out.append("%sswitch %s := %s.(type) {" % (ind, y, self.expr(src, 1)))
        allterm = True
        for c in cases:
            if c == "nil":
                out.append("%scase nil:" % ind)
                yt = src
                self.feat("typeswitch-nilcase")
            elif c == "multi":
                out.append("%scase string, bool:" % ind)
                yt = src
                self.feat("typeswitch-multi")
            elif c == "int":
                out.append("%scase int:" % ind)
                yt = "int"
            else:
                out.append("%scase %s:" % (ind, self.ty(c)))
                yt = c
                if TYPES[c][2]:
                    self.feat("typeswitch-ifacecase")
            out.append("%s\t_ = %s" % (ind, y))
            self.push()
            self.declare(y, yt, assignable=False)
            t = self.block(depth + 1, out, ind + "\t", 1 + r.below(2))
            self.pop()
            allterm = allterm and t
        hasdef = r.chance(2, 3)
        if hasdef:
            self.feat("typeswitch-default")
            out.append("%sdefault:" % ind)
            out.append("%s\t_ = %s" % (ind, y))
            self.push()
            self.declare(y, src, assignable=False)
            t = self.block(depth + 1, out, ind + "\t", 1 + r.below(2))
            self.pop()
            allterm = allterm and t
        out.append("%s}" % ind)
        return hasdef and allterm

    # ---- shape functions: loops that carry pointer-like values, joins in both operand orders, dynamic calls
    SHAPE_TYPES = ["pint", "pint", "err", "err", "err", "any", "any", "pt", "sl", "mp", "ii", "fn", "pe", "up", "ch"]
    NONNIL = {"pint": "new(int)", "pt": "&{A}T{}", "pe": "&{A}E{}", "sl": "[]int{1}", "mp": "map[int]*int{}",
              "ch": "make(chan int, 1)", "fn": "{A}MkNew", "up": "unsafe.Pointer(new(int))",
              "any": "any(new(int))", "err": "error(&{A}E{})", "ii": "{A}I(&{A}T{})"}
    TYPEDNIL = {"any": ["any((*int)(nil))", "any((*{A}T)(nil))", "any([]int(nil))"], "err": ["error((*{A}E)(nil))"],
                "ii": ["{A}I((*{A}T)(nil))", "{A}I((*{A}E)(nil))"]}
    DYN = {"err": ["f0()", "s0.Next()", "{A}GFE()", "func() error { return p0 }()"],
           "any": ["f0()", "s0.Val()", "{A}GFA()", "func() any { return p0 }()"],
           "pint": ["f0()", "s0.Ptr()", "{A}GF()", "func() *int { return p0 }()"]}
    DYN_PARAM = {"err": "fe", "any": "fa", "pint": "fn"}
    LOOP_SHAPES = ["L1", "L1", "L1", "L2", "L2", "L3", "L4", "L5", "L6", "L7", "L8", "L9", "L10", "L11", "L12", "L12", "L13"]
    JOIN_SHAPES = ["J1", "J1", "J2", "J2", "J3", "J4", "J4", "J5", "J6"]

    def A(self, txt):
        return txt.replace("{A}", "" if self.pkg == "a" else "a.")

    def atom(self, t, cat=None):
        """a value source of type t: (expression, category)"""
        r = self.r
        cats = ["fresh", "fresh", "nil", "param", "param", "expr"]
        if t in GLOBALS_BY_TYPE:
            cats += ["global", "global"]
        if t in self.TYPEDNIL:
            cats += ["typednil", "typednil"]
        if t in self.DYN:
            cats += ["dyn", "dyn", "dyn"]
        if self.callable_with_result(t):
            cats += ["call", "call"]
        cat = cat or r.choice(cats)
        self.feat("atom-" + cat)
        if cat == "fresh":
            return self.A(self.NONNIL[t]), cat
        if cat == "nil":
            return self.nil_of(t), cat
        if cat == "param":
            return "p0", cat
        if cat == "global":
            return self.q(r.choice(GLOBALS_BY_TYPE[t])), cat
        if cat == "typednil":
            return self.A(r.choice(self.TYPEDNIL[t])), cat
        if cat == "dyn":
            return self.A(r.choice(self.DYN[t])), cat
        if cat == "call":
            c = self.gen_call(r.choice(self.callable_with_result(t)), 1)
            if c:
                return c, cat
            return self.A(self.NONNIL[t]), "fresh"
        old = self.risk
        self.risk = 0       # no operation that can panic: shape functions should return normally
        try:
            return self.expr(t, 1), cat
        finally:
            self.risk = old

    def shape_function(self, name, shape=None):
        """a function built from a fixed control-flow shape with random value sources"""
        r = self.r
        t = r.choice(self.SHAPE_TYPES)
        shape = shape or r.choice(self.LOOP_SHAPES * 2 + self.JOIN_SHAPES)
        params = [("n", "int"), ("c", "bool"), ("p0", t)]
        if t in self.DYN_PARAM:
            params += [("f0", self.DYN_PARAM[t]), ("s0", "src")]
        results = [t, t] if shape in ("J6", "L13") else [t]
        f = Func(name, self.pkg, params, results, False, False)
        f.shape = shape
        self.f = f
        self.push()
        for i, (pn, pt) in enumerate(params):
            self.declare(pn, pt, assignable=(i != 0))
        T = self.ty(t)
        a, b, c3 = self.atom(t)[0], self.atom(t)[0], self.atom(t)[0]
        cond = r.choice(["c", "!c", "n > 0", "n == 0", "n > 1", "p0 != nil", "p0 == nil"])
        L = []
        w = L.append
        self.feat("shape-" + shape)
        if shape == "L1":      # single-block self loop: every update comes before the exit test; previous value returned
            w("p := %s" % a); w("for {"); w("\tq := p"); w("\t_ = q"); w("\tp = %s" % b); w("\tn--")
            w("\tif n < 0 {"); w("\t\treturn %s" % r.choice(["q", "q", "p"])); w("\t}"); w("}")
        elif shape == "L2":    # two values swapped across iterations (parallel phis), self loop
            w("x, y := %s, %s" % (a, b)); w("for {"); w("\tx, y = y, x"); w("\tn--")
            w("\tif n < 0 {"); w("\t\treturn %s" % r.choice(["x", "y"])); w("\t}"); w("}")
        elif shape == "L3":    # three-way rotation
            w("x, y, z := %s, %s, %s" % (a, b, c3)); w("for i := 0; i < n; i++ {"); w("\tx, y, z = y, z, x"); w("}")
            w("_, _ = y, z"); w("return %s" % r.choice(["x", "y", "z"]))
        elif shape == "L4":    # counted loop, value replaced in the body
            w("p := %s" % a); w("for i := 0; i < n; i++ {"); w("\tp = %s" % b); w("}"); w("return p")
        elif shape == "L5":    # break out of the loop with a different value
            w("p := %s" % a); w("for i := 0; i < n; i++ {"); w("\tif i == 1 {"); w("\t\tp = %s" % b); w("\t\tbreak"); w("\t}")
            w("\tp = %s" % c3); w("}"); w("return p")
        elif shape == "L6":    # continue skips the update
            w("p := %s" % a); w("for i := 0; i < n; i++ {"); w("\tif i%2 == 0 {"); w("\t\tcontinue"); w("\t}")
            w("\tp = %s" % b); w("}"); w("return p")
        elif shape == "L7":    # nested loops, values carried through both
            w("p := %s" % a); w("for i := 0; i < n; i++ {"); w("\tq := p"); w("\tfor j := 0; j < i; j++ {")
            w("\t\tp = %s" % b); w("\t\tq, p = p, q"); w("\t}"); w("\tp = q"); w("}"); w("return p")
        elif shape == "L8":    # range loop carrying the last element out
            k = r.below(3)
            w("last := %s" % a)
            if k == 0:
                w("for _, v := range []%s{%s, %s} {" % (T, b, c3)); w("\tif n > 0 {"); w("\t\tlast = v"); w("\t}"); w("\tn--"); w("}")
            elif k == 1:
                w("for i := range n {"); w("\t_ = i"); w("\tlast = %s" % b); w("}")
            else:
                w("for _, v := range [2]%s{%s, %s} {" % (T, b, c3)); w("\tlast = v"); w("\tif n == 1 {"); w("\t\tbreak"); w("\t}"); w("}")
            w("return last")
        elif shape == "L9":    # loop built from goto
            w("p := %s" % a); w("var q %s" % T); w("loop:"); w("q = p"); w("_ = q"); w("p = %s" % b); w("n--")
            w("if n >= 0 {"); w("\tgoto loop"); w("}"); w("return %s" % r.choice(["q", "q", "p"]))
        elif shape == "L10":   # exit test first (separate latch block)
            w("p := %s" % a); w("for {"); w("\tn--"); w("\tif n < 0 {"); w("\t\treturn p"); w("\t}"); w("\tp = %s" % b); w("}")
        elif shape == "L11":   # self loop with the exit test on the carried value itself
            w("p := %s" % a); w("for {"); w("\tq := p"); w("\tp = %s" % b); w("\tn--")
            w("\tif n < 0 || q == nil {"); w("\t\treturn q"); w("\t}"); w("}")
        elif shape == "L12":   # self loop, value produced by a call in the loop, previous one returned
            cs = self.DYN.get(t)
            call = self.A(r.choice(cs)) if cs and r.chance(2, 3) else b
            w("var cur %s = %s" % (T, a)); w("for {"); w("\tlast := cur"); w("\tcur = %s" % call); w("\tn--")
            w("\tif n < 0 {"); w("\t\treturn last"); w("\t}"); w("}")
        elif shape == "L13":   # two results out of a self loop
            w("x, y := %s, %s" % (a, b)); w("for {"); w("\tx, y = y, %s" % c3); w("\tn--")
            w("\tif n < 0 {"); w("\t\treturn x, y"); w("\t}"); w("}")
        elif shape == "J1":    # two return statements: merged in block order
            w("if %s {" % cond); w("\treturn %s" % a); w("}"); w("return %s" % b)
        elif shape == "J2":    # phi, left operand = value before the if
            w("x := %s" % a); w("if %s {" % cond); w("\tx = %s" % b); w("}"); w("return x")
        elif shape == "J3":    # phi of two arms
            w("var x %s" % T); w("if %s {" % cond); w("\tx = %s" % a); w("} else {"); w("\tx = %s" % b); w("}"); w("return x")
        elif shape == "J4":    # replace nil by a default (merge after a nil check)
            w("x := %s" % a); w("if x %s nil {" % r.choice(["==", "==", "!="])); w("\tx = %s" % b); w("}"); w("return x")
        elif shape == "J5":    # three-way switch
            w("switch n {"); w("case 0:"); w("\treturn %s" % a); w("case 1:"); w("\treturn %s" % b); w("}"); w("return %s" % c3)
        elif shape == "J6":    # two results, crossed
            w("x, y := %s, %s" % (a, b)); w("if %s {" % cond); w("\tx, y = y, %s" % c3); w("}"); w("return x, y")
        else:
            raise AssertionError(shape)
        self.pop()
        f.text = self.header(f) + " {\n" + "\n".join("\t" + l if l != "loop:" else l for l in L) + "\n}\n"
        return f

    # ---- a whole function
    def function(self, name, method=False, recursive=False):
        r = self.r
        nres = r.choice([1, 1, 1, 1, 2, 2, 3])
        results = [r.choice(RESULT_TYPES) for _ in range(nres)]
        if nres > 1 and r.chance(1, 3):
            results[r.below(nres)] = "int"
            if all(not TYPES[t][1] for t in results):
                results[0] = "pint"
        params = [("n", "int")]
        if method:
            params.append(("t", "pt"))
        for i in range(r.below(4) + (0 if method else 1)):
            params.append(("p%d" % i, r.choice(PARAM_TYPES)))
        named = r.chance(1, 4)
        f = Func(name, self.pkg, params, results, named, method)
        self.f = f
        self.push()
        for i, (pn, pt) in enumerate(params):
            self.declare(pn, pt, assignable=(i != 0))
        if named:
            for i, t in enumerate(results):
                self.declare("r%d" % i, t)
        out = []
        if r.chance(1, 12):
            self.feat("defer-recover")
            out.append("\tdefer func() { recover() }()")
        if recursive:
            # guarded self recursion: n strictly decreases
            self.feat("recursion")
            args = ["n-1"] + [self.expr(pt, 2) for (_, pt) in params[1:]]
            names = [self.fresh() for _ in results]
            out.append("\tif n > 0 {")
            out.append("\t\t%s := %s" % (", ".join(names), f.call(self.pkg, args)))
            out.append("\t\t%s = %s" % (", ".join("_" for _ in names), ", ".join(names)))
            self.push()
            for nm, t in zip(names, results):
                self.declare(nm, t)
            f.cost *= 4
            self.block(1, out, "\t\t", 1 + r.below(2))
            if r.chance(1, 2):
                out.append("\t\treturn " + ", ".join(names))
            self.pop()
            out.append("\t}")
        self.block(0, out, "\t", 1 + r.below(4))
        out.append("\t" + self.ret_stmt())
        self.pop()
        f.text = self.header(f) + " {\n" + "\n".join(out) + "\n}\n"
        return f

    def header(self, f):
        ps = f.params[2:] if f.method else f.params[1:]
        plist = ", ".join(["n int"] + ["%s %s" % (pn, self.ty(pt)) for (pn, pt) in ps])
        if f.named:
            res = "(" + ", ".join("r%d %s" % (i, self.ty(t)) for i, t in enumerate(f.results)) + ")"
        elif len(f.results) == 1:
            res = self.ty(f.results[0])
        else:
            res = "(" + ", ".join(self.ty(t) for t in f.results) + ")"
        recv = "(t *T) " if f.method else ""
        return "func %s%s(%s) %s" % (recv, f.name, plist, res)


# =========================================================================== module assembly
def load_corpus():
    p = os.path.join(vlib.VERIF, "corpus", "C15", "corpus.json")
    if not os.path.exists(p):
        return []
    out = []
    for e in json.load(open(p)):
        f = Func(e["name"], e.get("pkg", "a"), [tuple(x) for x in e["params"]], e["results"], False, False)
        f.text = e["text"].rstrip("\n") + "\n"
        f.callees = set(e.get("callees", []))
        f.feats = set(["corpus"])
        f.corpus = True
        f.note = e.get("note", "")
        f.fixed_vectors = e.get("vectors", [])
        out.append(f)
    return out


def cycle_functions(r, funcs, pkg, idx):
    """a call cycle of 2-4 mutually recursive functions (plus, sometimes, chords inside the cycle);
    n strictly decreases along every call, so every execution terminates"""
    k = 2 + r.below(3)
    g = Gen(r, list(funcs), pkg, idx)
    t = r.choice(["pint", "pint", "err", "any", "pt", "sl", "ii"])
    T = g.ty(t)
    names = ["C%d_%d" % (idx, j) for j in range(k)]
    out = []
    for j in range(k):
        params = [("n", "int"), ("c", "bool"), ("p0", t)]
        if t in Gen.DYN_PARAM:
            params += [("f0", Gen.DYN_PARAM[t]), ("s0", "src")]
        f = Func(names[j], pkg, params, [t], False, False)
        f.shape = "cycle%d" % k
        g.f = f
        g.push()
        for i, (pn, pt) in enumerate(params):
            g.declare(pn, pt, assignable=(i != 0))
        args = ", ".join(["n-1"] + [pn for pn, _ in params[1:]])
        nxt = names[(j + 1) % k]
        base, alt = g.atom(t)[0], g.atom(t)[0]
        L = ["if n <= 0 {", "\treturn %s" % base, "}"]
        form = r.below(5)
        f.callees.add(pkg + "." + nxt)
        if form == 0:
            L += ["return %s(%s)" % (nxt, args)]
        elif form == 1:
            L += ["x := %s(%s)" % (nxt, args), "if x == nil {", "\treturn %s" % alt, "}", "return x"]
        elif form == 2:
            L += ["x := %s(%s)" % (nxt, args), "if c {", "\tx = %s" % alt, "}", "return x"]
        elif form == 3 and k > 2:
            other = names[(j + 2) % k]      # a chord: two different members of the cycle are called
            f.callees.add(pkg + "." + other)
            L += ["x := %s(%s)" % (other, args), "y := %s(%s)" % (nxt, args), "if c {", "\treturn x", "}", "return y"]
        else:
            L += ["x := %s" % alt, "for i := 0; i < 2; i++ {", "\tx = %s(%s)" % (nxt, args), "}", "return x"]
        g.pop()
        f.feats |= {"call-cycle-%d" % k, "shape-cycle", "recursion-mutual"}
        f.cost = 400
        f.text = g.header(f) + " {\n" + "\n".join("\t" + l for l in L) + "\n}\n"
        out.append(f)
    return out


def grid_functions():
    """the merge grid: for every ordered pair of the four non-identity nilness values a function that
    merges a value of the first kind with one of the second, in that operand order, (1) across return
    statements, (2) at a phi; for pointers (Outer) and for the value held by an interface (Inner).
    Always part of module m0 (never nil / always nil / nil only through a global / unknown)."""
    src_p = {"never": "new(int)", "always": "(*int)(nil)", "mglobal": "{G}", "maybe": "p0"}
    src_e = {"never": "error(&E{})", "always": "error(nil)", "mglobal": "{G}", "maybe": "p0"}
    src_i = {"never": "error(&E{})", "always": "error((*E)(nil))", "mglobal": "error({G})", "maybe": "p0"}
    out = []
    kinds = ["never", "always", "mglobal", "maybe"]
    for fam, t, srcs, gl in (("P", "pint", src_p, ["NP", "GP"]), ("E", "err", src_e, ["NE", "GE"]), ("I", "err", src_i, ["NPE", "GPE"])):
        for x in kinds:
            for y in kinds:
                for shape in ("r", "phi"):
                    if fam == "E" and shape == "phi":
                        continue
                    name = "G%s%s_%s_%s" % (fam, shape, x, y)
                    a = srcs[x].replace("{G}", gl[0])
                    b = srcs[y].replace("{G}", gl[1] if x == "mglobal" else gl[0])
                    f = Func(name, "a", [("n", "int"), ("c", "bool"), ("p0", t)], [t], False, False)
                    if shape == "r":
                        body = "\tif c {\n\t\treturn %s\n\t}\n\treturn %s\n" % (a, b)
                    else:
                        body = "\tx := %s\n\tif c {\n\t\tx = %s\n\t}\n\treturn x\n" % (b, a)
                        # the phi's first edge comes from the block of the assignment? either order is exercised by
                        # the mirrored pair (y, x) of the grid
                    f.text = "func %s(n int, c bool, p0 %s) %s {\n%s}\n" % (name, gotype(t, "a"), gotype(t, "a"), body)
                    f.feats = {"grid", "grid-" + fam + shape}
                    f.shape = "grid"
                    f.grid = True
                    out.append(f)
    return out


def gen_functions(seed, count, with_corpus=True):
    rng = vlib.SplitMix(seed).fork("c15-gen")
    funcs = (load_corpus() + grid_functions()) if with_corpus else []
    i = 0
    while i < count:
        r = rng.fork("f%d" % i)
        pkg = "a" if r.chance(1, 2) else "b"
        kind = r.below(100)
        if kind < 36:
            g = Gen(r, list(funcs), pkg, i)
            funcs.append(g.shape_function("S%d" % i))
            i += 1
            continue
        if kind < 44:
            cyc = cycle_functions(r, funcs, pkg, i)
            funcs += cyc
            i += len(cyc)
            continue
        method = pkg == "a" and r.chance(1, 8)
        g = Gen(r, list(funcs), pkg, i)
        name = ("Md%d" if method else "F%d") % i
        f = g.function(name, method=method, recursive=r.chance(1, 10))
        funcs.append(f)
        i += 1
    return funcs


def gen_gconfs(rng, n=8):
    """a small pool of settings of the package-level variables (keeps the generated main small)"""
    gpools = [INPUTS[t] for (_, t) in GLOBALS]
    confs = [[p[0] for p in gpools], [p[1 % len(p)] for p in gpools]]
    while len(confs) < n:
        c = [rng.choice(p) for p in gpools]
        if c not in confs:
            confs.append(c)
    return confs


def gen_vectors(f, rng, k, gconfs=None):
    """input vectors: list of (global settings, [arg expressions])"""
    vecs = []
    pools = [INPUTS[t] for (_, t) in f.params]
    gpools = [INPUTS[t] for (_, t) in GLOBALS]
    if gconfs is not None:
        for fv in getattr(f, "fixed_vectors", []):
            if isinstance(fv, dict):
                vecs.append((list(fv["globals"]), list(fv["args"])))
            else:
                vecs.append((gconfs[0], list(fv)))
        if getattr(f, "grid", False):
            # both branches, with every global nil (configuration 0) and with a random configuration
            for gc in (gconfs[0], gconfs[1]):
                for cb in ("false", "true"):
                    vecs.append((gc, ["0", cb] + [p[0] for p in pools[2:]]))
            return vecs
        shaped = getattr(f, "shape", None) is not None
        for j in range(k):
            if j == 0:
                v = (gconfs[0], [p[0] for p in pools])
            elif j == 1:
                v = (gconfs[1], [p[1 % len(p)] for p in pools])
            else:
                v = (rng.choice(gconfs), [rng.choice(p) for p in pools])
            if shaped:
                # loops / recursion: 0, 1, 2, 3, many iterations, each with nil-ish and random other inputs;
                # every second vector runs with all package-level variables nil
                ns = INPUTS["int"]
                v = (gconfs[0] if j % 2 == 0 else v[0], [ns[j % len(ns)]] + v[1][1:])
            if v not in vecs:
                vecs.append(v)
        return vecs
    for fv in getattr(f, "fixed_vectors", []):
        if isinstance(fv, dict):
            vecs.append((list(fv["globals"]), list(fv["args"])))
        else:
            vecs.append(([p[0] for p in gpools], list(fv)))
    # all-first (nil/zero), all-second, then random
    for j in range(k):
        if j == 0:
            args = [p[0] for p in pools]
            gl = [p[0] for p in gpools]
        elif j == 1:
            args = [p[1 % len(p)] for p in pools]
            gl = [p[1 % len(p)] for p in gpools]
        else:
            args = [rng.choice(p) for p in pools]
            gl = [rng.choice(p) for p in gpools]
        if (gl, args) not in vecs:
            vecs.append((gl, args))
    return vecs


def show_expr(t, e):
    if not TYPES[t][1]:
        return '"-"'
    if TYPES[t][2]:
        return "ia(%s)" % e
    return "o(%s == nil)" % e


def cmp_functions(f, pkg):
    """SA4023 probes: one comparison function per interface-typed result, in package pkg.
    Returns [(name, text(one line), result idx, op)]"""
    out = []
    for i, t in enumerate(f.results):
        if not TYPES[t][2]:
            continue
        for op in ("==", "!="):
            name = "Cmp%s_%s_%d_%s" % (f.pkg.upper(), f.name, i, "eq" if op == "==" else "ne")
            ps = f.params[2:] if f.method else f.params[1:]
            plist = ", ".join(["n int"] + (["t %s" % gotype("pt", pkg)] if f.method else []) +
                              ["%s %s" % (pn, gotype(pt, pkg)) for (pn, pt) in ps])
            call = f.call(pkg, [pn for (pn, _) in f.params])
            if len(f.results) == 1:
                body = "return %s %s nil" % (call, op)
            else:
                lhs = ", ".join("r" if j == i else "_" for j in range(len(f.results)))
                body = "%s := %s; return r %s nil" % (lhs, call, op)
            out.append((name, "func %s(%s) bool { %s }" % (name, plist, body), i, op))
    return out


class Module:
    """the generated module: sources, vectors, line map of the comparison probes"""

    def __init__(self, funcs, seed, nvec):
        self.funcs = funcs
        self.by_q = {f.qname: f for f in funcs}
        self.files = {}
        self.cmps = {}       # (file, line) -> (cmp name, func qname, result idx, op)
        self.cmp_by_name = {}
        self.vectors = {}    # qname -> vectors
        rng = vlib.SplitMix(seed).fork("c15-vec")
        self.gconfs = gen_gconfs(rng.fork("gconfs"))
        for f in funcs:
            self.vectors[f.qname] = gen_vectors(f, rng.fork(f.qname), nvec, self.gconfs)
        self.build()

    def build(self):
        a = [PRELUDE_A]
        b = [PRELUDE_B, "func BInit() {}\n"]
        for f in self.funcs:
            (a if f.pkg == "a" else b).append(f.text)
        self.files["go.mod"] = "module example.com/m\n\ngo 1.24\n"
        self.files["a/a.go"] = "\n".join(a)
        self.files["b/b.go"] = "\n".join(b)
        # comparison probes: same package, and from b for functions of a (facts across packages)
        ca = ["package a", "", "import \"unsafe\"", "", "var _ unsafe.Pointer", ""]
        cb = ["package b", "", "import (", "\t\"unsafe\"", "", "\t\"example.com/m/a\"", ")", "", "var _ unsafe.Pointer", "var _ = a.G0", ""]
        for f in self.funcs:
            for pkg, lines, fn in (("a", ca, "a/cmp.go"), ("b", cb, "b/cmp.go")):
                if f.pkg == "b" and pkg == "a":
                    continue
                for (name, text, idx, op) in cmp_functions(f, pkg):
                    if pkg != f.pkg:
                        name2 = "X" + name
                        text = text.replace("func " + name, "func " + name2, 1)
                        name = name2
                    lines.append(text)
                    self.cmps[(fn, len(lines))] = (pkg + "." + name, f.qname, idx, op)
                    self.cmp_by_name[pkg + "." + name] = (f.qname, idx, op, fn, len(lines))
        self.files["a/cmp.go"] = "\n".join(ca) + "\n"
        self.files["b/cmp.go"] = "\n".join(cb) + "\n"
        # main
        m = [MAIN_PRELUDE]
        for i, gl in enumerate(self.gconfs):
            m.append("func gc%d() { %s}" % (i, "".join("a.%s = %s; " % (g, e) for (g, _), e in zip(GLOBALS, gl))))
        runall = ["func runAll() {"]
        for f in self.funcs:
            vecs = self.vectors[f.qname]
            tab = "tab_%s_%s" % (f.pkg, f.name)
            m.append("var %s = []func() string{" % tab)
            for (gl, args) in vecs:
                m.append("\tfunc() string { %s }," % self.call_body(f, gl, args))
            m.append("}")
            runall.append("\trun(%s, %s)" % (json.dumps(f.qname), tab))
            for cname, (fq, idx, op, fn, line) in self.cmp_by_name.items():
                if fq != f.qname:
                    continue
                ctab = "ctab_%s" % cname.replace(".", "_")
                m.append("var %s = []func() string{" % ctab)
                for (gl, args) in vecs:
                    a2 = list(args)
                    m.append("\tfunc() string { %sreturn bs(%s(%s)) }," % (self.set_globals(gl), cname, ", ".join(a2)))
                m.append("}")
                runall.append("\trun(%s, %s)" % (json.dumps("cmp:" + cname), ctab))
        runall.append("}")
        self.files["main/main.go"] = "\n".join(m) + "\n" + "\n".join(runall) + "\n"

    def set_globals(self, gl):
        if gl in self.gconfs:
            return "gc%d(); " % self.gconfs.index(gl)
        return "".join("a.%s = %s; " % (g, e) for (g, _), e in zip(GLOBALS, gl))

    def call_body(self, f, gl, args):
        pre = self.set_globals(gl)
        if f.method:
            call = "(%s).%s(%s)" % (args[1], f.name, ", ".join([args[0]] + args[2:]))
            # a.T literal receivers need a typed nil
            if args[1] == "nil":
                call = "(*a.T)(nil).%s(%s)" % (f.name, ", ".join([args[0]] + args[2:]))
        else:
            call = "%s.%s(%s)" % (f.pkg, f.name, ", ".join(args))
        names = [("r%d" % i) if TYPES[t][1] else "_" for i, t in enumerate(f.results)]
        shows = ' + " " + '.join(show_expr(t, nm) for t, nm in zip(f.results, names))
        return "%s%s := %s; return %s" % (pre, ", ".join(names), call, shows)

    def write(self, root):
        for rel, txt in self.files.items():
            p = os.path.join(root, rel)
            os.makedirs(os.path.dirname(p), exist_ok=True)
            with open(p, "w") as fh:
                fh.write(txt)

    def closure(self, qnames):
        """transitive callees of the given functions, in generation order"""
        need = set()
        todo = list(qnames)
        while todo:
            x = todo.pop()
            if x in need or x not in self.by_q:
                continue
            need.add(x)
            todo += list(self.by_q[x].callees)
        return [f for f in self.funcs if f.qname in need]


# =========================================================================== running the real code
NILNESS = {0: "NoNilness", 1: "NeverNil", 2: "AlwaysNil", 3: "MaybeNilGlobal", 4: "MaybeNil"}


def run_module(ctx, mod, root, probe, staticcheck, tag):
    """writes the module, runs the real analysis (probe + staticcheck) and the compiled program.
    Returns dict with nilness facts, SA4023 verdicts, observations, IR dump lines."""
    mod.write(root)
    env = vlib.go_env()
    from concurrent.futures import ThreadPoolExecutor
    outp = os.path.join(root, "probe.out")
    if os.path.exists(outp):
        os.unlink(outp)
    prog = os.path.join(root, "prog")

    def do_probe():
        # 1. real analysis through the real runner
        e = dict(env)
        e.update({"C15_OUT": outp, "STATICCHECK_CACHE": os.path.join(root, "sc-cache")})
        return vlib.run([probe, "-checks", "VN1500,SA4023", "-f", "json", "./a", "./b"], cwd=root, env=e, timeout=1500)

    def do_sc():
        # 2. SA4023 from the real staticcheck binary (quick tier: only for the first module;
        #    the probe runs the same real analyzer through the same lintcmd runner)
        if staticcheck is None:
            return 0, None, ""
        e2 = dict(env)
        e2["STATICCHECK_CACHE"] = os.path.join(root, "sc-cache2")
        return vlib.run([staticcheck, "-checks", "SA4023", "-f", "json", "./a", "./b"], cwd=root, env=e2, timeout=1500)

    def do_build():
        # 3. the same source, compiled
        # (the generated driver package is compiled without optimisation to save time;
        #  the packages under test, a and b, are compiled normally)
        return vlib.run([vlib.GO, "build", "-gcflags=example.com/m/main=-N -l", "-o", prog, "./main"],
                        cwd=root, env=env, timeout=1500)

    with ThreadPoolExecutor(max_workers=3) as ex:
        fp, fs, fb = ex.submit(do_probe), ex.submit(do_sc), ex.submit(do_build)
        rc, so, se = fp.result()
        rc2, so2, se2 = fs.result()
        rc3, so3, se3 = fb.result()
    if rc not in (0, 1) or not os.path.exists(outp):
        raise vlib.HarnessError("c15probe failed (%s) rc=%d: %s %s" % (tag, rc, so[-1500:], se[-1500:]))
    probe_sa = parse_sa(so, root)
    facts = {}      # (viewer pkg, func qname, idx) -> (inner, outer)
    dumps = []
    for line in open(outp).read().splitlines():
        if line.startswith("N "):
            _, viewer, fpkg, key, idx, inner, outer = line.split(" ")
            facts[(viewer.rsplit("/", 1)[-1], fpkg.rsplit("/", 1)[-1] + "." + key, int(idx))] = (int(inner), int(outer))
        elif line.startswith("P "):
            dumps.append(line)
    if rc2 not in (0, 1):
        raise vlib.HarnessError("staticcheck failed (%s) rc=%d: %s %s" % (tag, rc2, so2[-1500:], se2[-1500:]))
    sa = parse_sa(so2, root) if so2 is not None else probe_sa
    if sa is None or probe_sa is None:
        raise vlib.HarnessError("staticcheck/c15probe reported a non-SA4023 problem (%s): %s" % (tag, (so + (so2 or ""))[-1500:]))
    if rc3 != 0:
        raise vlib.HarnessError("generated module does not compile (%s) (generator bug):\n%s" % (tag, (so3 + se3)[-3000:]))
    skip = []
    obs = None
    for attempt in range(8):
        e3 = dict(os.environ)
        e3["C15_SKIP"] = ",".join(skip)
        rc, so, se = vlib.run([prog], cwd=root, env=e3, timeout=600)
        if rc == 0:
            obs = so
            break
        # a fatal (unrecoverable) runtime error: skip the function that was running
        last = [l for l in so.splitlines() if l.startswith("B ")]
        if not last:
            raise vlib.HarnessError("generated program crashed before the first call: " + se[-1500:])
        skip.append(last[-1].split(" ")[1])
    if obs is None:
        raise vlib.HarnessError("generated program keeps crashing: " + se[-1500:])
    runs = {}       # name -> {vec idx: [tokens] | None (panic)}
    for line in obs.splitlines():
        if not line.startswith("R "):
            continue
        p = line.split(" ")
        runs.setdefault(p[1], {})[int(p[2])] = None if p[3] == "P" else p[3:]
    return {"facts": facts, "sa": sa, "probe_sa": probe_sa, "runs": runs, "dumps": dumps, "fatal_skipped": skip}


def parse_sa(out, root):
    res = {}
    for line in out.splitlines():
        line = line.strip()
        if not line:
            continue
        try:
            j = json.loads(line)
        except ValueError:
            return None
        if j.get("code") != "SA4023":
            if j.get("code") == "VN1500":
                continue
            return None
        fn = os.path.relpath(j["location"]["file"], os.path.realpath(root))
        if fn.startswith(".."):
            fn = os.path.relpath(j["location"]["file"], root)
        res[(fn, j["location"]["line"])] = j["message"]
    return res


# =========================================================================== oracle
def outer_nil(tok):
    return tok == "N"


def oracle(mod, res):
    """the property itself on the real code's outputs. Returns (violations, stats)"""
    viols = []
    stats = {"results_classified": 0, "definite_results": 0, "definite_with_normal_return": 0, "calls": 0,
             "normal_returns": 0, "sa4023_flagged": 0, "sa4023_flagged_executed": 0, "functions_never_returning": 0}
    hist = {}
    for f in mod.funcs:
        runs = res["runs"].get(f.qname, {})
        vecs = mod.vectors[f.qname]
        normal = {i: r for i, r in runs.items() if r is not None}
        stats["calls"] += len(runs)
        stats["normal_returns"] += len(normal)
        if not normal:
            stats["functions_never_returning"] += 1
        for idx, t in enumerate(f.results):
            if not TYPES[t][1]:
                continue
            for viewer in ("a", "b"):
                cls = res["facts"].get((viewer, f.qname, idx))
                if cls is None:
                    continue
                inner, outer = cls
                if viewer == f.pkg:
                    stats["results_classified"] += 1
                    hist["%s/%s" % (NILNESS[inner], NILNESS[outer])] = hist.get("%s/%s" % (NILNESS[inner], NILNESS[outer]), 0) + 1
                    definite = outer in (1, 2) or (TYPES[t][2] and inner in (1, 2))
                    if definite:
                        stats["definite_results"] += 1
                        if normal:
                            stats["definite_with_normal_return"] += 1
                for i, toks in sorted(normal.items()):
                    tok = toks[idx]
                    what = None
                    if outer == 1 and tok == "N":
                        what = "result classified Outer=NeverNil is nil"
                    elif outer == 2 and tok != "N":
                        what = "result classified Outer=AlwaysNil is not nil"
                    elif TYPES[t][2] and inner == 1 and tok == "Vn":
                        what = "interface result classified Inner=NeverNil holds a nil value"
                    elif TYPES[t][2] and inner == 2 and tok == "Vv":
                        what = "interface result classified Inner=AlwaysNil holds a non-nil value"
                    if what:
                        viols.append({"kind": "nilness", "func": f.qname, "result": idx, "type": gotype(t, "a"), "viewer_pkg": viewer,
                                      "classification": {"Inner": NILNESS[inner], "Outer": NILNESS[outer]},
                                      "observed": tok, "vector": i, "globals": dict(zip([g for g, _ in GLOBALS], vecs[i][0])),
                                      "args": vecs[i][1], "what": what})
                        break
    # SA4023: a flagged comparison that succeeds
    for (fn, line), msg in sorted(res["sa"].items()):
        c = mod.cmps.get((fn, line))
        if c is None:
            continue  # a comparison inside a generated function body (MakeInterface case etc.): not probed by execution
        cname, fq, idx, op = c
        stats["sa4023_flagged"] += 1
        runs = res["runs"].get("cmp:" + cname, {})
        normal = {i: r for i, r in runs.items() if r is not None}
        if normal:
            stats["sa4023_flagged_executed"] += 1
        never = "never true" in msg
        for i, toks in sorted(normal.items()):
            if (never and toks[0] == "T") or (not never and toks[0] == "F"):
                vecs = mod.vectors[fq]
                viols.append({"kind": "sa4023", "func": fq, "result": idx, "cmp": cname, "file": fn, "line": line,
                              "message": msg, "observed_comparison_value": toks[0] == "T", "vector": i,
                              "globals": dict(zip([g for g, _ in GLOBALS], vecs[i][0])), "args": vecs[i][1],
                              "what": "SA4023 says '%s' but the comparison evaluated to %s" % (msg, toks[0] == "T")})
                break
    stats["classification_histogram"] = hist
    return viols, stats


# =========================================================================== the check
MODULES = ["Verif.C15.Theorems", "Verif.C15.TheoremsExtra"]
THEOREMS = [
    "Verif.C15.merge_sound",
    "Verif.C15.le_sound",
    "Verif.C15.normalize_sound",
    "Verif.C15.transfer_sound",
    "Verif.C15.phis_sound",
    "Verif.C15.edge_sound",
    "Verif.C15.path_sound",
    "Verif.C15.result_sound",
    "Verif.C15.describes_mono",
    "Verif.C15.result_sound_never",
    "Verif.C15.result_sound_always",
    "Verif.C15.sa4023_sound",
    "Verif.C15.checkPost_sound",
    # strengthening round (TheoremsExtra.lean)
    "Verif.C15.merge_comm",
    "Verif.C15.merge_assoc",
    "Verif.C15.merge_idem",
    "Verif.C15.merge_upper",
    "Verif.C15.merge_least",
    "Verif.C15.asym_table_unsound",
    "Verif.C15.dyn_call_outer_only_unsound",
    "Verif.C15.ExLoop.selfloop_unvisited_rejected",
    "Verif.C15.ExLoop.selfloop_certified",
    "Verif.C15.ExLoop.selfloop_exec_nil",
    "Verif.C15.ExLoop.selfloop_unvisited_wrong",
]


def func_record(f):
    return {"name": f.name, "pkg": f.pkg, "params": [list(p) for p in f.params], "results": list(f.results),
            "named": f.named, "method": f.method, "text": f.text, "callees": sorted(f.callees)}


def func_from_record(e):
    f = Func(e["name"], e["pkg"], [tuple(x) for x in e["params"]], e["results"], e.get("named", False), e.get("method", False))
    f.text = e["text"]
    f.callees = set(e.get("callees", []))
    f.feats = set(["replay"])
    f.fixed_vectors = e.get("vectors", [])
    return f


def plan(ctx):
    """[(module tag, generator seed, number of generated functions, with corpus, vectors per function)]"""
    if ctx.quick:
        return [("m0", ctx.seed * 1000 + 0, 40, True, 10), ("m1", ctx.seed * 1000 + 1, 100, False, 10),
                ("m2", ctx.seed * 1000 + 2, 100, False, 10)]
    return [("m%d" % k, ctx.seed * 1000 + k, 240, k == 0, 16) for k in range(12)]


def run_plan(ctx, probe, staticcheck, items, workers):
    from concurrent.futures import ThreadPoolExecutor

    def one(item):
        tag, mod = item
        root = ctx.path("mods", tag, "go.mod")
        root = os.path.dirname(root)
        sc = staticcheck if (not ctx.quick or tag in ("m0", "replay")) else None
        return tag, mod, run_module(ctx, mod, root, probe, sc, tag)

    with ThreadPoolExecutor(max_workers=workers) as ex:
        return list(ex.map(one, items))


def le_n(a, b):
    """a below-or-equal b in the order of nilness.lattice.Merge (merge(a,b) == b)"""
    return MERGE[a][b] == b


MERGE = [[0, 1, 2, 3, 4], [1, 1, 4, 3, 4], [2, 4, 2, 4, 4], [3, 3, 4, 3, 4], [4, 4, 4, 4, 4]]


def model_tie(ctx, mod, res, tag):
    """tie X: the compiled Lean model recomputes every dumped function's ValueNilness from the
    probe's IR dump; soundness transfers from the model (result_sound) to the real analysis iff
    the real classification is equal to or coarser than the model's (lattice order)."""
    lines = [l[2:] for l in res["dumps"]]
    outs = vlib.run_model(ctx, "C15", lines)
    stats = {"functions": 0, "modelled": 0, "exact": 0, "coarser": 0, "unmodelled": {}, "certified_postfixpoints": 0}
    diffs = []
    for line, out in zip(lines, outs):
        if out.startswith("bad-op") or out.startswith("bad"):
            raise vlib.HarnessError("c15driver rejected a dump (%s): %s ... -> %s" % (tag, line[:300], out[:300]))
        pkg = line.split(" | ", 1)[0].rsplit("/", 1)[-1]
        for rec in out.split(" | ")[1:]:
            t = rec.split(" ")
            # F <name> <status> real=<io,io..> model=<io,io..> cert=<0|1>
            name, status = t[1], t[2]
            kv = dict(x.split("=", 1) for x in t[3:])
            stats["functions"] += 1
            if status != "ok":
                stats["unmodelled"][status] = stats["unmodelled"].get(status, 0) + 1
                continue
            stats["modelled"] += 1
            if kv.get("cert") == "1":
                stats["certified_postfixpoints"] += 1
            real = [(int(x[0]), int(x[1])) for x in kv["real"].split(",") if x]
            model = [(int(x[0]), int(x[1])) for x in kv["model"].split(",") if x]
            if real == model and kv.get("cert") == "1":
                stats["exact"] += 1
                continue
            ok = len(real) == len(model) and kv.get("cert") == "1" and \
                all(le_n(m[0], r[0]) and le_n(m[1], r[1]) for m, r in zip(model, real))
            if ok:
                stats["coarser"] += 1
            else:
                diffs.append({"module": tag, "func": pkg + "." + name, "real": kv["real"], "model": kv["model"],
                              "cert": kv.get("cert"), "encoding": "per result: <Inner><Outer>, 1=NeverNil 2=AlwaysNil 3=MaybeNilGlobal 4=MaybeNil"})
    return stats, diffs


def sa_tie(ctx, mod, res, tag):
    """SA4023 may report `f() == nil` only when Result.Nilness(f, i).Outer is NeverNil (the model's
    `sa4023Flags`, for which `sa4023_sound` is proved); IsTrivial / IsInTest only suppress reports."""
    lines, meta = [], []
    for (fn, line), (cname, fq, idx, op) in sorted(mod.cmps.items()):
        viewer = fn.split("/")[0]
        cls = res["facts"].get((viewer, fq, idx))
        if cls is None:
            continue
        t = mod.by_q[fq].results[idx]
        lines.append("S %d%d %d%d" % (TYPES[t][1], TYPES[t][2], cls[0], cls[1]))
        meta.append((fn, line, cname, fq, idx, cls))
    if not lines:
        return 0, 0, []
    outs = vlib.run_model(ctx, "C15", lines)
    diffs, nflag = [], 0
    for m, o in zip(meta, outs):
        if o not in ("0", "1"):
            raise vlib.HarnessError("c15driver rejected an S line")
        flagged = (m[0], m[1]) in res["sa"] or (m[0], m[1]) in res["probe_sa"]
        nflag += flagged
        if flagged and o != "1":
            diffs.append({"module": tag, "func": m[3], "result": m[4], "cmp": m[2], "file": m[0], "line": m[1],
                          "real": "SA4023 reports the comparison", "model": "Result.Nilness = %d%d is not Outer=NeverNil" % m[5],
                          "cert": "-", "kind": "sa4023"})
    return len(lines), nflag, diffs


def viol_class(v):
    return "%s:%s" % (v["kind"], v["what"])


def replay_obj(mod, v, extra=None):
    fq = v["func"]
    funcs = mod.closure([fq])
    recs = [func_record(f) for f in funcs]
    vecs = mod.vectors[fq]
    gl, args = vecs[v["vector"]]
    for r in recs:
        if r["pkg"] + "." + (("T." if r["method"] else "") + r["name"]) == fq:
            r["vectors"] = [{"globals": gl, "args": args}]
    o = {"property": "C15", "violation": v, "functions": recs,
         "how_to_replay": "./check C15 --replay <this file>   (rebuilds a module from `functions`: package a = prelude of "
                          "checks/c15.py + the functions with pkg a, package b likewise; runs the real nilness analysis "
                          "(harness/cmd/c15probe, staticcheck -checks SA4023) and the compiled program on `vectors`). By hand: "
                          "put the function text into a package that has the prelude types, run `staticcheck -debug.print-facts`"
                          " or the probe, and call the function with the listed arguments / globals."}
    if extra:
        o.update(extra)
    return o


def report_violations(ctx, mod, tag, viols, known, seen_classes, prefix=""):
    n = 0
    for v in viols:
        if v.get("viewer_pkg") and v["viewer_pkg"] != v["func"].split(".")[0]:
            # the same classification seen through the imported fact: reported once, from the defining package,
            # unless only the importer sees it
            if any(w is not v and w["func"] == v["func"] and w.get("result") == v.get("result") and
                   w.get("viewer_pkg") == v["func"].split(".")[0] for w in viols):
                continue
        key = None
        for k in known:
            if k.startswith("func=") and k[5:] == v["func"] and mod.by_q[v["func"]].corpus:
                key = k
        if key:
            ctx.known_finding("key=%s %s" % (key, known[key]))
            continue
        n += 1
        name = "%s%s_%s_%s_r%s.json" % (prefix, tag, v["kind"], v["func"].replace(".", "_"), v.get("result"))
        cls = viol_class(v)
        first = cls not in seen_classes
        seen_classes.setdefault(cls, 0)
        seen_classes[cls] += 1
        if seen_classes[cls] > 6:
            continue  # at most 6 replay files per violation class
        ctx.violation(name, replay_obj(mod, v),
                      text="C15: %s: %s result %s (%s) classified %s, observed %s with args %s" % (
                          v["what"], v["func"], v.get("result"), v.get("type", ""), v.get("classification", v.get("message")),
                          v.get("observed", v.get("observed_comparison_value")), v.get("args")) if first or True else "")
    return n


def targeted_search(ctx, probe, staticcheck, mods, diffs):
    """violation search: the functions on which the real analysis claims more than the proved model
    are re-run on many more input vectors."""
    items = []
    for tag, mod in mods.items():
        fqs = sorted(set(d["func"].replace("T.", "T.") for d in diffs if d["module"] == tag))
        fqs = [q for q in fqs if q in mod.by_q][:40]
        if not fqs:
            continue
        funcs = mod.closure(fqs)
        m2 = Module(funcs, ctx.seed + 77, 120)
        items.append((tag + "s", m2))
    found = []
    for tag, m2, res in run_plan(ctx, probe, staticcheck, items, 3):
        v, _ = oracle(m2, res)
        found.append((tag, m2, v))
    return found


def run(ctx):
    import time
    from concurrent.futures import ThreadPoolExecutor
    phase = {}
    t0 = time.time()
    # the Lean build/audit and the Go builds are independent: run them side by side
    with ThreadPoolExecutor(max_workers=3) as ex:
        f_lean = ex.submit(vlib.std_lean_phase, ctx, MODULES, THEOREMS)
        f_probe = ex.submit(vlib.build_harness, ctx, "c15probe")
        f_sc = ex.submit(vlib.build_repo_cmd, ctx, "./cmd/staticcheck")
        probe = f_probe.result()
        staticcheck = f_sc.result()
        phase["go_builds"] = round(time.time() - t0, 1)
        lean_ok, lean_broke = f_lean.result()
    phase["lean_and_builds"] = round(time.time() - t0, 1)
    known = vlib.load_known_findings("C15")

    items = []
    if ctx.replay:
        rp = json.load(open(ctx.replay))
        funcs = [func_from_record(e) for e in rp["functions"]]
        items.append(("replay", Module(funcs, ctx.seed, 4)))
    else:
        for (tag, gseed, count, with_corpus, nvec) in plan(ctx):
            funcs = gen_functions(gseed, count, with_corpus=with_corpus)
            items.append((tag, Module(funcs, gseed, nvec)))
    results = run_plan(ctx, probe, staticcheck, items, 3 if ctx.quick else 5)
    phase["modules_analysed_and_executed"] = round(time.time() - t0, 1)

    mods = {}
    seen_classes = {}
    nviol = 0
    tot = {}
    feats = {}
    tie = {"functions": 0, "modelled": 0, "exact": 0, "coarser": 0, "unmodelled": {}, "certified_postfixpoints": 0}
    diffs = []
    sa_mismatch = []
    cross_pkg_mismatch = []
    nontrivial = set()
    samples = []
    nfuncs = 0
    irk = {}
    for tag, mod, res in results:
        mods[tag] = mod
        viols, st = oracle(mod, res)
        nviol += report_violations(ctx, mod, tag, viols, known, seen_classes)
        for k, v in st.items():
            if isinstance(v, dict):
                d = tot.setdefault(k, {})
                for kk, vv in v.items():
                    d[kk] = d.get(kk, 0) + vv
            else:
                tot[k] = tot.get(k, 0) + v
        if res["sa"] != res["probe_sa"]:
            sa_mismatch.append({"module": tag, "only_staticcheck": sorted(map(str, set(res["sa"]) - set(res["probe_sa"])))[:5],
                                "only_probe": sorted(map(str, set(res["probe_sa"]) - set(res["sa"])))[:5]})
        # the fact a dependent package imports must be the fact the defining package exported
        for (viewer, fq, idx), cls in res["facts"].items():
            own = res["facts"].get((fq.split(".")[0], fq, idx))
            if own is not None and own != cls:
                cross_pkg_mismatch.append({"module": tag, "func": fq, "result": idx, "in_own_pkg": own, "seen_from_" + viewer: cls})
        for f in mod.funcs:
            nfuncs += 1
            for ft in f.feats:
                feats[ft] = feats.get(ft, 0) + 1
            runs = res["runs"].get(f.qname, {})
            normal = [i for i, r in runs.items() if r is not None]
            definite = False
            for idx, t in enumerate(f.results):
                cls = res["facts"].get((f.pkg, f.qname, idx))
                if cls and TYPES[t][1] and (cls[1] in (1, 2) or (TYPES[t][2] and cls[0] in (1, 2))):
                    definite = True
            if definite and normal:
                nontrivial.add(hashlib.sha256(f.text.encode()).hexdigest())
                if len(samples) < 4:
                    samples.append({"function": f.text, "classification": {str(i): [NILNESS[c] for c in res["facts"][(f.pkg, f.qname, i)]]
                                                                         for i in range(len(f.results)) if (f.pkg, f.qname, i) in res["facts"]},
                                    "observed_first_normal_return": runs[normal[0]], "vector": mod.vectors[f.qname][normal[0]][1]})
        for dl in res["dumps"]:
            for rec in dl.split(" ; "):
                t = rec.split(" ")
                if t[0] == "I" and len(t) > 2:
                    irk[t[2]] = irk.get(t[2], 0) + 1
        if lean_ok or os.path.exists(vlib.driver_path("C15")):
            try:
                ts, td = model_tie(ctx, mod, res, tag)
            except vlib.HarnessError:
                if lean_ok:
                    raise
                ts, td = None, []
            if ts:
                n_sa, n_flag, sd = sa_tie(ctx, mod, res, tag)
                tie["sa4023_comparisons"] = tie.get("sa4023_comparisons", 0) + n_sa
                tie["sa4023_reported"] = tie.get("sa4023_reported", 0) + n_flag
                diffs += sd
                for k, v in ts.items():
                    if isinstance(v, dict):
                        for kk, vv in v.items():
                            tie[k][kk] = tie[k].get(kk, 0) + vv
                    else:
                        tie[k] += v
                diffs += td

    phase["oracle_and_model_tie"] = round(time.time() - t0, 1)
    ctx.coverage.update({
        "phase_seconds_since_start": phase,
        "evaluations": tot.get("calls", 0),
        "distinct_nontrivial": len(nontrivial),
        "rule": "seeded generator of type-correct Go functions with pointer-like results in two packages (b imports a) + fixed corpus; "
                "every function is analysed by the real nilness analysis/SA4023 and executed compiled on input vectors. "
                "evaluations = executed calls; non-trivial = distinct function bodies with a definite classification (NeverNil/AlwaysNil, "
                "outer or inner) on some result AND at least one normally returning execution",
        "samples": samples,
        "programs": nfuncs,
        "disagreements_checked": len(diffs),
        "oracle": tot,
        "generator_features": dict(sorted(feats.items())),
        "ir_instruction_kinds_seen_by_the_model": dict(sorted(irk.items())),
        "model_tie": tie,
        "sa4023_probe_vs_binary_mismatches": len(sa_mismatch),
        "cross_package_fact_mismatches": len(cross_pkg_mismatch),
    })
    ctx.assumptions += [
        "Sem.lean over-approximates Go on the modelled IR subset (no memory model: every load/field/index/receive/dynamic call yields an arbitrary type-correct value; panics have no successor state); this is validated only by the execution oracle",
        "IR contracts used by the semantics: SSA (a nil-test condition is evaluated at the branch), an Extract k>0 of a TypeSwitch executes only when case k-1 was selected, deferred nil calls panic before a normal return (C02 covers SSA well-formedness)",
        "functions outside the modelled subset (generic functions, bound-method wrappers and their direct callers) are covered by the execution oracle only; closure bodies are never analysed by nilness.go (bail-out default), which is what the model does",
        "for call cycles the driver approximates the order in which impl first requests callees by instruction order; the generator keeps the cycle calls of a function in one block, where the two coincide",
    ]

    # model / proof problems without an oracle failure: targeted violation search, then no-failing-input-found
    if (diffs or not lean_ok or sa_mismatch or cross_pkg_mismatch) and nviol == 0 and not ctx.replay:
        found = targeted_search(ctx, probe, staticcheck, mods, diffs) if diffs else []
        for tag, m2, v in found:
            nviol += report_violations(ctx, m2, tag, v, known, seen_classes, prefix="search_")
        if nviol == 0:
            ctx.violation("correspondence.json", {
                "what": "the real nilness classification is not covered by the proved model (or a proof no longer checks), "
                        "but no execution contradicting a classification was found",
                "real_claims_more_than_model": diffs[:60], "count": len(diffs), "lean": lean_broke,
                "sa4023_probe_vs_binary": sa_mismatch[:10], "cross_package_fact_mismatches": cross_pkg_mismatch[:10],
                "correspondence": "C15 stream: per function, Result.Nilness (real) vs. Verif.C15.analyze (model) on the probe's IR dump; "
                                  "theorems " + ", ".join(THEOREMS),
                "functions": [func_record(f) for d in diffs[:5] for f in mods[d["module"]].closure([d["func"]])
                              if d["module"] in mods and d["func"] in mods[d["module"]].by_q],
            }, nofail=True, text="C15: model/implementation correspondence broken: %d functions, lean_ok=%s" % (len(diffs), lean_ok))
    elif diffs:
        ctx.notes.append("%d functions where the real classification is not covered by the model (oracle violations reported separately)" % len(diffs))
        ctx.coverage["uncovered_examples"] = diffs[:10]
    return vlib.finish(ctx, "proof" if lean_ok else "translation_validation")


META = {
    "level": "proof",
    "technique": "Lean 4 soundness proof (abstract interpretation) of a model of analysis/facts/nilness against a nondeterministic "
                 "concrete semantics of the IR subset; executable correspondence on IR dumps with a certified post-fixpoint per function; "
                 "execution oracle on the compiled generated programs",
    "text": "Proved in Lean over the model, for all functions/programs of the modelled IR subset and all their terminating executions: "
            "every transfer rule of nilness.go's processBlock (28 instruction kinds, handleReturnValue, nil-comparison refinement, parallel phis) "
            "is sound (transfer_sound, phis_sound, edge_sound); every post-fixpoint of the flow equations describes every reachable state "
            "(path_sound); hence, interprocedurally and with recursion, a result classified NeverNil/AlwaysNil (outer, and inner for interfaces) "
            "is non-nil/nil in every normally returning execution (result_sound, result_sound_never/_always), and a comparison SA4023 reports "
            "can never succeed (sa4023_sound). Tie, checked on every run: harness/cmd/c15probe runs the real nilness.Analysis and SA4023 through "
            "the real lintcmd runner on generated two-package modules and dumps each function's IR; the compiled Lean model recomputes impl's "
            "value per function in the order of run/impl, re-checks that its solution is a post-fixpoint of a well-formed function (the "
            "hypotheses of result_sound) and the check demands Result.Nilness equal to or coarser than the model (describes_mono); SA4023 "
            "reports must imply Outer=NeverNil. Strengthening round: the model's merge table is a commutative idempotent monoid and merge is "
            "the join of the order used for 'equal or coarser' (merge_comm/_assoc/_idem/_upper/_least); necessity results on concrete "
            "instances: an asymmetric table cell breaks merge_sound (asym_table_unsound), recording only Outer for a dynamic call breaks "
            "the Inner claim after a merge (dyn_call_outer_only_unsound), and for a single-block self loop the state family obtained "
            "without revisiting the block for its own back edge claims NeverNil, is rejected by checkPost, and is contradicted by a "
            "concrete execution returning nil (ExLoop.selfloop_*). The generator now emits shape functions (13 loop shapes incl. "
            "single-block self loops, swaps/rotations across iterations, nested/break/continue/range/goto loops; 6 join shapes in both "
            "operand orders; dynamic calls through func values, interface methods, closures and method values returning interfaces that "
            "hold typed nils; never-assigned and init-assigned package-level variables), call cycles of length 2-4 and an always-run "
            "80-function merge grid (every ordered pair of nilness values, across returns and at phis, Outer and Inner) that compares the "
            "real merge table with the model's cell by cell. Explored, not proved: that the Lean semantics over-approximates Go (tested by compiling and "
            "executing every generated function on input vectors: the oracle), that real functions outside the generator behave like the "
            "model (generic functions and bound-method wrappers with their direct callers are outside the model; closure bodies are not analysed by nilness.go at all and are modelled as the bail-out default), and the dense.Forward solver itself (C13; here only "
            "its result is certified).",
    "note": "Trusted: Lean kernel (axioms propext/Classical.choice/Quot.sound), the compiled c15driver, harness/cmd/c15probe (IR dump, mirrors "
            "three type predicates of nilness.go: checkBound, allNonZero, fromInteger), the Go toolchain that compiles and runs the oracle "
            "programs, Sem.lean as an over-approximation of Go on nil-ness (no memory model; SSA and TypeSwitch/Extract contracts of go/ir "
            "assumed, cf. C02). Six genuine soundness defects of nilness.go were reproduced by the oracle and repaired by fix: commits "
            "6315b9e 3cc29f3 eaf75cc 7d4adbb 6abe606 f462b28; the model describes the repaired code.",
    "design_ref": "DESIGN.md section 5, C15",
}
