"""Shared machinery for the /verif checks (see DESIGN.md sections 1-2).

Every check is `./check <Cxx> --tier quick|thorough [--replay file]`.
This module provides: scratch dirs, Go/Lean builds against the *current* /repo tree,
the Lean audit (axioms, forbidden tokens), the model driver, evidence and
VIOLATION / KNOWN-FINDING reporting.
"""
import hashlib
import json
import os
import re
import shutil
import subprocess
import sys
import tempfile
import time

VERIF = os.path.dirname(os.path.abspath(__file__))
REPO = os.environ.get("VERIF_REPO", "/repo")
LEAN_DIR = os.path.join(VERIF, "lean")
HARNESS = os.path.join(VERIF, "harness")
ALLOWED_AXIOMS = {"propext", "Classical.choice", "Quot.sound"}
FORBIDDEN = re.compile(r"sorry|admit|^axiom |native_decide|bv_decide|implemented_by|unsafe |maxHeartbeats 0", re.M)
NCPU = os.cpu_count() or 4


# --------------------------------------------------------------------------- env
def _find_go():
    cands = [
        "/root/go/pkg/mod/golang.org/toolchain@v0.0.1-go1.26.0.linux-amd64/bin/go",
        shutil.which("go1.26") or "",
        shutil.which("go") or "",
    ]
    for c in cands:
        if c and os.path.exists(c):
            return c
    raise SystemExit("no go toolchain found")


GO = _find_go()


def go_env(extra=None):
    env = dict(os.environ)
    env.pop("GOSUMDB", None)
    env.update({
        "GOFLAGS": "-mod=mod",
        "GOPROXY": "off",
        "GOTOOLCHAIN": "local",
        "GONOSUMDB": "*",
        "GONOSUMCHECK": "1",
        "GONOPROXY": "",
        "GOWORK": "off",
        "CGO_ENABLED": "0",
    })
    env["PATH"] = os.path.dirname(GO) + os.pathsep + env.get("PATH", "")
    if extra:
        env.update(extra)
    return env


def run(cmd, cwd=None, env=None, timeout=None, input=None, check=False):
    """Run a command, return (rc, stdout, stderr) as text."""
    p = subprocess.run(cmd, cwd=cwd, env=env, timeout=timeout, input=input,
                       stdout=subprocess.PIPE, stderr=subprocess.PIPE, text=True)
    if check and p.returncode != 0:
        raise RuntimeError("command failed (%d): %s\n%s\n%s" % (p.returncode, cmd, p.stdout[-4000:], p.stderr[-4000:]))
    return p.returncode, p.stdout, p.stderr


# --------------------------------------------------------------------------- context
class HarnessError(Exception):
    """The machinery itself failed (exit 2); never reported as a violation."""


class Ctx:
    def __init__(self, prop, tier, seed):
        self.prop = prop
        self.tier = tier
        self.seed = seed
        self.t0 = time.time()
        self.scratch = tempfile.mkdtemp(prefix="verif_%s_" % prop, dir=os.environ.get("VERIF_SCRATCH", "/tmp"))
        self.violations = []      # (replay_path, nofail, text)
        self.known = []           # text
        self.notes = []
        self.coverage = {}
        self.assumptions = []
        self.theorems = []
        self.lean_ok = None
        self.audit = {}

    @property
    def quick(self):
        return self.tier == "quick"

    def cleanup(self):
        # go's module cache files are read-only; make removable
        for root, dirs, files in os.walk(self.scratch):
            for d in dirs:
                try:
                    os.chmod(os.path.join(root, d), 0o755)
                except OSError:
                    pass
        shutil.rmtree(self.scratch, ignore_errors=True)

    def path(self, *p):
        r = os.path.join(self.scratch, *p)
        os.makedirs(os.path.dirname(r), exist_ok=True)
        return r

    # ---- reporting
    def replay_path(self, name):
        d = os.path.join(VERIF, "replays", self.prop)
        os.makedirs(d, exist_ok=True)
        return os.path.join(d, name)

    def write_replay(self, name, obj):
        p = self.replay_path(name)
        with open(p, "w") as f:
            if isinstance(obj, str):
                f.write(obj)
            else:
                json.dump(obj, f, indent=1, sort_keys=True, default=str)
                f.write("\n")
        return p

    def violation(self, name, obj, nofail=False, text=""):
        """Record a violation with a replay file. nofail=True: proof/correspondence broke
        but no concrete failing input was found."""
        p = self.write_replay(name, obj)
        self.violations.append((p, nofail, text))
        return p

    def known_finding(self, text):
        if text not in self.known:
            self.known.append(text)


# --------------------------------------------------------------------------- known findings
def load_known_findings(prop):
    """Lines `finding: property=<id> key=<key> <description>` from known-findings.txt."""
    out = {}
    paths = [os.path.join(VERIF, "known-findings.txt"), os.path.join(VERIF, "findings.d", prop + ".txt")]
    lines = []
    for p in paths:
        if os.path.exists(p):
            lines += open(p).read().splitlines()
    for line in lines:
        line = line.strip()
        m = re.match(r"finding:\s+property=(\S+)\s+key=(\S+)\s*(.*)", line)
        if m and m.group(1) == prop:
            out[m.group(2)] = m.group(3)
    return out


# --------------------------------------------------------------------------- Go builds
def sync_harness_gosum():
    src = os.path.join(REPO, "go.sum")
    dst = os.path.join(HARNESS, "go.sum")
    try:
        a = open(src).read()
        b = open(dst).read() if os.path.exists(dst) else ""
        # harness go.sum = repo go.sum plus harness-only lines
        missing = [l for l in a.splitlines() if l and l not in set(b.splitlines())]
        if missing:
            with open(dst, "a") as f:
                f.write("\n".join(missing) + "\n")
    except OSError:
        pass


import threading
_HARNESS_LOCK = threading.Lock()


def harness_dir(ctx):
    """The harness module to build. Normally /verif/harness (replace => /repo). When
    VERIF_REPO points at another tree (testing a seeded change in a scratch worktree), a
    copy of the harness with the replace directive rewritten is made in the scratch dir."""
    if os.path.realpath(REPO) == "/repo":
        return HARNESS
    d = os.path.join(ctx.scratch, "harness_copy")
    with _HARNESS_LOCK:     # checks build several harness commands from threads
        if not os.path.exists(d):
            tmp = d + ".tmp"
            shutil.rmtree(tmp, ignore_errors=True)
            shutil.copytree(HARNESS, tmp)
            gm = open(os.path.join(tmp, "go.mod")).read()
            gm = gm.replace("=> /repo", "=> " + os.path.realpath(REPO))
            open(os.path.join(tmp, "go.mod"), "w").write(gm)
            os.rename(tmp, d)
    return d


def build_harness(ctx, pkg, name=None, tags="verif", race=False):
    """go build ./cmd/<pkg> of the harness (replace => /repo) into the scratch dir."""
    sync_harness_gosum()
    out = ctx.path("bin", name or pkg)
    cmd = [GO, "build", "-tags", tags, "-o", out]
    if race:
        cmd.insert(2, "-race")
    cmd.append("./cmd/" + pkg)
    env = go_env({"CGO_ENABLED": "1"} if race else None)
    rc, so, se = run(cmd, cwd=harness_dir(ctx), env=env, timeout=1200)
    if rc != 0:
        raise BuildError("go build of harness %s failed:\n%s" % (pkg, (so + se)[-6000:]))
    return out


def build_repo_cmd(ctx, pkg, name=None, tags="verif", race=False):
    """go build of a command of /repo itself (e.g. ./cmd/staticcheck) from the current tree."""
    out = ctx.path("bin", name or os.path.basename(pkg))
    cmd = [GO, "build", "-tags", tags, "-o", out]
    if race:
        cmd.insert(2, "-race")
    cmd.append(pkg)
    env = go_env({"CGO_ENABLED": "1"} if race else None)
    rc, so, se = run(cmd, cwd=REPO, env=env, timeout=1200)
    if rc != 0:
        raise BuildError("go build %s failed:\n%s" % (pkg, (so + se)[-6000:]))
    return out


class BuildError(Exception):
    """/repo (or the harness against it) does not compile: the tree is not a candidate
    for a property check at all."""


# --------------------------------------------------------------------------- Lean
def lake(args, timeout=3600):
    env = dict(os.environ)
    return run(["lake"] + args, cwd=LEAN_DIR, env=env, timeout=timeout)


def write_if_changed(path, content):
    old = None
    if os.path.exists(path):
        old = open(path).read()
    if old != content:
        os.makedirs(os.path.dirname(path), exist_ok=True)
        with open(path, "w") as f:
            f.write(content)
        return True
    return False


def lean_build(ctx, modules):
    """Build the given proof modules and the model driver. Returns (ok, log)."""
    rc, so, se = lake(["build"] + list(modules) + [ctx.prop.lower() + "driver"])
    log = so + se
    ctx.lean_ok = (rc == 0)
    return rc == 0, log


def failed_lean_decls(log):
    """Names/locations mentioned in lake error output."""
    return sorted(set(re.findall(r"error: (\S+\.lean:\d+:\d+)", log)))


def lean_audit(ctx, modules, theorems):
    """#print axioms for every property theorem; forbidden-token scan of the modules' sources.
    Returns dict theorem -> list of axioms (or None if missing)."""
    src = "\n".join("import %s" % m for m in modules) + "\n" + \
          "\n".join("#print axioms %s" % t for t in theorems) + "\n"
    f = os.path.join(ctx.scratch, "Audit_%s.lean" % ctx.prop)
    with open(f, "w") as fh:
        fh.write(src)
    rc, so, se = run(["lake", "env", "lean", f], cwd=LEAN_DIR, timeout=1800)
    out = so + se
    res = {}
    # messages: "'name' depends on axioms: [a, b]" or "'name' does not depend on any axioms"
    for m in re.finditer(r"'(\S+)' depends on axioms: \[([^\]]*)\]", out, re.S):
        res[m.group(1)] = [a.strip() for a in m.group(2).replace("\n", " ").split(",") if a.strip()]
    for m in re.finditer(r"'(\S+)' does not depend on any axioms", out):
        res[m.group(1)] = []
    bad = {}
    for t in theorems:
        if t not in res:
            bad[t] = "missing (does not compile or does not exist)"
        elif not set(res[t]) <= ALLOWED_AXIOMS:
            bad[t] = "axioms " + ",".join(res[t])
    # forbidden tokens in sources (comments stripped)
    scanned = []
    for m in modules:
        p = os.path.join(LEAN_DIR, m.replace(".", "/") + ".lean")
        if not os.path.exists(p):
            continue
        scanned.append(p)
    # include all transitive project-local sources of this property directory + Common
    extra = set()
    for p in list(scanned):
        d = os.path.dirname(p)
        for fn in os.listdir(d):
            if fn.endswith(".lean"):
                extra.add(os.path.join(d, fn))
    for root, _, files in os.walk(os.path.join(LEAN_DIR, "Verif", "Common")):
        for fn in files:
            if fn.endswith(".lean"):
                extra.add(os.path.join(root, fn))
    for p in sorted(extra):
        txt = strip_lean_comments(open(p).read())
        mm = FORBIDDEN.search(txt)
        if mm:
            bad["scan:" + os.path.relpath(p, LEAN_DIR)] = "forbidden token %r" % mm.group(0)
    ctx.audit = {"axioms": res, "bad": bad, "sources_scanned": len(extra)}
    ctx.theorems = list(theorems)
    return res, bad


def strip_lean_comments(s):
    out = []
    i = 0
    depth = 0
    n = len(s)
    while i < n:
        if s.startswith("/-", i):
            depth += 1
            i += 2
        elif depth and s.startswith("-/", i):
            depth -= 1
            i += 2
        elif depth:
            i += 1
        elif s.startswith("--", i):
            while i < n and s[i] != "\n":
                i += 1
        else:
            out.append(s[i])
            i += 1
    return "".join(out)


def driver_path(model):
    return os.path.join(LEAN_DIR, ".lake", "build", "bin", model.lower() + "driver")


def run_model(ctx, model, lines, timeout=1800):
    """Pipe input lines to the model driver `<model>driver` (optionally "Cxx:mode" passes
    `mode` as argv[1]); returns list of output lines (same length as the input)."""
    inp = "".join(l + "\n" for l in lines)
    mode = []
    if ":" in model:
        model, m = model.split(":", 1)
        mode = [m]
    rc, so, se = run([driver_path(model)] + mode, input=inp, timeout=timeout)
    if rc != 0:
        raise HarnessError("%sdriver exited %d: %s" % (model, rc, se[-2000:]))
    out = so.split("\n")
    if out and out[-1] == "":
        out.pop()
    if len(out) != len(lines):
        raise HarnessError("%sdriver: %d outputs for %d inputs" % (model, len(out), len(lines)))
    return out


# --------------------------------------------------------------------------- PRNG
class SplitMix:
    """splitmix64; every random choice of a check derives from VERIF_SEED through this."""
    def __init__(self, seed):
        self.s = seed & 0xFFFFFFFFFFFFFFFF

    def next(self):
        self.s = (self.s + 0x9E3779B97F4A7C15) & 0xFFFFFFFFFFFFFFFF
        z = self.s
        z = ((z ^ (z >> 30)) * 0xBF58476D1CE4E5B9) & 0xFFFFFFFFFFFFFFFF
        z = ((z ^ (z >> 27)) * 0x94D049BB133111EB) & 0xFFFFFFFFFFFFFFFF
        return z ^ (z >> 31)

    def below(self, n):
        return self.next() % n

    def choice(self, xs):
        return xs[self.below(len(xs))]

    def chance(self, num, den):
        return self.below(den) < num

    def shuffle(self, xs):
        xs = list(xs)
        for i in range(len(xs) - 1, 0, -1):
            j = self.below(i + 1)
            xs[i], xs[j] = xs[j], xs[i]
        return xs

    def fork(self, tag):
        h = hashlib.sha256(("%d/%s" % (self.s, tag)).encode()).digest()
        return SplitMix(int.from_bytes(h[:8], "big"))


def hexs(s):
    return "-" if s == "" else s.encode().hex()


# --------------------------------------------------------------------------- evidence + exit
def finish(ctx, level, technique_note=""):
    cov = dict(ctx.coverage)
    axioms = ctx.audit.get("axioms", {})
    bad = ctx.audit.get("bad", {})
    if ctx.theorems:
        cov.setdefault("obligations", len(ctx.theorems))
        cov.setdefault("discharged", sum(1 for t in ctx.theorems if t in axioms and t not in bad))
        cov.setdefault("checker_cmd", "cd lean && lake build && lake env lean <audit: #print axioms per theorem>")
        cov.setdefault("trusted_base", [
            "Lean 4.33.0 kernel", "axioms: propext, Classical.choice, Quot.sound only (audited per theorem)",
            "compiled Lean model driver (verifdriver) for model execution",
            "Go harness + python check driver (correspondence, oracle, canonicalisation)",
        ])
        cov["theorems"] = ctx.theorems
        cov["axioms_used"] = {t: axioms.get(t) for t in ctx.theorems}
    cov.setdefault("evaluations", 0)
    cov.setdefault("distinct_nontrivial", 0)
    cov.setdefault("samples", [])
    if ctx.notes:
        cov["notes"] = ctx.notes
    cov["known_findings_hit"] = ctx.known
    ev = {
        "property_id": ctx.prop,
        "tier": ctx.tier,
        "seed": ctx.seed,
        "level": level,
        "coverage": cov,
        "assumptions": ctx.assumptions,
        "wall_s": round(time.time() - ctx.t0, 2),
        "violations": len(ctx.violations),
    }
    # VERIF_EVIDENCE_DIR: experiments against a scratch worktree (tools/seedeval.py) must not
    # overwrite the evidence of /repo itself
    evdir = os.environ.get("VERIF_EVIDENCE_DIR") or os.path.join(VERIF, "evidence")
    os.makedirs(evdir, exist_ok=True)
    with open(os.path.join(evdir, ctx.prop + ".json"), "w") as f:
        json.dump(ev, f, indent=1, sort_keys=True, default=str)
        f.write("\n")
    for k in ctx.known:
        print("KNOWN-FINDING: property=%s %s" % (ctx.prop, k))
    for (p, nofail, text) in ctx.violations:
        if text:
            print("# " + text.replace("\n", "\n# "))
        print("VIOLATION property=%s replay=%s%s" % (ctx.prop, p, " no-failing-input-found" if nofail else ""))
    sys.stdout.flush()
    return 1 if ctx.violations else 0


def std_lean_phase(ctx, modules, theorems):
    """Build + audit. Returns (ok, description-of-what-broke)."""
    ok, log = lean_build(ctx, modules)
    if not ok:
        ctx.audit = {"axioms": {}, "bad": {"build": "lake build failed"}}
        ctx.theorems = list(theorems)
        return False, {"lake_build_failed": failed_lean_decls(log), "log_tail": log[-3000:]}
    res, bad = lean_audit(ctx, modules, theorems)
    if bad:
        return False, {"audit_failed": bad}
    return True, {}
