// Package c02ir dumps, through the EXPORTED go/ir API only, everything property C02
// (built IR is well-formed, strictly dominated, consistently typed SSA) talks about:
// per built function the blocks (Index, Preds, Succs), every instruction (concrete kind,
// Block(), ID(), Operands() in API order, Referrers(), Type()), every non-instruction
// value reachable as an operand (Parameter, FreeVar, Const, Global, Builtin, Function),
// and a table of the types involved.  The dump interprets nothing: all rules are decided
// by the Lean validator (lean/Verif/C02).  It shares no code with go/ir/sanity.go.
//
// One function = one `C` line (the case handed to the Lean driver, self-contained), plus
// `P`/`X`/`F` bookkeeping lines for the python driver:
//
//	P <pid> <hex pkgpath> <hex file|->
//	X <pid> <hex mode> <hex error text>            load/type error or builder panic
//	F <fid> <pid> <hex name> <mode> <nblocks> <ninstr> <hex synthetic>
//	C <fid> <case tokens ...>
//
// Case tokens (all numbers decimal, `-` = absent / nil):
//
//	chk <nblocks> <ninstr> <nvals> <ntypes> <recover bid|-> <nres> <res tid>...
//	    <nparams> <Params[i] value id>... <nsig> <tid>...   (nsig: receiver type, then Signature.Params)
//	    <nfree> <FreeVars[i] value id>... <nlocals> <Locals[i] instruction id|->... <naive 0|1>
//	    (naive: the function was built with ir.NaiveForm, i.e. without lifting)
//	T  { <ctor> <under tid> <core tid|-> <flags> <len> <nkids> <kid tid>... } x ntypes
//	V  { <kind> <tid|-> <nrefs|~> <ref>... } x nvals           value id = ninstr + position
//	B  { <Index> <npreds> <pred>... <nsuccs> <succ>... <ninstrs> } x nblocks
//	I  { <kind> <tid|-> <Block().Index|-> <ID()> <a> <b> <c> <nxs> <x>... <nops> <op|->...
//	     <nfops> <fop|->... <nrefs|~> <ref>... } x ninstr
//	                                        instruction value id = position in block order
//
// `ops` is what the method Instruction.Operands() returns.  `fops` is what the STRUCT of the
// instruction holds: every field (exported or not, through embedded and nested structs of
// package go/ir such as CallCommon, and through slices, incl. []*SelectState) whose static
// type is ir.Value (or a concrete pointer type implementing ir.Value), found by reflection
// over the struct type, in declaration order.  The two are dumped independently so that the
// validator can require that they agree: an operand that Operands() forgets is invisible to
// referrer building, lifting/renaming and go/ir's own sanity checker, which all go through
// Operands().
//
// Value identity is pointer identity.  An operand or referrer that is an instruction but
// is not contained in any block of the function is given a value entry of kind
// `dangling`; a Parameter/FreeVar/anonymous Function whose Parent() is another function
// gets kind `foreign`.  `~` = Referrers() returned nil (value not tracked).
//
// Types are numbered per function by types.Identical classes (x/tools typeutil.Map; the
// two go-tools extension types Iterator and DeferStack by structure).  ctor is the
// constructor of the type itself, `under` the class of Underlying(), `core` the class of
// the core type (typeutil.CoreType of go-tools) if there is one.  Types are expanded
// breadth first from the types of values down to depth maxDepth; deeper entries are
// emitted with ctor and flags only (flag bit 1<<20, no kids).
package c02ir

import (
	"bufio"
	"encoding/hex"
	"fmt"
	"go/token"
	"go/types"
	"reflect"
	"slices"
	"strconv"
	"strings"
	"sync"
	"unsafe"

	xtypeutil "golang.org/x/tools/go/types/typeutil"
	"honnef.co/go/tools/go/ir"
	gtypeutil "honnef.co/go/tools/go/types/typeutil"
)

const maxDepth = 6

// Hex encodes a string for the line protocol ("-" = empty).
func Hex(s string) string {
	if s == "" {
		return "-"
	}
	return hex.EncodeToString([]byte(s))
}

// Flags of type entries.
const (
	FlagVariadic   = 1 << 10 // signature
	FlagHasRecv    = 1 << 11 // signature
	FlagUnsafePtr  = 1 << 12 // basic
	FlagUntypedNil = 1 << 13 // basic
	FlagInvalid    = 1 << 14 // basic
	FlagHasTParam  = 1 << 15 // the type mentions a type parameter somewhere
	FlagEmptyIface = 1 << 16 // interface without methods and without type terms
	FlagTruncated  = 1 << 20 // not expanded (deeper than maxDepth)
)

type tentry struct {
	t      types.Type
	ctor   string
	under  int
	core   int // -1 = none
	flags  int
	length int64
	kids   []int
	depth  int
	done   bool
}

type typeTable struct {
	m       xtypeutil.Map // types.Type -> int (id)
	custom  map[string]int
	entries []*tentry
	queue   []int
}

// containsCustom reports whether t mentions one of the go-tools extension types
// (Iterator, DeferStack), which go/types and x/tools typeutil cannot compare or hash.
func containsCustom(t types.Type, fuel int) bool {
	if t == nil || fuel <= 0 {
		return false
	}
	switch x := t.(type) {
	case *gtypeutil.DeferStack, *gtypeutil.Iterator:
		return true
	case *types.Alias:
		return containsCustom(types.Unalias(x), fuel-1)
	case *types.Pointer:
		return containsCustom(x.Elem(), fuel-1)
	case *types.Slice:
		return containsCustom(x.Elem(), fuel-1)
	case *types.Array:
		return containsCustom(x.Elem(), fuel-1)
	case *types.Chan:
		return containsCustom(x.Elem(), fuel-1)
	case *types.Map:
		return containsCustom(x.Key(), fuel-1) || containsCustom(x.Elem(), fuel-1)
	case *types.Tuple:
		for i := 0; i < x.Len(); i++ {
			if containsCustom(x.At(i).Type(), fuel-1) {
				return true
			}
		}
	case *types.Signature:
		return containsCustom(x.Params(), fuel-1) || containsCustom(x.Results(), fuel-1)
	case *types.Struct:
		for i := 0; i < x.NumFields(); i++ {
			if containsCustom(x.Field(i).Type(), fuel-1) {
				return true
			}
		}
	}
	return false
}

// customKey: types that mention an extension type are classified by their printed form
// (full package paths).
func customKey(t types.Type) (string, bool) {
	if !containsCustom(t, 12) {
		return "", false
	}
	return types.TypeString(t, nil), true
}

func (tt *typeTable) id(t types.Type, depth int) int {
	if t == nil {
		return -1
	}
	t = types.Unalias(t)
	if key, ok := customKey(t); ok {
		if id, ok := tt.custom[key]; ok {
			return id
		}
		id := len(tt.entries)
		tt.custom[key] = id
		tt.entries = append(tt.entries, &tentry{t: t, depth: depth, core: -1})
		tt.queue = append(tt.queue, id)
		return id
	}
	if v := tt.m.At(t); v != nil {
		return v.(int)
	}
	id := len(tt.entries)
	tt.m.Set(t, id)
	tt.entries = append(tt.entries, &tentry{t: t, depth: depth, core: -1})
	tt.queue = append(tt.queue, id)
	return id
}

func hasTypeParam(t types.Type, seen map[types.Type]bool, fuel int) bool {
	if t == nil || fuel <= 0 {
		return false
	}
	t = types.Unalias(t)
	if seen[t] {
		return false
	}
	seen[t] = true
	switch x := t.(type) {
	case *types.TypeParam:
		return true
	case *types.Basic:
		return false
	case *types.Pointer:
		return hasTypeParam(x.Elem(), seen, fuel-1)
	case *types.Slice:
		return hasTypeParam(x.Elem(), seen, fuel-1)
	case *types.Array:
		return hasTypeParam(x.Elem(), seen, fuel-1)
	case *types.Chan:
		return hasTypeParam(x.Elem(), seen, fuel-1)
	case *types.Map:
		return hasTypeParam(x.Key(), seen, fuel-1) || hasTypeParam(x.Elem(), seen, fuel-1)
	case *types.Tuple:
		for i := 0; i < x.Len(); i++ {
			if hasTypeParam(x.At(i).Type(), seen, fuel-1) {
				return true
			}
		}
	case *types.Signature:
		return hasTypeParam(x.Params(), seen, fuel-1) || hasTypeParam(x.Results(), seen, fuel-1)
	case *types.Struct:
		for i := 0; i < x.NumFields(); i++ {
			if hasTypeParam(x.Field(i).Type(), seen, fuel-1) {
				return true
			}
		}
	case *types.Named:
		ta := x.TypeArgs()
		for i := 0; i < ta.Len(); i++ {
			if hasTypeParam(ta.At(i), seen, fuel-1) {
				return true
			}
		}
		if x.TypeParams().Len() > 0 && ta.Len() == 0 {
			return true // uninstantiated generic type
		}
	case *types.Interface:
		for i := 0; i < x.NumEmbeddeds(); i++ {
			if hasTypeParam(x.EmbeddedType(i), seen, fuel-1) {
				return true
			}
		}
		for i := 0; i < x.NumExplicitMethods(); i++ {
			if hasTypeParam(x.ExplicitMethod(i).Type(), seen, fuel-1) {
				return true
			}
		}
	case *types.Union:
		for i := 0; i < x.Len(); i++ {
			if hasTypeParam(x.Term(i).Type(), seen, fuel-1) {
				return true
			}
		}
	case *gtypeutil.Iterator:
		return hasTypeParam(x.Elem(), seen, fuel-1)
	}
	return false
}

func coreType(t types.Type) (res types.Type) {
	defer func() {
		if recover() != nil {
			res = nil
		}
	}()
	return gtypeutil.CoreType(t)
}

// expand fills the entries breadth first.
func (tt *typeTable) expand() {
	for len(tt.queue) > 0 {
		id := tt.queue[0]
		tt.queue = tt.queue[1:]
		e := tt.entries[id]
		if e.done {
			continue
		}
		e.done = true
		t := e.t
		d := e.depth + 1
		trunc := e.depth >= maxDepth
		kid := func(k types.Type) {
			if !trunc {
				e.kids = append(e.kids, tt.id(k, d))
			}
		}
		if hasTypeParam(t, map[types.Type]bool{}, 64) {
			e.flags |= FlagHasTParam
		}
		e.under = id
		switch x := t.(type) {
		case *types.Basic:
			e.ctor = "basic"
			e.flags |= int(x.Info()) & 0x3ff
			e.length = int64(x.Kind())
			switch x.Kind() {
			case types.UnsafePointer:
				e.flags |= FlagUnsafePtr
			case types.UntypedNil:
				e.flags |= FlagUntypedNil
			case types.Invalid:
				e.flags |= FlagInvalid
			}
		case *types.Pointer:
			e.ctor = "pointer"
			kid(x.Elem())
		case *types.Slice:
			e.ctor = "slice"
			kid(x.Elem())
		case *types.Array:
			e.ctor = "array"
			e.length = x.Len()
			kid(x.Elem())
		case *types.Map:
			e.ctor = "map"
			kid(x.Key())
			kid(x.Elem())
		case *types.Chan:
			e.ctor = "chan"
			e.length = int64(x.Dir())
			kid(x.Elem())
		case *types.Struct:
			e.ctor = "struct"
			e.length = int64(x.NumFields())
			for i := 0; i < x.NumFields(); i++ {
				kid(x.Field(i).Type())
			}
		case *types.Tuple:
			e.ctor = "tuple"
			e.length = int64(x.Len())
			for i := 0; i < x.Len(); i++ {
				kid(x.At(i).Type())
			}
		case *types.Signature:
			e.ctor = "signature"
			if x.Variadic() {
				e.flags |= FlagVariadic
			}
			if x.Recv() != nil {
				e.flags |= FlagHasRecv
			}
			e.length = int64(x.Params().Len())
			kid(x.Params())
			kid(x.Results())
		case *types.Interface:
			e.ctor = "interface"
			if x.NumMethods() == 0 && x.IsMethodSet() {
				e.flags |= FlagEmptyIface
			}
		case *types.Named:
			e.ctor = "named"
		case *types.TypeParam:
			e.ctor = "typeparam"
		case *gtypeutil.Iterator:
			e.ctor = "iterator"
			kid(x.Elem())
		case *gtypeutil.DeferStack:
			e.ctor = "deferstack"
		default:
			e.ctor = "other"
		}
		if trunc {
			e.flags |= FlagTruncated
			continue
		}
		switch t.(type) {
		case *types.Named, *types.TypeParam:
			e.under = tt.id(t.Underlying(), d)
		}
		switch t.(type) {
		case *gtypeutil.Iterator, *gtypeutil.DeferStack:
			e.core = id
		default:
			if c := coreType(t); c != nil {
				e.core = tt.id(c, d)
			}
		}
	}
}

// Kind names of instructions (the concrete Go type without package and pointer).
func instrKind(i ir.Instruction) string {
	s := fmt.Sprintf("%T", i)
	return strings.TrimPrefix(s, "*ir.")
}

var opCode = map[token.Token]int{
	token.ADD: 1, token.SUB: 2, token.MUL: 3, token.QUO: 4, token.REM: 5,
	token.AND: 6, token.OR: 7, token.XOR: 8, token.SHL: 9, token.SHR: 10, token.AND_NOT: 11,
	token.EQL: 12, token.NEQ: 13, token.LSS: 14, token.LEQ: 15, token.GTR: 16, token.GEQ: 17,
	token.NOT: 18,
}

// ---- operands as held by the instruction structs (reflection; independent of Operands())

type fieldStep struct {
	off  uintptr
	kind int // 0 ir.Value field, 1 concrete pointer implementing ir.Value, 2 slice
	typ  reflect.Type
	elem *fieldPlan // kind 2: plan of one element (nil: the element is a Value itself)
	ptr  bool       // kind 2: elements are pointers to the planned struct
	esz  uintptr    // kind 2: element size
	ek   int        // kind 2 with elem == nil: 0 ir.Value element, 1 concrete pointer element
}

type fieldPlan struct{ steps []fieldStep }

// layout of a slice value
type sliceHdr struct {
	data     unsafe.Pointer
	len, cap int
}

var (
	valueIface = reflect.TypeOf((*ir.Value)(nil)).Elem()
	instrIface = reflect.TypeOf((*ir.Instruction)(nil)).Elem()
	irPkgPath  = reflect.TypeOf(ir.Jump{}).PkgPath()
	planMu     sync.Mutex
	plans      = map[reflect.Type]*fieldPlan{}
)

// valueHolder: 0 = static type ir.Value, 1 = concrete pointer type that implements ir.Value,
// -1 = neither.
func valueHolder(t reflect.Type) int {
	if t == valueIface {
		return 0
	}
	if t.Kind() == reflect.Pointer && t.Elem().Kind() == reflect.Struct && t.Implements(valueIface) {
		return 1
	}
	return -1
}

// planFor lists, for a struct type of package go/ir, the places that hold operands.
// Plain pointer fields (block *BasicBlock, …) and fields of other interface types
// (Instruction, types.Type, ast.Node, …) are not followed.
func planFor(t reflect.Type, depth int) *fieldPlan {
	p := &fieldPlan{}
	if depth > 6 {
		return p
	}
	for i := 0; i < t.NumField(); i++ {
		f := t.Field(i)
		ft := f.Type
		if k := valueHolder(ft); k >= 0 {
			p.steps = append(p.steps, fieldStep{off: f.Offset, kind: k, typ: ft})
			continue
		}
		switch ft.Kind() {
		case reflect.Struct:
			if ft.PkgPath() == irPkgPath {
				sub := planFor(ft, depth+1)
				for _, s := range sub.steps {
					s.off += f.Offset
					p.steps = append(p.steps, s)
				}
			}
		case reflect.Slice:
			et := ft.Elem()
			if k := valueHolder(et); k >= 0 {
				p.steps = append(p.steps, fieldStep{off: f.Offset, kind: 2, typ: et, esz: et.Size(), ek: k})
				continue
			}
			ptr := false
			st := et
			if et.Kind() == reflect.Pointer {
				ptr = true
				st = et.Elem()
			}
			if st.Kind() == reflect.Struct && st.PkgPath() == irPkgPath &&
				!reflect.PointerTo(st).Implements(instrIface) && !reflect.PointerTo(st).Implements(valueIface) &&
				st.Name() != "BasicBlock" && st.Name() != "Function" && st.Name() != "Package" && st.Name() != "Program" {
				sub := planFor(st, depth+1)
				if len(sub.steps) > 0 {
					p.steps = append(p.steps, fieldStep{off: f.Offset, kind: 2, typ: st, elem: sub, ptr: ptr, esz: et.Size()})
				}
			}
		}
	}
	return p
}

func readHolder(base unsafe.Pointer, off uintptr, kind int, typ reflect.Type) ir.Value {
	p := unsafe.Add(base, off)
	if kind == 0 {
		return *(*ir.Value)(p)
	}
	rv := reflect.NewAt(typ, p).Elem()
	if rv.IsNil() {
		return nil
	}
	return rv.Interface().(ir.Value)
}

func (pl *fieldPlan) collect(base unsafe.Pointer, out []ir.Value) []ir.Value {
	for _, s := range pl.steps {
		switch s.kind {
		case 0, 1:
			out = append(out, readHolder(base, s.off, s.kind, s.typ))
		case 2:
			hdr := (*sliceHdr)(unsafe.Add(base, s.off))
			data, n := hdr.data, hdr.len
			for i := 0; i < n; i++ {
				ep := unsafe.Add(data, uintptr(i)*s.esz)
				switch {
				case s.elem == nil:
					out = append(out, readHolder(ep, 0, s.ek, s.typ))
				case s.ptr:
					if q := *(*unsafe.Pointer)(ep); q != nil {
						out = s.elem.collect(q, out)
					}
				default:
					out = s.elem.collect(ep, out)
				}
			}
		}
	}
	return out
}

// FieldOperands returns every operand the struct of in holds (nil entries for nil fields),
// in declaration order, without calling in.Operands.
func FieldOperands(in ir.Instruction, out []ir.Value) []ir.Value {
	rv := reflect.ValueOf(in)
	if rv.Kind() != reflect.Pointer || rv.IsNil() || rv.Elem().Kind() != reflect.Struct {
		return out
	}
	t := rv.Elem().Type()
	planMu.Lock()
	pl := plans[t]
	if pl == nil {
		pl = planFor(t, 0)
		plans[t] = pl
	}
	planMu.Unlock()
	return pl.collect(rv.UnsafePointer(), out)
}

type valEntry struct {
	kind string
	tid  int
	refs *[]ir.Instruction
	v    ir.Value
}

// Dumper writes records; fids are consecutive over the lifetime of the Dumper.
type Dumper struct {
	W   *bufio.Writer
	fid int
	pid int
}

// Package writes a P record and returns its id.
func (d *Dumper) Package(path, file string) int {
	d.pid++
	fmt.Fprintf(d.W, "P %d %s %s\n", d.pid, Hex(path), Hex(file))
	return d.pid
}

// Error writes an X record.
func (d *Dumper) Error(pid int, mode, err string) {
	fmt.Fprintf(d.W, "X %d %s %s\n", pid, Hex(mode), Hex(err))
}

func itoa(i int) string { return strconv.Itoa(i) }

func optID(i int) string {
	if i < 0 {
		return "-"
	}
	return strconv.Itoa(i)
}

// Function dumps one function (no-op for functions without blocks).
func (d *Dumper) Function(pid int, fn *ir.Function, mode string) {
	if len(fn.Blocks) == 0 {
		return
	}
	d.fid++
	fid := d.fid
	w := d.W

	tt := &typeTable{custom: map[string]int{}}
	tid := func(t types.Type) int { return tt.id(t, 0) }

	// instruction numbering: position in block order
	inum := map[ir.Instruction]int{}
	m := 0
	for _, b := range fn.Blocks {
		if b == nil {
			continue
		}
		for _, in := range b.Instrs {
			if in == nil {
				continue
			}
			if _, dup := inum[in]; !dup {
				inum[in] = m
			}
			m++
		}
	}

	var vals []*valEntry
	vnum := map[any]int{} // ir.Value or dangling ir.Instruction -> value id
	addVal := func(key any, e *valEntry) int {
		if id, ok := vnum[key]; ok {
			return id
		}
		id := m + len(vals)
		vnum[key] = id
		vals = append(vals, e)
		return id
	}
	valueID := func(v ir.Value) int {
		if in, ok := v.(ir.Instruction); ok {
			if id, ok := inum[in]; ok {
				return id
			}
			return addVal(v, &valEntry{kind: "dangling", tid: tid(v.Type()), refs: v.Referrers(), v: v})
		}
		kind := "other"
		switch x := v.(type) {
		case *ir.Parameter:
			kind = "param"
			if x.Parent() != fn {
				kind = "foreign"
			}
		case *ir.FreeVar:
			kind = "freevar"
			if x.Parent() != fn {
				kind = "foreign"
			}
		case *ir.Const:
			kind = "const"
		case *ir.AggregateConst:
			kind = "aggconst"
		case *ir.Global:
			kind = "global"
		case *ir.Builtin:
			kind = "builtin"
		case *ir.Function:
			switch {
			case x.Parent() == nil:
				kind = "function"
			case x.Parent() == fn:
				kind = "anonfunc"
			default:
				kind = "foreign"
			}
		}
		return addVal(v, &valEntry{kind: kind, tid: tid(v.Type()), refs: v.Referrers(), v: v})
	}
	instrID := func(in ir.Instruction) int {
		if id, ok := inum[in]; ok {
			return id
		}
		if v, ok := in.(ir.Value); ok {
			return valueID(v)
		}
		return addVal(in, &valEntry{kind: "dangling", tid: -1})
	}

	// every Parameter, FreeVar and anonymous function is a value of the function even if unused
	for _, p := range fn.Params {
		valueID(p)
	}
	for _, fv := range fn.FreeVars {
		valueID(fv)
	}
	for _, a := range fn.AnonFuncs {
		valueID(a)
	}
	locals := map[*ir.Alloc]bool{}
	for _, l := range fn.Locals {
		locals[l] = true
	}

	var ib strings.Builder // I section
	var bb strings.Builder // B section
	var rands []*ir.Value
	var fvals []ir.Value
	writeRefs := func(sb *strings.Builder, refs *[]ir.Instruction) {
		if refs == nil {
			sb.WriteString(" ~")
			return
		}
		sb.WriteByte(' ')
		sb.WriteString(itoa(len(*refs)))
		for _, r := range *refs {
			sb.WriteByte(' ')
			if r == nil {
				sb.WriteString(itoa(addVal(new(int), &valEntry{kind: "dangling", tid: -1})))
			} else {
				sb.WriteString(itoa(instrID(r)))
			}
		}
	}
	for _, b := range fn.Blocks {
		if b == nil {
			fmt.Fprintf(&bb, " - 0 0 0")
			continue
		}
		fmt.Fprintf(&bb, " %d %d", b.Index, len(b.Preds))
		for _, p := range b.Preds {
			if p == nil || p.Parent() != fn {
				bb.WriteString(" -")
			} else {
				bb.WriteString(" " + itoa(p.Index))
			}
		}
		fmt.Fprintf(&bb, " %d", len(b.Succs))
		for _, s := range b.Succs {
			if s == nil || s.Parent() != fn {
				bb.WriteString(" -")
			} else {
				bb.WriteString(" " + itoa(s.Index))
			}
		}
		n := 0
		for _, in := range b.Instrs {
			if in == nil {
				continue
			}
			n++
			kind := instrKind(in)
			ty := -1
			var refs *[]ir.Instruction
			if v, ok := in.(ir.Value); ok {
				ty = tid(v.Type())
				refs = v.Referrers()
			}
			blk := "-"
			if ib2 := in.Block(); ib2 != nil && ib2.Parent() == fn {
				blk = itoa(ib2.Index)
			}
			a, bAttr, c := -1, -1, -1
			var xs []int
			switch x := in.(type) {
			case *ir.Alloc:
				a = b2i(x.Heap)
				bAttr = b2i(locals[x])
			case *ir.BinOp:
				a = opCode[x.Op]
			case *ir.UnOp:
				a = opCode[x.Op]
			case *ir.Field:
				a = x.Field
			case *ir.FieldAddr:
				a = x.Field
			case *ir.Extract:
				a = x.Index
			case *ir.MapLookup:
				a = b2i(x.CommaOk)
			case *ir.Recv:
				a = b2i(x.CommaOk)
			case *ir.TypeAssert:
				a = b2i(x.CommaOk)
				bAttr = tid(x.AssertedType)
			case *ir.Next:
				a = b2i(x.IsString)
			case *ir.Call:
				a, bAttr, c, xs = callAttrs(&x.Call, tid)
			case *ir.Go:
				a, bAttr, c, xs = callAttrs(&x.Call, tid)
			case *ir.Defer:
				a, bAttr, c, xs = callAttrs(&x.Call, tid)
			case *ir.MakeClosure:
				if f, ok := x.Fn.(*ir.Function); ok {
					a = len(f.FreeVars)
					for _, fv := range f.FreeVars {
						xs = append(xs, tid(fv.Type()))
					}
				}
				bAttr = len(x.Bindings)
			case *ir.ConstantSwitch:
				a = len(x.Conds)
			case *ir.TypeSwitch:
				a = len(x.Conds)
				for _, ct := range x.Conds {
					xs = append(xs, tid(ct))
				}
			case *ir.Select:
				a = b2i(x.Blocking)
				bAttr = len(x.States)
				for _, st := range x.States {
					xs = append(xs, int(st.Dir))
				}
			case *ir.DebugRef:
				a = b2i(x.IsAddr)
			case *ir.Return:
				a = len(x.Results)
			case *ir.CompositeValue:
				a = len(x.Values)
				bAttr = x.NumSet
			}
			fmt.Fprintf(&ib, " %s %s %s %d %s %s %s %d", kind, optID(ty), blk, int(in.ID()), optID(a), optID(bAttr), optID(c), len(xs))
			for _, x := range xs {
				ib.WriteString(" " + optID(x))
			}
			rands = in.Operands(rands[:0])
			ib.WriteString(" " + itoa(len(rands)))
			for _, op := range rands {
				if op == nil || *op == nil {
					ib.WriteString(" -")
				} else {
					ib.WriteString(" " + itoa(valueID(*op)))
				}
			}
			fvals = FieldOperands(in, fvals[:0])
			ib.WriteString(" " + itoa(len(fvals)))
			for _, fv := range fvals {
				if fv == nil {
					ib.WriteString(" -")
				} else {
					ib.WriteString(" " + itoa(valueID(fv)))
				}
			}
			writeRefs(&ib, refs)
		}
		fmt.Fprintf(&bb, " %d", n)
	}

	// V section (referrers of values may add dangling entries while we iterate)
	var vb strings.Builder
	for i := 0; i < len(vals); i++ {
		e := vals[i]
		fmt.Fprintf(&vb, " %s %s", e.kind, optID(e.tid))
		writeRefs(&vb, e.refs)
	}

	// signature results
	var res []int
	if sig := fn.Signature; sig != nil {
		for i := 0; i < sig.Results().Len(); i++ {
			res = append(res, tid(sig.Results().At(i).Type()))
		}
	}
	// function level: Params, receiver + Signature.Params, FreeVars, Locals
	var hdr strings.Builder
	fmt.Fprintf(&hdr, " %d", len(fn.Params))
	for _, p := range fn.Params {
		hdr.WriteString(" " + itoa(valueID(p)))
	}
	var sigps []int
	if sig := fn.Signature; sig != nil {
		if sig.Recv() != nil {
			sigps = append(sigps, tid(sig.Recv().Type()))
		}
		for i := 0; i < sig.Params().Len(); i++ {
			sigps = append(sigps, tid(sig.Params().At(i).Type()))
		}
	}
	fmt.Fprintf(&hdr, " %d", len(sigps))
	for _, t := range sigps {
		hdr.WriteString(" " + itoa(t))
	}
	fmt.Fprintf(&hdr, " %d", len(fn.FreeVars))
	for _, fv := range fn.FreeVars {
		hdr.WriteString(" " + itoa(valueID(fv)))
	}
	fmt.Fprintf(&hdr, " %d", len(fn.Locals))
	for _, l := range fn.Locals {
		if id, ok := inum[l]; ok && l != nil {
			hdr.WriteString(" " + itoa(id))
		} else {
			hdr.WriteString(" -")
		}
	}
	hdr.WriteString(" " + itoa(b2i(strings.Contains(mode, "N"))))
	tt.expand()

	rec := "-"
	if fn.Recover != nil {
		rec = "x"
		if fn.Recover.Parent() == fn && fn.Recover.Index >= 0 && fn.Recover.Index < len(fn.Blocks) && fn.Blocks[fn.Recover.Index] == fn.Recover {
			rec = itoa(fn.Recover.Index)
		}
	}
	fmt.Fprintf(w, "F %d %d %s %s %d %d %s\n", fid, pid, Hex(fn.String()), mode, len(fn.Blocks), m, Hex(fn.Synthetic))
	fmt.Fprintf(w, "C %d chk %d %d %d %d %s %d", fid, len(fn.Blocks), m, len(vals), len(tt.entries), rec, len(res))
	for _, r := range res {
		w.WriteString(" " + itoa(r))
	}
	w.WriteString(hdr.String())
	w.WriteString(" T")
	for _, e := range tt.entries {
		fmt.Fprintf(w, " %s %d %s %d %d %d", e.ctor, e.under, optID(e.core), e.flags, e.length, len(e.kids))
		for _, k := range e.kids {
			w.WriteString(" " + itoa(k))
		}
	}
	w.WriteString(" V")
	w.WriteString(vb.String())
	w.WriteString(" B")
	w.WriteString(bb.String())
	w.WriteString(" I")
	w.WriteString(ib.String())
	w.WriteString("\n")
}

func b2i(b bool) int {
	if b {
		return 1
	}
	return 0
}

// callAttrs: a = invoke mode, b = type id of CallCommon.Signature() (real API), c = len(Args),
// xs = [signature has a receiver] (types.Identical ignores receivers, so this is not a
// property of the type class).
func callAttrs(c *ir.CallCommon, tid func(types.Type) int) (int, int, int, []int) {
	sig := -1
	recv := 0
	func() {
		defer func() { _ = recover() }()
		if s := c.Signature(); s != nil {
			sig = tid(s)
			recv = b2i(s.Recv() != nil)
		}
	}()
	return b2i(c.IsInvoke()), sig, len(c.Args), []int{recv}
}

// SortFuncs orders functions deterministically.
func SortFuncs(fs []*ir.Function) {
	key := func(f *ir.Function) string {
		return fmt.Sprintf("%s\x00%s\x00%010d", f.String(), f.Synthetic, int(f.Pos()))
	}
	slices.SortStableFunc(fs, func(a, b *ir.Function) int { return strings.Compare(key(a), key(b)) })
}
