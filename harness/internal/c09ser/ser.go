// Package c09ser serialises the Go values the pattern matcher sees (ast nodes, slices,
// strings, tokens, nil) into the token stream the Lean C09 driver parses.
//
// Grammar (space separated tokens, prefix notation):
//
//	T ::= N                                  untyped nil
//	    | S <hex>                            string ("-" = empty)
//	    | K <int>                            token.Token
//	    | O <word>                           any other scalar (bool, int, ChanDir, reflect.Value ...)
//	    | P <Kind> <cls>                     typed nil pointer *ast.<Kind>
//	    | A <Kind> <cls> <n> (<field> T)*    non-nil *ast.<Kind>; fields in struct order without
//	                                         token.Pos, *ast.Object, *ast.CommentGroup
//	    | L <ek> <isnil> <n> T*              slice; ek = E ([]ast.Expr) S ([]ast.Stmt) F ([]*ast.Field) X (other)
//
// cls = E (implements ast.Expr) | S (ast.Stmt) | F (*ast.Field) | X (anything else).
package c09ser

import (
	"encoding/hex"
	"fmt"
	"go/ast"
	"go/token"
	"reflect"
	"strconv"
	"strings"
)

var (
	rtTokPos       = reflect.TypeFor[token.Pos]()
	rtObject       = reflect.TypeFor[*ast.Object]()
	rtCommentGroup = reflect.TypeFor[*ast.CommentGroup]()
	rtExprSlice    = reflect.TypeFor[[]ast.Expr]()
	rtStmtSlice    = reflect.TypeFor[[]ast.Stmt]()
	rtFieldSlice   = reflect.TypeFor[[]*ast.Field]()
	rtValue        = reflect.TypeFor[reflect.Value]()
)

func Hex(s string) string {
	if s == "" {
		return "-"
	}
	return hex.EncodeToString([]byte(s))
}

func cls(v any) string {
	if _, ok := v.(*ast.Field); ok {
		return "F"
	}
	if _, ok := v.(ast.Expr); ok {
		return "E"
	}
	if _, ok := v.(ast.Stmt); ok {
		return "S"
	}
	return "X"
}

// Ser appends the serialisation of v.
func Ser(sb *strings.Builder, v any) {
	if v == nil {
		sb.WriteString(" N")
		return
	}
	switch x := v.(type) {
	case string:
		sb.WriteString(" S " + Hex(x))
		return
	case token.Token:
		sb.WriteString(" K " + strconv.Itoa(int(x)))
		return
	case bool:
		if x {
			sb.WriteString(" O b1")
		} else {
			sb.WriteString(" O b0")
		}
		return
	case reflect.Value:
		sb.WriteString(" O rv")
		return
	}
	rv := reflect.ValueOf(v)
	switch rv.Kind() {
	case reflect.Slice:
		ek := "X"
		switch rv.Type() {
		case rtExprSlice:
			ek = "E"
		case rtStmtSlice:
			ek = "S"
		case rtFieldSlice:
			ek = "F"
		}
		isnil := "0"
		if rv.IsNil() {
			isnil = "1"
		}
		fmt.Fprintf(sb, " L %s %s %d", ek, isnil, rv.Len())
		for i := 0; i < rv.Len(); i++ {
			Ser(sb, rv.Index(i).Interface())
		}
	case reflect.Pointer:
		if _, ok := v.(ast.Node); !ok || rv.Type().Elem().Kind() != reflect.Struct {
			fmt.Fprintf(sb, " O ptr%s", rv.Type().Elem().Name())
			return
		}
		kind := rv.Type().Elem().Name()
		if rv.IsNil() {
			fmt.Fprintf(sb, " P %s %s", kind, cls(v))
			return
		}
		el := rv.Elem()
		var idx []int
		for i := 0; i < el.NumField(); i++ {
			t := el.Field(i).Type()
			if t == rtTokPos || t == rtObject || t == rtCommentGroup {
				continue
			}
			idx = append(idx, i)
		}
		fmt.Fprintf(sb, " A %s %s %d", kind, cls(v), len(idx))
		for _, i := range idx {
			sb.WriteString(" " + el.Type().Field(i).Name)
			Ser(sb, el.Field(i).Interface())
		}
	case reflect.Int, reflect.Int8, reflect.Int16, reflect.Int32, reflect.Int64:
		fmt.Fprintf(sb, " O i%d", rv.Int())
	default:
		fmt.Fprintf(sb, " O k%s", rv.Kind())
	}
}

func String(v any) string {
	var sb strings.Builder
	Ser(&sb, v)
	return strings.TrimPrefix(sb.String(), " ")
}
