package c07pkg

import (
	"fmt"
	"go/ast"
	"go/token"
	"go/types"
	"path/filepath"
	"sort"
	"strings"

	"honnef.co/go/tools/unused"
)

// ZeroRef is the outcome of the completeness oracle.
type ZeroRef struct {
	Candidates int      `json:"candidates"`        // unexported package-level func/type/var/stand-alone const without any referring identifier
	Names      []string `json:"names,omitempty"`   // those candidates (kind name)
	Missing    []string `json:"missing,omitempty"` // candidates that are NOT in Result.Unused
	Skipped    int      `json:"skipped"`           // candidates exempted (generated file, lint directive, linkname, cgo export, runtime)
}

// ZeroRefOracle computes, from go/types alone, the unexported package-level functions,
// named (defined) types, variables and stand-alone constants that no identifier of the
// package refers to, and demands that each is in Result.Unused.
//
// Exempt (the statement and the documented rule list do not promise them): `init`,
// `main` in package main, `_`, methods, fields, constants that share a const group with
// others, type aliases, objects in generated files, objects in files carrying a
// //lint:ignore / //lint:file-ignore directive that names U1000, names mentioned by
// //go:linkname, functions with a //go:cgo_export_ doc comment, package runtime.
func ZeroRefOracle(l *Loaded, res unused.Result, generatedFiles map[string]bool) *ZeroRef {
	z := &ZeroRef{}
	refs := map[types.Object]int{}
	for _, obj := range l.Info.Uses {
		refs[origin(obj)]++
	}

	// stand-alone constants and per-file exemptions
	standAlone := map[types.Object]bool{}
	exemptFile := map[string]bool{}
	linknamed := map[string]bool{}
	cgoExport := map[types.Object]bool{}
	for _, f := range l.Files {
		fn := l.Fset.PositionFor(f.Pos(), false).Filename
		for _, cg := range f.Comments {
			for _, c := range cg.List {
				if strings.HasPrefix(c.Text, "//lint:") && strings.Contains(c.Text, "U1000") {
					exemptFile[fn] = true
				}
				if strings.HasPrefix(c.Text, "//go:linkname ") {
					fs := strings.Fields(c.Text)
					if len(fs) >= 2 {
						linknamed[fs[1]] = true
					}
				}
			}
		}
		for _, d := range f.Decls {
			switch d := d.(type) {
			case *ast.GenDecl:
				if d.Tok == token.CONST && len(d.Specs) == 1 {
					vs := d.Specs[0].(*ast.ValueSpec)
					if len(vs.Names) == 1 {
						if o := l.Info.Defs[vs.Names[0]]; o != nil {
							standAlone[o] = true
						}
					}
				}
			case *ast.FuncDecl:
				if d.Doc != nil {
					for _, c := range d.Doc.List {
						if strings.HasPrefix(c.Text, "//go:cgo_export_") || strings.HasPrefix(c.Text, "//export ") {
							if o := l.Info.Defs[d.Name]; o != nil {
								cgoExport[o] = true
							}
						}
					}
				}
			}
		}
	}

	unusedSet := map[string]bool{}
	for _, o := range res.Unused {
		unusedSet[o.Kind+"@"+o.Position.String()+"#"+o.ShortName] = true
	}

	scope := l.Pkg.Scope()
	for _, name := range scope.Names() {
		obj := scope.Lookup(name)
		if token.IsExported(name) || name == "_" {
			continue
		}
		switch o := obj.(type) {
		case *types.Func:
			if name == "init" || (name == "main" && l.Pkg.Name() == "main") {
				continue
			}
		case *types.TypeName:
			if o.IsAlias() {
				continue
			}
		case *types.Var:
		case *types.Const:
			if !standAlone[obj] {
				continue
			}
		default:
			continue
		}
		if refs[obj] != 0 {
			continue
		}
		pos := l.Fset.PositionFor(obj.Pos(), false)
		if generatedFiles[pos.Filename] || exemptFile[pos.Filename] || linknamed[name] || cgoExport[obj] ||
			l.Pkg.Path() == "runtime" || l.Pkg.Path() == "runtime/coverage" {
			z.Skipped++
			continue
		}
		z.Candidates++
		label := kindOf(obj) + " " + name
		z.Names = append(z.Names, label)
		if !unusedSet[kindOf(obj)+"@"+pos.String()+"#"+name] {
			z.Missing = append(z.Missing, fmt.Sprintf("%s @%s:%d", label, filepath.Base(pos.Filename), pos.Line))
		}
	}
	sort.Strings(z.Names)
	sort.Strings(z.Missing)
	return z
}

// Refs computes the program's reference relation independently of unused: for every
// identifier that denotes an object of this package, the chain of declarations that
// enclose the identifier (innermost first) and the object referred to, both as node ids of
// the dumped graph.  Identifiers that are pure store targets are left out (see
// DeleteAndCheck).  Returned in the syntax of the c07driver `refs` op, plus counters.
type RefStats struct {
	Refs         int `json:"refs"`
	NoTargetNode int `json:"no_target_node"` // referenced object has no (unambiguous) node
	EmptyChain   int `json:"empty_chain"`
}

func Refs(l *Loaded, g *Graph) (string, []string, RefStats) {
	idx := IndexNodes(g)
	var st RefStats
	type frame struct{ obj types.Object }
	seen := map[string]bool{}
	var out []string
	var desc []string

	storeTargets := map[*ast.Ident]bool{}
	unparenIdent := func(e ast.Expr) *ast.Ident {
		for {
			if p, ok := e.(*ast.ParenExpr); ok {
				e = p.X
				continue
			}
			break
		}
		id, _ := e.(*ast.Ident)
		return id
	}
	for _, f := range l.Files {
		ast.Inspect(f, func(n ast.Node) bool {
			switch n := n.(type) {
			case *ast.AssignStmt:
				if n.Tok != token.DEFINE {
					for _, lhs := range n.Lhs {
						if id := unparenIdent(lhs); id != nil {
							storeTargets[id] = true
						}
					}
				}
			case *ast.IncDecStmt:
				if id := unparenIdent(n.X); id != nil {
					storeTargets[id] = true
				}
			case *ast.RangeStmt:
				if n.Tok == token.ASSIGN {
					for _, e := range []ast.Expr{n.Key, n.Value} {
						if e != nil {
							if id := unparenIdent(e); id != nil {
								storeTargets[id] = true
							}
						}
					}
				}
			}
			return true
		})
	}

	var stack []types.Object
	emit := func(id *ast.Ident) {
		obj := l.Info.Uses[id]
		if obj == nil || obj.Pkg() != l.Pkg {
			return
		}
		if _, ok := obj.(*types.PkgName); ok {
			return
		}
		if storeTargets[id] {
			if _, isVar := obj.(*types.Var); isVar {
				return
			}
		}
		st.Refs++
		y := l.nodeOf(idx, obj)
		if y < 0 {
			st.NoTargetNode++
			return
		}
		var chain []string
		for i := len(stack) - 1; i >= 0; i-- {
			if x := l.nodeOf(idx, stack[i]); x >= 0 {
				chain = append(chain, fmt.Sprint(x))
			}
		}
		if len(chain) == 0 {
			st.EmptyChain++
		}
		s := strings.Join(chain, ".") + ">" + fmt.Sprint(y)
		if !seen[s] {
			seen[s] = true
			out = append(out, s)
			pos := l.Fset.PositionFor(id.Pos(), false)
			desc = append(desc, fmt.Sprintf("%s @%s:%d:%d", id.Name, filepath.Base(pos.Filename), pos.Line, pos.Column))
		}
	}

	var walk func(n ast.Node)
	push := func(id *ast.Ident, body func()) {
		var obj types.Object
		if id != nil {
			obj = l.Info.Defs[id]
		}
		if obj != nil {
			stack = append(stack, obj)
			body()
			stack = stack[:len(stack)-1]
		} else {
			body()
		}
	}
	walkField := func(fld *ast.Field, embedded bool) {
		if len(fld.Names) > 0 {
			push(fld.Names[0], func() { walk(fld.Type) })
			return
		}
		if embedded {
			// the embedded field is declared by the type name identifier itself
			var id *ast.Ident
			e := fld.Type
		loop:
			for {
				switch x := e.(type) {
				case *ast.Ident:
					id = x
					break loop
				case *ast.StarExpr:
					e = x.X
				case *ast.SelectorExpr:
					id = x.Sel
					break loop
				case *ast.IndexExpr:
					e = x.X
				case *ast.IndexListExpr:
					e = x.X
				case *ast.ParenExpr:
					e = x.X
				default:
					break loop
				}
			}
			push(id, func() { walk(fld.Type) })
			return
		}
		walk(fld.Type)
	}
	walk = func(n ast.Node) {
		if n == nil {
			return
		}
		switch n := n.(type) {
		case *ast.FuncDecl:
			push(n.Name, func() {
				if n.Recv != nil {
					walk(n.Recv)
				}
				walk(n.Type)
				if n.Body != nil {
					walk(n.Body)
				}
			})
			return
		case *ast.GenDecl:
			var cur *ast.ValueSpec
			for _, s := range n.Specs {
				switch s := s.(type) {
				case *ast.TypeSpec:
					push(s.Name, func() {
						if s.TypeParams != nil {
							walk(s.TypeParams)
						}
						walk(s.Type)
					})
				case *ast.ValueSpec:
					if len(s.Values) != 0 {
						cur = s
					}
					for i, name := range s.Names {
						push(name, func() {
							if s.Type != nil {
								walk(s.Type)
							}
							switch {
							case len(s.Values) == len(s.Names):
								walk(s.Values[i])
							case len(s.Values) != 0:
								walk(s.Values[0])
							}
						})
					}
					_ = cur
				}
			}
			return
		case *ast.StructType:
			if n.Fields != nil {
				for _, fld := range n.Fields.List {
					walkField(fld, true)
				}
			}
			return
		case *ast.InterfaceType:
			if n.Methods != nil {
				for _, fld := range n.Methods.List {
					walkField(fld, false)
				}
			}
			return
		case *ast.FieldList:
			for _, fld := range n.List {
				walkField(fld, false)
			}
			return
		case *ast.Ident:
			emit(n)
			return
		case *ast.SelectorExpr:
			walk(n.X)
			emit(n.Sel)
			return
		case *ast.KeyValueExpr:
			walk(n.Key)
			walk(n.Value)
			return
		}
		// generic descent
		ast.Inspect(n, func(c ast.Node) bool {
			if c == n || c == nil {
				return true
			}
			walk(c)
			return false
		})
	}
	for _, f := range l.Files {
		for _, d := range f.Decls {
			walk(d)
		}
	}
	if len(out) == 0 {
		return "-", nil, st
	}
	return strings.Join(out, ";"), desc, st
}
