package c07pkg

import (
	"fmt"
	"go/ast"
	"go/token"
	"go/types"
	"path/filepath"
	"sort"
	"strings"

	"honnef.co/go/tools/unused"
)

// DisplayName is the Name the analyzer gives an object (unused.Object.Name): methods are
// qualified by their receiver type.  Re-derived here from go/types so that objects can be
// matched with dump labels and with the U1000 lines of the staticcheck binary.
func DisplayName(obj types.Object) string {
	name := obj.Name()
	if sig, ok := obj.Type().(*types.Signature); ok && sig.Recv() != nil {
		switch types.Unalias(sig.Recv().Type()).(type) {
		case *types.Named, *types.Pointer:
			typ := types.TypeString(sig.Recv().Type(), func(*types.Package) string { return "" })
			if len(typ) > 0 && typ[0] == '*' {
				name = fmt.Sprintf("(%s).%s", typ, obj.Name())
			} else if len(typ) > 0 {
				name = fmt.Sprintf("%s.%s", typ, obj.Name())
			}
		}
	}
	return name
}

// KindName is "<kind> <display name>", the first line of a dump label.
func KindName(obj types.Object) string { return kindOf(obj) + " " + DisplayName(obj) }

// NodeKindNames returns "<kind> <name> @<base>:<line>:<col>" for every node (index = node
// id, "" for the root).
func NodeKindNames(g *Graph) []string {
	out := make([]string, g.N)
	for i := 1; i < g.N; i++ {
		l := g.Labels[i]
		if j := strings.LastIndex(l, "\n"); j >= 0 {
			pos := l[j+1:]
			if k := strings.LastIndex(pos, "/"); k >= 0 {
				pos = pos[k+1:]
			}
			l = l[:j] + " @" + pos
		}
		out[i] = l
	}
	return out
}

// PosLabel is KindName plus the declaration position, the same format as NodeKindNames.
func (l *Loaded) PosLabel(obj types.Object) string {
	p := l.Fset.PositionFor(obj.Pos(), false)
	return fmt.Sprintf("%s @%s:%d:%d", KindName(obj), filepath.Base(p.Filename), p.Line, p.Column)
}

// SelFact is one selection of a method set.
type SelFact struct {
	Name     string   `json:"name"` // method name + "|" + signature: what implements() compares
	Exported bool     `json:"exported"`
	Path     []string `json:"path"` // embedded fields on the way (kind name), outermost first
	Obj      string   `json:"obj"`  // the method (kind name)
}

// TypeFact: what the walk asks go/types about one declared type name.
type TypeFact struct {
	Label      string    `json:"label"`
	Local      bool      `json:"local"`
	Alias      bool      `json:"alias"`
	UnderIface bool      `json:"under_iface"`
	MsV        []SelFact `json:"msv"`
	MsP        []SelFact `json:"msp"`
	Full       []string  `json:"full,omitempty"` // complete method set when the underlying type is an interface
}

func methodKey(f *types.Func) string {
	sig := f.Type().(*types.Signature)
	// the signature without the receiver
	return f.Name() + "|" + types.TypeString(types.NewSignatureType(nil, nil, nil, sig.Params(), sig.Results(), sig.Variadic()), func(*types.Package) string { return "" })
}

func (l *Loaded) selFacts(T types.Type) []SelFact {
	ms := types.NewMethodSet(T)
	var out []SelFact
	for i := 0; i < ms.Len(); i++ {
		sel := ms.At(i)
		f := sel.Obj().(*types.Func)
		sf := SelFact{Name: methodKey(f), Exported: token.IsExported(f.Name()), Obj: l.PosLabel(origin(f)), Path: []string{}}
		base := sel.Recv()
		idx := sel.Index()
		for _, k := range idx[:len(idx)-1] {
			t := base
			if p, ok := t.Underlying().(*types.Pointer); ok {
				t = p.Elem()
			}
			st := t.Underlying().(*types.Struct)
			fld := st.Field(k)
			sf.Path = append(sf.Path, l.PosLabel(origin(fld)))
			base = fld.Type()
		}
		out = append(out, sf)
	}
	return out
}

// TypeFacts lists every non-generic type name declared in the package (package level or
// inside a function) with its two method sets, computed with go/types only.
func TypeFacts(l *Loaded) []TypeFact {
	var out []TypeFact
	for _, obj := range l.Info.Defs {
		tn, ok := obj.(*types.TypeName)
		if !ok || tn.Pkg() != l.Pkg {
			continue
		}
		if _, isTP := tn.Type().(*types.TypeParam); isTP {
			continue
		}
		if n, ok := tn.Type().(*types.Named); ok && n.TypeParams().Len() > 0 {
			continue
		}
		tf := TypeFact{Label: l.PosLabel(tn), Local: tn.Parent() != l.Pkg.Scope(), Alias: tn.IsAlias()}
		if it, ok := tn.Type().Underlying().(*types.Interface); ok {
			tf.UnderIface = true
			for i := 0; i < it.NumMethods(); i++ {
				tf.Full = append(tf.Full, methodKey(it.Method(i)))
			}
			sort.Strings(tf.Full)
		}
		tf.MsV = l.selFacts(tn.Type())
		tf.MsP = l.selFacts(types.NewPointer(tn.Type()))
		out = append(out, tf)
	}
	sort.Slice(out, func(i, j int) bool { return out[i].Label < out[j].Label })
	return out
}

// BinaryReported turns U1000 lines of the staticcheck binary (kind, display name, file,
// line, column) into the objects they denote, the way ReportedObjects does for Result.Unused.
func BinaryReported(lines [][5]string) []unused.Object {
	var out []unused.Object
	for _, r := range lines {
		var line, col int
		fmt.Sscan(r[3], &line)
		fmt.Sscan(r[4], &col)
		short := r[1]
		if i := strings.LastIndex(short, "."); i >= 0 {
			short = short[i+1:]
		}
		out = append(out, unused.Object{
			Name:      r[1],
			ShortName: short,
			Kind:      r[0],
			Position:  token.Position{Filename: r[2], Line: line, Column: col},
		})
	}
	return out
}

// UsedInsideReported counts Used objects whose declaring identifier lies inside the
// syntax of a reported (Unused) function, type or field list — the statement removes
// "the objects declared inside" a reported object, so none of them may be needed.
func UsedInsideReported(l *Loaded, res unused.Result) []string {
	idx := l.defIndex()
	type span struct {
		file       string
		start, end token.Pos
		label      string
	}
	var spans []span
	rep, _ := l.ReportedObjects(res.Unused)
	for _, f := range l.Files {
		for _, sp := range reportedSpans(l, f, rep) {
			spans = append(spans, span{l.Fset.PositionFor(f.Pos(), false).Filename, sp[0], sp[1], ""})
		}
	}
	var out []string
	for _, o := range res.Used {
		for _, id := range idx[o.Kind+"@"+o.Position.String()] {
			if id.Name != o.ShortName {
				continue
			}
			for _, sp := range spans {
				if sp.start <= id.Pos() && id.Pos() < sp.end && l.Fset.PositionFor(id.Pos(), false).Filename == sp.file {
					out = append(out, strings.ReplaceAll(ObjLabel(o), "\n", " @"))
				}
			}
		}
	}
	sort.Strings(out)
	return out
}

// reportedSpans returns the source extents that disappear when the reported functions
// and type specs of f are removed.
func reportedSpans(l *Loaded, f *ast.File, rep map[types.Object]bool) [][2]token.Pos {
	var out [][2]token.Pos
	ast.Inspect(f, func(n ast.Node) bool {
		switch n := n.(type) {
		case *ast.FuncDecl:
			if o := l.Info.Defs[n.Name]; o != nil && rep[o] {
				out = append(out, [2]token.Pos{n.Pos(), n.End()})
				return false
			}
		case *ast.TypeSpec:
			if o := l.Info.Defs[n.Name]; o != nil && rep[o] {
				out = append(out, [2]token.Pos{n.Type.Pos(), n.End()})
				return false
			}
		}
		return true
	})
	return out
}
