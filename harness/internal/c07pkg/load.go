// Package c07pkg drives the REAL unused analyzer (honnef.co/go/tools/unused) on one
// package in-process and evaluates the C07 oracles against the Go type checker.
//
// Nothing in here looks at unused's rules: the deletion oracle and the zero-reference
// oracle are computed from go/ast + go/types only.
package c07pkg

import (
	"bytes"
	"fmt"
	"go/ast"
	"go/importer"
	"go/parser"
	"go/token"
	"go/types"
	"sort"
	"strconv"
	"strings"

	"golang.org/x/tools/go/analysis"
	"honnef.co/go/tools/analysis/facts/directives"
	"honnef.co/go/tools/analysis/facts/generated"
	"honnef.co/go/tools/unused"
)

// Loaded is one parsed and type-checked package.
type Loaded struct {
	Fset  *token.FileSet
	Files []*ast.File
	Paths []string
	Pkg   *types.Package
	Info  *types.Info
}

// Importer resolves imports: packages registered by earlier jobs first (test variants
// imported by external test packages), then the standard library from source.
type Importer struct {
	Registered map[string]*types.Package
	src        types.Importer
	fset       *token.FileSet
}

func NewImporter() *Importer {
	fset := token.NewFileSet()
	return &Importer{Registered: map[string]*types.Package{}, src: importer.ForCompiler(fset, "source", nil), fset: fset}
}

func (i *Importer) Import(path string) (*types.Package, error) {
	if p, ok := i.Registered[path]; ok {
		return p, nil
	}
	if path == "unsafe" {
		return types.Unsafe, nil
	}
	return i.src.Import(path)
}

func newInfo() *types.Info {
	return &types.Info{
		Types:        map[ast.Expr]types.TypeAndValue{},
		Defs:         map[*ast.Ident]types.Object{},
		Uses:         map[*ast.Ident]types.Object{},
		Implicits:    map[ast.Node]types.Object{},
		Selections:   map[*ast.SelectorExpr]*types.Selection{},
		Scopes:       map[ast.Node]*types.Scope{},
		Instances:    map[*ast.Ident]types.Instance{},
		FileVersions: map[*ast.File]string{},
	}
}

// Source is a file given either by path (read from disk) or by content.
type Source struct {
	Path string
	Src  []byte // nil: read Path
}

// Load parses the files in the given order and type-checks them as package pkgPath.
func Load(srcs []Source, pkgPath string, imp types.Importer) (*Loaded, []error) {
	fset := token.NewFileSet()
	l := &Loaded{Fset: fset, Info: newInfo()}
	var errs []error
	for _, s := range srcs {
		var src any
		if s.Src != nil {
			src = s.Src
		}
		f, err := parser.ParseFile(fset, s.Path, src, parser.ParseComments|parser.SkipObjectResolution)
		if err != nil {
			errs = append(errs, err)
			continue
		}
		l.Files = append(l.Files, f)
		l.Paths = append(l.Paths, s.Path)
	}
	if len(errs) > 0 {
		return l, errs
	}
	conf := types.Config{
		Importer: imp,
		Error:    func(err error) { errs = append(errs, err) },
	}
	pkg, _ := conf.Check(pkgPath, fset, l.Files, l.Info)
	l.Pkg = pkg
	return l, errs
}

// Graph is the use/own graph as printed by the real code through unused.Debug.
type Graph struct {
	N      int
	Labels []string // "<kind> <name>\n<position>", "" for the root
	Colors []byte   // U used (green), Q quiet (grey), X unused (red), R root
	Uses   [][2]int // in the order of the dump: by node, then list order
	Owns   [][2]int
}

// Run is the outcome of one run of the real analyzer.
type Run struct {
	Result unused.Result
	Graph  Graph
}

// RunUnused runs generated.Analyzer, directives.Analyzer and then the real
// unused.Analyzer on the loaded package through a hand-built analysis.Pass, capturing
// the graph through the exported unused.Debug writer.  Not safe for concurrent use
// (unused.Debug is a package variable).
func RunUnused(l *Loaded) (run *Run, err error) {
	defer func() {
		if r := recover(); r != nil {
			err = fmt.Errorf("panic in unused: %v", r)
		}
	}()
	mk := func(a *analysis.Analyzer, res map[*analysis.Analyzer]any) *analysis.Pass {
		return &analysis.Pass{
			Analyzer:   a,
			Fset:       l.Fset,
			Files:      l.Files,
			Pkg:        l.Pkg,
			TypesInfo:  l.Info,
			TypesSizes: types.SizesFor("gc", "amd64"),
			ResultOf:   res,
			Report:     func(analysis.Diagnostic) {},
		}
	}
	gen, err := generated.Analyzer.Run(mk(generated.Analyzer, nil))
	if err != nil {
		return nil, err
	}
	dirs, err := directives.Analyzer.Run(mk(directives.Analyzer, nil))
	if err != nil {
		return nil, err
	}
	var buf bytes.Buffer
	unused.Debug = &buf
	defer func() { unused.Debug = nil }()
	res, err := unused.Analyzer.Analyzer.Run(mk(unused.Analyzer.Analyzer, map[*analysis.Analyzer]any{
		generated.Analyzer:  gen,
		directives.Analyzer: dirs,
	}))
	if err != nil {
		return nil, err
	}
	g, err := ParseDot(buf.String())
	if err != nil {
		return nil, err
	}
	return &Run{Result: res.(unused.Result), Graph: g}, nil
}

// ParseDot reads what (*SerializedGraph).Dot printed.
func ParseDot(s string) (Graph, error) {
	var g Graph
	type nd struct {
		label string
		color byte
	}
	nodes := map[int]nd{}
	max := -1
	for _, line := range strings.Split(s, "\n") {
		line = strings.TrimSpace(line)
		if line == "" || line == "digraph{" || line == "}" {
			continue
		}
		if !strings.HasPrefix(line, "n") || !strings.HasSuffix(line, ";") {
			return g, fmt.Errorf("dot: unexpected line %q", line)
		}
		line = strings.TrimSuffix(line, ";")
		if i := strings.Index(line, " -> "); i >= 0 && !strings.Contains(line[:i], "[") {
			a, err1 := strconv.Atoi(line[1:i])
			rest := line[i+4:]
			owned := false
			if strings.HasSuffix(rest, " [style=dashed]") {
				owned = true
				rest = strings.TrimSuffix(rest, " [style=dashed]")
			}
			b, err2 := strconv.Atoi(strings.TrimPrefix(rest, "n"))
			if err1 != nil || err2 != nil {
				return g, fmt.Errorf("dot: bad edge %q", line)
			}
			if owned {
				g.Owns = append(g.Owns, [2]int{a, b})
			} else {
				g.Uses = append(g.Uses, [2]int{a, b})
			}
			continue
		}
		i := strings.Index(line, " [label=")
		if i < 0 {
			return g, fmt.Errorf("dot: bad node %q", line)
		}
		id, err := strconv.Atoi(line[1:i])
		if err != nil {
			return g, fmt.Errorf("dot: bad node id %q", line)
		}
		rest := line[i+len(" [label="):]
		rest = strings.TrimSuffix(rest, "]")
		var n nd
		if id == 0 {
			n.color = 'R'
		} else {
			j := strings.LastIndex(rest, ", color=")
			if j < 0 {
				return g, fmt.Errorf("dot: node without color %q", line)
			}
			lab, err := strconv.Unquote(rest[:j])
			if err != nil {
				return g, fmt.Errorf("dot: bad label %q", line)
			}
			col, err := strconv.Unquote(rest[j+len(", color="):])
			if err != nil {
				return g, fmt.Errorf("dot: bad color %q", line)
			}
			n.label = lab
			switch col {
			case "green":
				n.color = 'U'
			case "grey":
				n.color = 'Q'
			case "red":
				n.color = 'X'
			default:
				return g, fmt.Errorf("dot: unknown color %q", col)
			}
		}
		nodes[id] = n
		if id > max {
			max = id
		}
	}
	g.N = max + 1
	g.Labels = make([]string, g.N)
	g.Colors = make([]byte, g.N)
	for i := 0; i < g.N; i++ {
		n, ok := nodes[i]
		if !ok {
			return g, fmt.Errorf("dot: node %d missing", i)
		}
		g.Labels[i] = n.label
		g.Colors[i] = n.color
	}
	return g, nil
}

// ObjLabel is the Dot label of a result object.
func ObjLabel(o unused.Object) string {
	return fmt.Sprintf("%s %s\n%s", o.Kind, o.Name, o.Position)
}

// CheckResultAgainstDot verifies that Result{Used,Unused,Quiet} is exactly the
// partition of nodes[1:] by the colours of the dump, in node order.
func CheckResultAgainstDot(r *Run) error {
	var u, x, q []string
	for i := 1; i < r.Graph.N; i++ {
		switch r.Graph.Colors[i] {
		case 'U':
			u = append(u, r.Graph.Labels[i])
		case 'X':
			x = append(x, r.Graph.Labels[i])
		case 'Q':
			q = append(q, r.Graph.Labels[i])
		}
	}
	cmp := func(name string, objs []unused.Object, want []string) error {
		if len(objs) != len(want) {
			return fmt.Errorf("%s: %d objects in Result, %d nodes in dump", name, len(objs), len(want))
		}
		for i := range objs {
			if ObjLabel(objs[i]) != want[i] {
				return fmt.Errorf("%s[%d]: Result %q, dump %q", name, i, ObjLabel(objs[i]), want[i])
			}
		}
		return nil
	}
	if err := cmp("Used", r.Result.Used, u); err != nil {
		return err
	}
	if err := cmp("Unused", r.Result.Unused, x); err != nil {
		return err
	}
	return cmp("Quiet", r.Result.Quiet, q)
}

// EdgeString renders edges as the model drivers expect them.
func EdgeString(es [][2]int) string {
	if len(es) == 0 {
		return "-"
	}
	var b strings.Builder
	for i, e := range es {
		if i > 0 {
			b.WriteByte(',')
		}
		fmt.Fprintf(&b, "%d>%d", e[0], e[1])
	}
	return b.String()
}

// kindOf mirrors the Kind strings of unused.Object (unused.typString).
func kindOf(obj types.Object) string {
	switch obj := obj.(type) {
	case *types.Func:
		return "func"
	case *types.Var:
		if obj.IsField() {
			return "field"
		}
		return "var"
	case *types.Const:
		return "const"
	case *types.TypeName:
		if _, ok := obj.Type().(*types.TypeParam); ok {
			return "type param"
		}
		return "type"
	default:
		return "identifier"
	}
}

func origin(obj types.Object) types.Object {
	switch obj := obj.(type) {
	case *types.Var:
		return obj.Origin()
	case *types.Func:
		return obj.Origin()
	}
	return obj
}

// posKey identifies an object by kind and declaration position, like the dump labels do.
func (l *Loaded) posKey(obj types.Object) string {
	return kindOf(obj) + "@" + l.Fset.PositionFor(obj.Pos(), false).String()
}

func labelKey(label string) (key, name string) {
	i := strings.LastIndex(label, "\n")
	if i < 0 {
		return "", ""
	}
	head, pos := label[:i], label[i+1:]
	kind := head
	if strings.HasPrefix(head, "type param ") {
		kind, name = "type param", head[len("type param "):]
	} else if j := strings.Index(head, " "); j >= 0 {
		kind, name = head[:j], head[j+1:]
	}
	return kind + "@" + pos, name
}

// NodeIndex maps kind@position to node ids of the dump.
type NodeIndex map[string][]int

func IndexNodes(g *Graph) NodeIndex {
	idx := NodeIndex{}
	for i := 1; i < g.N; i++ {
		k, _ := labelKey(g.Labels[i])
		idx[k] = append(idx[k], i)
	}
	return idx
}

// nodeOf returns the node of obj, or -1 when there is none or it is ambiguous.
func (l *Loaded) nodeOf(idx NodeIndex, obj types.Object) int {
	ids := idx[l.posKey(origin(obj))]
	if len(ids) == 1 {
		return ids[0]
	}
	return -1
}

func sortedKeys[V any](m map[string]V) []string {
	ks := make([]string, 0, len(m))
	for k := range m {
		ks = append(ks, k)
	}
	sort.Strings(ks)
	return ks
}

// Recheck type-checks the (possibly re-ordered) syntax trees of l again.
func Recheck(l *Loaded, pkgPath string, imp types.Importer) (*Loaded, []error) {
	l2 := &Loaded{Fset: l.Fset, Files: l.Files, Paths: l.Paths, Info: newInfo()}
	var errs []error
	conf := types.Config{Importer: imp, Error: func(err error) { errs = append(errs, err) }}
	pkg, _ := conf.Check(pkgPath, l.Fset, l.Files, l2.Info)
	l2.Pkg = pkg
	return l2, errs
}

// IsGenerated applies the real generated.Analyzer to one file.
func IsGenerated(path string) bool {
	fset := token.NewFileSet()
	f, err := parser.ParseFile(fset, path, nil, parser.PackageClauseOnly)
	if err != nil {
		return false
	}
	m, err := generated.Analyzer.Run(&analysis.Pass{Fset: fset, Files: []*ast.File{f}})
	if err != nil {
		return false
	}
	return len(m.(map[string]generated.Generator)) > 0
}
