package c07pkg

import (
	"bytes"
	"fmt"
	"go/ast"
	"go/printer"
	"go/token"
	"go/types"
	"regexp"
	"strings"

	"golang.org/x/tools/go/ast/astutil"
	"honnef.co/go/tools/unused"
)

// DelResult is the outcome of the deletion oracle.
type DelResult struct {
	OK             bool              `json:"ok"`
	Reported       int               `json:"reported"`
	Unmapped       []string          `json:"unmapped,omitempty"` // reported objects without a declaring identifier
	Errors         []string          `json:"errors,omitempty"`
	RemovedImports int               `json:"removed_imports"`
	BlankedWrites  int               `json:"blanked_writes"`
	Rounds         int               `json:"rounds"`
	Src            map[string]string `json:"src,omitempty"` // the reduced package, only when !OK
}

// declaring identifiers by kind@position
func (l *Loaded) defIndex() map[string][]*ast.Ident {
	m := map[string][]*ast.Ident{}
	for id, obj := range l.Info.Defs {
		if obj == nil {
			continue
		}
		k := l.posKey(obj)
		m[k] = append(m[k], id)
	}
	return m
}

// ReportedObjects maps Result.Unused to types.Objects through their declaring identifiers.
func (l *Loaded) ReportedObjects(objs []unused.Object) (map[types.Object]bool, []string) {
	idx := l.defIndex()
	set := map[types.Object]bool{}
	var unmapped []string
	for _, o := range objs {
		k := o.Kind + "@" + o.Position.String()
		ids := idx[k]
		found := false
		for _, id := range ids {
			if id.Name == o.ShortName {
				set[l.Info.Defs[id]] = true
				found = true
			}
		}
		if !found {
			unmapped = append(unmapped, strings.ReplaceAll(ObjLabel(o), "\n", " @"))
		}
	}
	return set, unmapped
}

var unusedImportRE = regexp.MustCompile(`imported (as \S+ )?and not used`)

// DeleteAndCheck removes every reported object (with whatever is declared inside it) from
// the package's syntax, prints the reduced files, and type-checks them again.  Imports
// that became unused are dropped (the statement exempts them).
//
// How an object is removed:
//   - function / method: its declaration;
//   - type: its type spec; named struct field / embedded field: the field;
//   - package-level or local var / const: its name (and the corresponding initialiser); a
//     name that shares one multi-value initialiser with kept names becomes `_`;
//     const specs keep their place in the group (`_ = 0`) and implicit repetitions of a
//     removed expression are written out first, so that iota and the repeated expressions
//     of the KEPT constants are not changed by the removal;
//   - pure stores into a removed variable (`x = e`, `x op= e`, `x++`, range assignment)
//     go with it: the target becomes `_` (the right-hand side stays), `x++` disappears.
//     A variable that is only ever assigned is reported by design (rule 9.7: "variable
//     reads use variables, writes do not"), and removing it means removing its stores.
func DeleteAndCheck(l *Loaded, pkgPath string, reported map[types.Object]bool, imp types.Importer) *DelResult {
	res := &DelResult{Reported: len(reported)}
	info := l.Info
	isDel := func(id *ast.Ident) bool {
		if id == nil {
			return false
		}
		if o := info.Defs[id]; o != nil && reported[o] {
			return true
		}
		return false
	}
	refDel := func(e ast.Expr) *ast.Ident {
		for {
			if p, ok := e.(*ast.ParenExpr); ok {
				e = p.X
				continue
			}
			break
		}
		id, ok := e.(*ast.Ident)
		if !ok {
			return nil
		}
		if o := info.Uses[id]; o != nil && reported[origin(o)] {
			if _, isVar := o.(*types.Var); isVar {
				return id
			}
		}
		return nil
	}
	blank := func(id *ast.Ident) *ast.Ident { return &ast.Ident{NamePos: id.NamePos, Name: "_"} }

	embeddedIdent := func(e ast.Expr) *ast.Ident {
		for {
			switch x := e.(type) {
			case *ast.Ident:
				return x
			case *ast.StarExpr:
				e = x.X
			case *ast.SelectorExpr:
				return x.Sel
			case *ast.IndexExpr:
				e = x.X
			case *ast.IndexListExpr:
				e = x.X
			case *ast.ParenExpr:
				e = x.X
			default:
				return nil
			}
		}
	}

	fixGenDecl := func(d *ast.GenDecl) {
		switch d.Tok {
		case token.TYPE:
			var keep []ast.Spec
			for _, s := range d.Specs {
				if !isDel(s.(*ast.TypeSpec).Name) {
					keep = append(keep, s)
				}
			}
			d.Specs = keep
		case token.VAR:
			var keep []ast.Spec
			for _, s := range d.Specs {
				vs := s.(*ast.ValueSpec)
				n := 0
				for _, name := range vs.Names {
					if isDel(name) {
						n++
					}
				}
				if n == 0 {
					keep = append(keep, s)
					continue
				}
				if n == len(vs.Names) {
					continue
				}
				if len(vs.Values) == len(vs.Names) || len(vs.Values) == 0 {
					var names []*ast.Ident
					var vals []ast.Expr
					for i, name := range vs.Names {
						if isDel(name) {
							continue
						}
						names = append(names, name)
						if len(vs.Values) != 0 {
							vals = append(vals, vs.Values[i])
						}
					}
					vs.Names, vs.Values = names, vals
				} else {
					for i, name := range vs.Names {
						if isDel(name) {
							vs.Names[i] = blank(name)
						}
					}
				}
				keep = append(keep, s)
			}
			d.Specs = keep
		case token.CONST:
			any := false
			for _, s := range d.Specs {
				for _, name := range s.(*ast.ValueSpec).Names {
					if isDel(name) {
						any = true
					}
				}
			}
			if !any {
				return
			}
			// write out implicit repetition for kept specs
			var cur *ast.ValueSpec
			for _, s := range d.Specs {
				vs := s.(*ast.ValueSpec)
				if len(vs.Values) != 0 {
					cp := *vs
					cur = &cp
					continue
				}
				if cur != nil {
					vs.Type = cur.Type
					vs.Values = append([]ast.Expr(nil), cur.Values...)
				}
			}
			var keep []ast.Spec
			for _, s := range d.Specs {
				vs := s.(*ast.ValueSpec)
				n := 0
				for _, name := range vs.Names {
					if isDel(name) {
						n++
					}
				}
				switch {
				case n == 0:
					keep = append(keep, s)
				case n == len(vs.Names):
					if len(d.Specs) > 1 {
						keep = append(keep, &ast.ValueSpec{
							Names:  []*ast.Ident{{NamePos: vs.Pos(), Name: "_"}},
							Values: []ast.Expr{&ast.BasicLit{ValuePos: vs.Pos(), Kind: token.INT, Value: "0"}},
						})
					}
				default:
					for i, name := range vs.Names {
						if isDel(name) {
							vs.Names[i] = blank(name)
							if vs.Type == nil && i < len(vs.Values) {
								vs.Values[i] = &ast.BasicLit{ValuePos: vs.Values[i].Pos(), Kind: token.INT, Value: "0"}
							}
						}
					}
					keep = append(keep, s)
				}
			}
			d.Specs = keep
		}
		if len(d.Specs) == 0 && d.Tok != token.IMPORT {
			// `var ()` / `type ()` / `const ()` are valid, at package level and as statements
			d.Lparen = d.Pos()
			d.Rparen = d.Pos()
		}
	}

	for _, f := range l.Files {
		// top-level functions and methods
		var decls []ast.Decl
		for _, d := range f.Decls {
			if fd, ok := d.(*ast.FuncDecl); ok && isDel(fd.Name) {
				continue
			}
			decls = append(decls, d)
		}
		f.Decls = decls

		astutil.Apply(f, func(c *astutil.Cursor) bool {
			switch n := c.Node().(type) {
			case *ast.GenDecl:
				fixGenDecl(n)
			case *ast.StructType:
				if n.Fields == nil {
					return true
				}
				var keep []*ast.Field
				for _, fld := range n.Fields.List {
					if len(fld.Names) == 0 {
						id := embeddedIdent(fld.Type)
						if id != nil && isDel(id) {
							continue
						}
						keep = append(keep, fld)
						continue
					}
					var names []*ast.Ident
					for _, name := range fld.Names {
						if !isDel(name) {
							names = append(names, name)
						}
					}
					if len(names) == 0 {
						continue
					}
					fld.Names = names
					keep = append(keep, fld)
				}
				n.Fields.List = keep
			case *ast.AssignStmt:
				if n.Tok == token.DEFINE {
					return true
				}
				for i, lhs := range n.Lhs {
					if id := refDel(lhs); id != nil {
						n.Lhs[i] = blank(id)
						n.Tok = token.ASSIGN
						res.BlankedWrites++
						// `_ = nil` is not valid Go; the stored value does not matter any more
						if len(n.Lhs) == len(n.Rhs) {
							if tv, ok := info.Types[n.Rhs[i]]; ok && tv.IsNil() {
								n.Rhs[i] = &ast.BasicLit{ValuePos: n.Rhs[i].Pos(), Kind: token.INT, Value: "0"}
							}
						}
					}
				}
			case *ast.IncDecStmt:
				if id := refDel(n.X); id != nil {
					res.BlankedWrites++
					c.Replace(&ast.EmptyStmt{Semicolon: n.Pos()})
				}
			case *ast.RangeStmt:
				if n.Tok == token.ASSIGN {
					if n.Key != nil {
						if id := refDel(n.Key); id != nil {
							n.Key = blank(id)
							res.BlankedWrites++
						}
					}
					if n.Value != nil {
						if id := refDel(n.Value); id != nil {
							n.Value = blank(id)
							res.BlankedWrites++
						}
					}
				}
			}
			return true
		}, nil)
	}

	// print without comments, re-parse, type-check; drop imports that became unused
	texts := map[string][]byte{}
	for i, f := range l.Files {
		f.Comments = nil
		ast.Inspect(f, func(n ast.Node) bool {
			switch x := n.(type) {
			case *ast.GenDecl:
				x.Doc = nil
			case *ast.FuncDecl:
				x.Doc = nil
			case *ast.Field:
				x.Doc, x.Comment = nil, nil
			case *ast.ValueSpec:
				x.Doc, x.Comment = nil, nil
			case *ast.TypeSpec:
				x.Doc, x.Comment = nil, nil
			case *ast.ImportSpec:
				x.Doc, x.Comment = nil, nil
			}
			return true
		})
		f.Doc = nil
		var buf bytes.Buffer
		if err := (&printer.Config{Mode: printer.UseSpaces | printer.TabIndent, Tabwidth: 8}).Fprint(&buf, l.Fset, f); err != nil {
			res.Errors = append(res.Errors, "print: "+err.Error())
			return res
		}
		texts[l.Paths[i]] = buf.Bytes()
	}

	for round := 0; round < 6; round++ {
		res.Rounds = round + 1
		var srcs []Source
		for _, p := range l.Paths {
			srcs = append(srcs, Source{Path: p, Src: texts[p]})
		}
		l2, errs := Load(srcs, pkgPath, imp)
		if len(errs) == 0 {
			res.OK = true
			return res
		}
		onlyImports := true
		for _, e := range errs {
			if te, ok := e.(types.Error); !ok || !unusedImportRE.MatchString(te.Msg) {
				onlyImports = false
			}
		}
		if !onlyImports || l2.Pkg == nil {
			for _, e := range errs {
				if te, ok := e.(types.Error); ok && unusedImportRE.MatchString(te.Msg) {
					continue
				}
				res.Errors = append(res.Errors, e.Error())
			}
			break
		}
		// remove the offending import specs and print again
		bad := map[token.Pos]bool{}
		for _, e := range errs {
			bad[e.(types.Error).Pos] = true
		}
		for i, f := range l2.Files {
			changed := false
			for _, d := range f.Decls {
				gd, ok := d.(*ast.GenDecl)
				if !ok || gd.Tok != token.IMPORT {
					continue
				}
				var keep []ast.Spec
				for _, s := range gd.Specs {
					is := s.(*ast.ImportSpec)
					if bad[is.Pos()] || bad[is.Path.Pos()] || (is.Name != nil && bad[is.Name.Pos()]) {
						changed = true
						res.RemovedImports++
						continue
					}
					keep = append(keep, s)
				}
				gd.Specs = keep
				if len(keep) == 0 {
					gd.Lparen = gd.Pos()
					gd.Rparen = gd.Pos()
				}
			}
			if changed {
				var imports []*ast.ImportSpec
				for _, is := range f.Imports {
					if !(bad[is.Pos()] || bad[is.Path.Pos()] || (is.Name != nil && bad[is.Name.Pos()])) {
						imports = append(imports, is)
					}
				}
				f.Imports = imports
				f.Comments = nil
				var buf bytes.Buffer
				if err := printer.Fprint(&buf, l2.Fset, f); err != nil {
					res.Errors = append(res.Errors, "print: "+err.Error())
					return res
				}
				texts[l2.Paths[i]] = buf.Bytes()
			}
		}
	}
	if !res.OK {
		if len(res.Errors) == 0 {
			res.Errors = append(res.Errors, "import clean-up did not converge")
		}
		res.Src = map[string]string{}
		for p, t := range texts {
			res.Src[p] = string(t)
		}
		if len(res.Errors) > 12 {
			res.Errors = append(res.Errors[:12], fmt.Sprintf("… %d more", len(res.Errors)-12))
		}
	}
	return res
}
