// Package c17pkg drives the REAL unused analyzer (honnef.co/go/tools/unused) on one
// package in-process, in a file order and declaration order chosen by the caller, and
// reads back the use/own graph the real code prints through the exported unused.Debug
// writer.  Loader / dump parser adapted from harness/internal/c07pkg (C07 owns that
// copy; this one belongs to C17).
package c17pkg

import (
	"bytes"
	"fmt"
	"go/ast"
	"go/importer"
	"go/parser"
	"go/token"
	"go/types"
	"path/filepath"
	"strconv"
	"strings"

	"golang.org/x/tools/go/analysis"
	"honnef.co/go/tools/analysis/facts/directives"
	"honnef.co/go/tools/analysis/facts/generated"
	"honnef.co/go/tools/unused"
)

// Loaded is one parsed and type-checked package.
type Loaded struct {
	Fset  *token.FileSet
	Files []*ast.File
	Paths []string
	Pkg   *types.Package
	Info  *types.Info
}

// Importer resolves imports: packages registered by earlier jobs first (the test
// variant of p imported by the external test package p_test), then the standard
// library from source.
type Importer struct {
	Registered map[string]*types.Package
	src        types.Importer
}

func NewImporter() *Importer {
	fset := token.NewFileSet()
	return &Importer{Registered: map[string]*types.Package{}, src: importer.ForCompiler(fset, "source", nil)}
}

func (i *Importer) Import(path string) (*types.Package, error) {
	if p, ok := i.Registered[path]; ok {
		return p, nil
	}
	if path == "unsafe" {
		return types.Unsafe, nil
	}
	return i.src.Import(path)
}

func newInfo() *types.Info {
	return &types.Info{
		Types:        map[ast.Expr]types.TypeAndValue{},
		Defs:         map[*ast.Ident]types.Object{},
		Uses:         map[*ast.Ident]types.Object{},
		Implicits:    map[ast.Node]types.Object{},
		Selections:   map[*ast.SelectorExpr]*types.Selection{},
		Scopes:       map[ast.Node]*types.Scope{},
		Instances:    map[*ast.Ident]types.Instance{},
		FileVersions: map[*ast.File]string{},
	}
}

// Source is a file given either by path (read from disk) or by content.
type Source struct {
	Path string
	Src  []byte // nil: read Path
}

// Load parses the files IN THE GIVEN ORDER and type-checks them as package pkgPath.
func Load(srcs []Source, pkgPath string, imp types.Importer) (*Loaded, []error) {
	fset := token.NewFileSet()
	l := &Loaded{Fset: fset, Info: newInfo()}
	var errs []error
	for _, s := range srcs {
		var src any
		if s.Src != nil {
			src = s.Src
		}
		f, err := parser.ParseFile(fset, s.Path, src, parser.ParseComments|parser.SkipObjectResolution)
		if err != nil {
			errs = append(errs, err)
			continue
		}
		l.Files = append(l.Files, f)
		l.Paths = append(l.Paths, s.Path)
	}
	if len(errs) > 0 {
		return l, errs
	}
	conf := types.Config{Importer: imp, Error: func(err error) { errs = append(errs, err) }}
	pkg, _ := conf.Check(pkgPath, fset, l.Files, l.Info)
	l.Pkg = pkg
	return l, errs
}

// Recheck type-checks the (re-ordered) syntax trees of l again.
func Recheck(l *Loaded, pkgPath string, imp types.Importer) (*Loaded, []error) {
	l2 := &Loaded{Fset: l.Fset, Files: l.Files, Paths: l.Paths, Info: newInfo()}
	var errs []error
	conf := types.Config{Importer: imp, Error: func(err error) { errs = append(errs, err) }}
	pkg, _ := conf.Check(pkgPath, l.Fset, l.Files, l2.Info)
	l2.Pkg = pkg
	return l2, errs
}

// Graph is the use/own graph as printed by the real code through unused.Debug.
type Graph struct {
	N      int
	Labels []string // "<kind> <name>\n<position>", "" for the root
	Colors []byte   // U used (green), Q quiet (grey), X unused (red), R root
	Uses   [][2]int // in the order of the dump: by node, then list order
	Owns   [][2]int
}

// Run is the outcome of one run of the real analyzer.
type Run struct {
	Result unused.Result
	Graph  Graph
}

// RunUnused runs generated.Analyzer, directives.Analyzer and then the real
// unused.Analyzer on the loaded package through a hand-built analysis.Pass, capturing
// the graph through the exported unused.Debug writer.  Not safe for concurrent use
// (unused.Debug is a package variable).
func RunUnused(l *Loaded) (run *Run, err error) {
	defer func() {
		if r := recover(); r != nil {
			err = fmt.Errorf("panic in unused: %v", r)
		}
	}()
	mk := func(a *analysis.Analyzer, res map[*analysis.Analyzer]any) *analysis.Pass {
		return &analysis.Pass{
			Analyzer:   a,
			Fset:       l.Fset,
			Files:      l.Files,
			Pkg:        l.Pkg,
			TypesInfo:  l.Info,
			TypesSizes: types.SizesFor("gc", "amd64"),
			ResultOf:   res,
			Report:     func(analysis.Diagnostic) {},
		}
	}
	gen, err := generated.Analyzer.Run(mk(generated.Analyzer, nil))
	if err != nil {
		return nil, err
	}
	dirs, err := directives.Analyzer.Run(mk(directives.Analyzer, nil))
	if err != nil {
		return nil, err
	}
	var buf bytes.Buffer
	unused.Debug = &buf
	defer func() { unused.Debug = nil }()
	res, err := unused.Analyzer.Analyzer.Run(mk(unused.Analyzer.Analyzer, map[*analysis.Analyzer]any{
		generated.Analyzer:  gen,
		directives.Analyzer: dirs,
	}))
	if err != nil {
		return nil, err
	}
	gs, err := ParseDots(buf.String())
	if err != nil {
		return nil, err
	}
	if len(gs) != 1 {
		return nil, fmt.Errorf("expected one graph in the dump, got %d", len(gs))
	}
	return &Run{Result: res.(unused.Result), Graph: gs[0]}, nil
}

// ParseDots reads a concatenation of what (*SerializedGraph).Dot printed (the real
// staticcheck binary appends one graph per analysed package to -debug.unused-graph).
func ParseDots(s string) ([]Graph, error) {
	var out []Graph
	var cur []string
	in := false
	for _, line := range strings.Split(s, "\n") {
		t := strings.TrimSpace(line)
		switch {
		case t == "digraph{":
			if in {
				return nil, fmt.Errorf("dot: nested digraph (interleaved writes?)")
			}
			in = true
			cur = cur[:0]
		case t == "}" && in:
			g, err := parseDot(cur)
			if err != nil {
				return nil, err
			}
			out = append(out, g)
			in = false
		case t == "":
		default:
			if !in {
				return nil, fmt.Errorf("dot: line outside a graph: %q", line)
			}
			cur = append(cur, t)
		}
	}
	if in {
		return nil, fmt.Errorf("dot: unterminated graph")
	}
	return out, nil
}

func parseDot(lines []string) (Graph, error) {
	var g Graph
	type nd struct {
		label string
		color byte
	}
	nodes := map[int]nd{}
	max := -1
	for _, line := range lines {
		if !strings.HasPrefix(line, "n") || !strings.HasSuffix(line, ";") {
			return g, fmt.Errorf("dot: unexpected line %q", line)
		}
		line = strings.TrimSuffix(line, ";")
		if i := strings.Index(line, " -> "); i >= 0 && !strings.Contains(line[:i], "[") {
			a, err1 := strconv.Atoi(line[1:i])
			rest := line[i+4:]
			owned := false
			if strings.HasSuffix(rest, " [style=dashed]") {
				owned = true
				rest = strings.TrimSuffix(rest, " [style=dashed]")
			}
			b, err2 := strconv.Atoi(strings.TrimPrefix(rest, "n"))
			if err1 != nil || err2 != nil {
				return g, fmt.Errorf("dot: bad edge %q", line)
			}
			if owned {
				g.Owns = append(g.Owns, [2]int{a, b})
			} else {
				g.Uses = append(g.Uses, [2]int{a, b})
			}
			continue
		}
		i := strings.Index(line, " [label=")
		if i < 0 {
			return g, fmt.Errorf("dot: bad node %q", line)
		}
		id, err := strconv.Atoi(line[1:i])
		if err != nil {
			return g, fmt.Errorf("dot: bad node id %q", line)
		}
		rest := line[i+len(" [label="):]
		rest = strings.TrimSuffix(rest, "]")
		var n nd
		if id == 0 {
			n.color = 'R'
		} else {
			j := strings.LastIndex(rest, ", color=")
			if j < 0 {
				return g, fmt.Errorf("dot: node without color %q", line)
			}
			lab, err := strconv.Unquote(rest[:j])
			if err != nil {
				return g, fmt.Errorf("dot: bad label %q", line)
			}
			col, err := strconv.Unquote(rest[j+len(", color="):])
			if err != nil {
				return g, fmt.Errorf("dot: bad color %q", line)
			}
			n.label = lab
			switch col {
			case "green":
				n.color = 'U'
			case "grey":
				n.color = 'Q'
			case "red":
				n.color = 'X'
			default:
				return g, fmt.Errorf("dot: unknown color %q", col)
			}
		}
		if _, dup := nodes[id]; dup {
			return g, fmt.Errorf("dot: node %d printed twice", id)
		}
		nodes[id] = n
		if id > max {
			max = id
		}
	}
	g.N = max + 1
	g.Labels = make([]string, g.N)
	g.Colors = make([]byte, g.N)
	for i := 0; i < g.N; i++ {
		n, ok := nodes[i]
		if !ok {
			return g, fmt.Errorf("dot: node %d missing", i)
		}
		g.Labels[i] = n.label
		g.Colors[i] = n.color
	}
	return g, nil
}

// ObjLabel is the Dot label of a result object.
func ObjLabel(o unused.Object) string {
	return fmt.Sprintf("%s %s\n%s", o.Kind, o.Name, o.Position)
}

// CheckResultAgainstDot verifies that Result{Used,Unused,Quiet} is exactly the
// partition of nodes[1:] by the colours of the dump, in node order.
func CheckResultAgainstDot(r *Run) error {
	var u, x, q []string
	for i := 1; i < r.Graph.N; i++ {
		switch r.Graph.Colors[i] {
		case 'U':
			u = append(u, r.Graph.Labels[i])
		case 'X':
			x = append(x, r.Graph.Labels[i])
		case 'Q':
			q = append(q, r.Graph.Labels[i])
		}
	}
	cmp := func(name string, objs []unused.Object, want []string) error {
		if len(objs) != len(want) {
			return fmt.Errorf("%s: %d objects in Result, %d nodes in dump", name, len(objs), len(want))
		}
		for i := range objs {
			if ObjLabel(objs[i]) != want[i] {
				return fmt.Errorf("%s[%d]: Result %q, dump %q", name, i, ObjLabel(objs[i]), want[i])
			}
		}
		return nil
	}
	if err := cmp("Used", r.Result.Used, u); err != nil {
		return err
	}
	if err := cmp("Unused", r.Result.Unused, x); err != nil {
		return err
	}
	return cmp("Quiet", r.Result.Quiet, q)
}

var kinds = []string{"type param", "func", "var", "const", "type", "field", "identifier"}

// NodeDesc splits a dump label into kind, name, directory, file base, line, column.
func NodeDesc(label string) (kind, name, dir, base string, line, col int, err error) {
	i := strings.LastIndex(label, "\n")
	if i < 0 {
		return "", "", "", "", 0, 0, fmt.Errorf("label without position: %q", label)
	}
	head, pos := label[:i], label[i+1:]
	for _, k := range kinds {
		if strings.HasPrefix(head, k+" ") {
			kind, name = k, head[len(k)+1:]
			break
		}
	}
	if kind == "" {
		return "", "", "", "", 0, 0, fmt.Errorf("label with unknown kind: %q", label)
	}
	// position: file:line:col  (file may be "-" or empty for objects without position)
	parts := strings.Split(pos, ":")
	if len(parts) >= 3 {
		c, e1 := strconv.Atoi(parts[len(parts)-1])
		l, e2 := strconv.Atoi(parts[len(parts)-2])
		if e1 == nil && e2 == nil {
			file := strings.Join(parts[:len(parts)-2], ":")
			return kind, name, filepath.Dir(file), filepath.Base(file), l, c, nil
		}
	}
	return kind, name, "", pos, 0, 0, nil
}

// EdgeString renders edges as the model drivers expect them.
func EdgeString(es [][2]int) string {
	if len(es) == 0 {
		return "-"
	}
	var b strings.Builder
	for i, e := range es {
		if i > 0 {
			b.WriteByte(',')
		}
		fmt.Fprintf(&b, "%d>%d", e[0], e[1])
	}
	return b.String()
}
