package c17pkg

// Graph-level merge over package variants: the REAL unused.Graph of every variant, merged by
// the REAL (*unused.SerializedGraph).Merge in an order chosen by the caller.  unused.Node and
// SerializedGraph keep their fields unexported; they are read (and the edge slices of a copy
// replaced by fresh ones — Merge rewrites the slices it is given in place) through
// reflect + unsafe.  Nothing of the merge algorithm is re-implemented here.

import (
	"fmt"
	"go/ast"
	"go/token"
	"go/types"
	"os"
	"reflect"
	"sync"
	"unsafe"

	"golang.org/x/tools/go/analysis"
	"honnef.co/go/tools/analysis/facts/directives"
	"honnef.co/go/tools/analysis/facts/generated"
	"honnef.co/go/tools/analysis/lint"
	"honnef.co/go/tools/unused"
)

// RawNode is one node of the []unused.Node a variant's graph consists of.
type RawNode struct {
	ID   uint64
	Obj  unused.Object
	Uses []uint64
	Owns []uint64
}

func nodeFields(n *unused.Node) (id uint64, obj *unused.Object, uses, owns *[]unused.NodeID) {
	v := reflect.ValueOf(n).Elem()
	id = v.FieldByName("id").Uint()
	obj = (*unused.Object)(unsafe.Pointer(v.FieldByName("obj").UnsafeAddr()))
	uses = (*[]unused.NodeID)(unsafe.Pointer(v.FieldByName("uses").UnsafeAddr()))
	owns = (*[]unused.NodeID)(unsafe.Pointer(v.FieldByName("owns").UnsafeAddr()))
	return
}

// Snapshot reads the nodes.
func Snapshot(nodes []unused.Node) []RawNode {
	out := make([]RawNode, len(nodes))
	for i := range nodes {
		id, obj, uses, owns := nodeFields(&nodes[i])
		rn := RawNode{ID: id, Obj: *obj}
		for _, u := range *uses {
			rn.Uses = append(rn.Uses, uint64(u))
		}
		for _, o := range *owns {
			rn.Owns = append(rn.Owns, uint64(o))
		}
		out[i] = rn
	}
	return out
}

// CopyNodes returns a copy of nodes that shares no edge slice with the original.
func CopyNodes(nodes []unused.Node) []unused.Node {
	cp := make([]unused.Node, len(nodes))
	copy(cp, nodes)
	for i := range cp {
		_, _, uses, owns := nodeFields(&cp[i])
		*uses = append([]unused.NodeID(nil), *uses...)
		*owns = append([]unused.NodeID(nil), *owns...)
	}
	return cp
}

// RealGraph builds the graph of a loaded variant with the real unused.Graph, handing it the
// directives and generated-file facts of the real fact analyzers (as unused.Analyzer does).
func RealGraph(l *Loaded) (nodes []unused.Node, err error) {
	defer func() {
		if r := recover(); r != nil {
			err = fmt.Errorf("panic in unused.Graph: %v", r)
		}
	}()
	mk := func(a *analysis.Analyzer) *analysis.Pass {
		return &analysis.Pass{
			Analyzer: a, Fset: l.Fset, Files: l.Files, Pkg: l.Pkg, TypesInfo: l.Info,
			TypesSizes: types.SizesFor("gc", "amd64"), Report: func(analysis.Diagnostic) {},
		}
	}
	gen, err := generated.Analyzer.Run(mk(generated.Analyzer))
	if err != nil {
		return nil, err
	}
	dirs, err := directives.Analyzer.Run(mk(directives.Analyzer))
	if err != nil {
		return nil, err
	}
	return unused.Graph(l.Fset, l.Files, l.Pkg, l.Info, dirs.([]lint.Directive), gen.(map[string]generated.Generator), unused.DefaultOptions), nil
}

var stderrMu sync.Mutex

// Merged is the outcome of merging several variants with the real code.
type Merged struct {
	Graph  Graph    // from the real Dot(): labels, colours, edges
	Paths  []string // per node: "<pkgpath> <objectpath>" or ""
	PosKey []string // per node: "<file>:<line>:<col>" ("" for roots)
	ResErr string   // "" when Results() is the partition of nodes[1:] by the colours of Dot()
	Result unused.Result
}

// MergeReal merges copies of the given node lists, in this order, with the real
// (*unused.SerializedGraph).Merge and reads back the merged graph.
func MergeReal(list [][]unused.Node) (m *Merged, err error) {
	// Merge traces every node to os.Stderr
	stderrMu.Lock()
	saved := os.Stderr
	null, _ := os.OpenFile(os.DevNull, os.O_WRONLY, 0)
	if null != nil {
		os.Stderr = null
	}
	defer func() {
		os.Stderr = saved
		if null != nil {
			null.Close()
		}
		stderrMu.Unlock()
		if r := recover(); r != nil {
			err = fmt.Errorf("panic in SerializedGraph.Merge: %v", r)
		}
	}()
	var sg unused.SerializedGraph
	for _, nodes := range list {
		sg.Merge(CopyNodes(nodes))
	}
	res := sg.Results()
	gs, err := ParseDots(sg.Dot())
	if err != nil {
		return nil, err
	}
	if len(gs) != 1 {
		return nil, fmt.Errorf("expected one merged graph, got %d", len(gs))
	}
	m = &Merged{Graph: gs[0], Result: res}
	nf := reflect.ValueOf(&sg).Elem().FieldByName("nodes")
	all := *(*[]unused.Node)(unsafe.Pointer(nf.UnsafeAddr()))
	if len(all) != m.Graph.N {
		return nil, fmt.Errorf("Dot printed %d nodes, the serialized graph has %d", m.Graph.N, len(all))
	}
	for i := range all {
		id, obj, _, _ := nodeFields(&all[i])
		if id != uint64(i) {
			return nil, fmt.Errorf("merged node %d has id %d", i, id)
		}
		m.Paths = append(m.Paths, PathKey(obj))
		m.PosKey = append(m.PosKey, PosKey(obj))
	}
	if e := CheckResultAgainstDot(&Run{Result: res, Graph: m.Graph}); e != nil {
		m.ResErr = e.Error()
	}
	return m, nil
}

// PathKey renders an ObjectPath ("" = none).
func PathKey(o *unused.Object) string {
	if o.Path == (unused.ObjectPath{}) {
		return ""
	}
	return o.Path.PkgPath + " " + string(o.Path.ObjPath)
}

// PosKey renders the full position ("" when there is no column information, which
// Merge treats as "no position").
func PosKey(o *unused.Object) string {
	if o.Position.Column == 0 {
		return ""
	}
	return fmt.Sprintf("%s:%d:%d@%d", o.Position.Filename, o.Position.Line, o.Position.Column, o.Position.Offset)
}

// ---------------------------------------------------------------- rule 6.5 facts

// EmbQuery is one embedded field of a struct type declaration: the struct being declared,
// the struct underlying the field's type (-1: none), and where the two objects are.
type EmbQuery struct {
	St, U      int
	TypeName   string
	TypePos    token.Position
	FieldName  string
	FieldPos   token.Position
	Exported   bool // the field's name is exported (rule 6.2 uses it anyway)
	HostLayout bool // the struct has a structs.HostLayout field (rule 6.6 uses all fields)
	Methods    bool // the field's type (or a pointer to it) has methods: rules 6.3/6.4/8.2 may use the field as well
}

// Rule65Facts extracts, from go/types alone, the struct table (per *types.Struct: for every
// field e = exported, m<i> = unexported embedded with underlying struct i, p = other) and the
// embedded fields of every struct type declaration of the package.
func Rule65Facts(l *Loaded) (table []string, queries []EmbQuery) {
	ids := map[*types.Struct]int{}
	var order []*types.Struct
	intern := func(s *types.Struct) int {
		if i, ok := ids[s]; ok {
			return i
		}
		ids[s] = len(order)
		order = append(order, s)
		return len(order) - 1
	}
	under := func(T types.Type) *types.Struct {
		if p, ok := T.Underlying().(*types.Pointer); ok {
			T = p.Elem()
		}
		s, _ := T.Underlying().(*types.Struct)
		return s
	}
	for _, f := range l.Files {
		ast.Inspect(f, func(n ast.Node) bool {
			ts, ok := n.(*ast.TypeSpec)
			if !ok {
				return true
			}
			st, ok := ts.Type.(*ast.StructType)
			if !ok {
				return true
			}
			tn, _ := l.Info.ObjectOf(ts.Name).(*types.TypeName)
			sty, _ := l.Info.TypeOf(st).(*types.Struct)
			if tn == nil || sty == nil {
				return true
			}
			host := false
			for _, fld := range st.Fields.List {
				if named, ok := types.Unalias(l.Info.TypeOf(fld.Type)).(*types.Named); ok {
					if o := named.Obj(); o.Name() == "HostLayout" && o.Pkg() != nil && o.Pkg().Path() == "structs" {
						host = true
					}
				}
			}
			for _, fld := range st.Fields.List {
				if len(fld.Names) != 0 {
					continue
				}
				var id *ast.Ident
				e := fld.Type
				for id == nil {
					switch x := e.(type) {
					case *ast.Ident:
						id = x
					case *ast.StarExpr:
						e = x.X
					case *ast.SelectorExpr:
						e = x.Sel
					case *ast.IndexExpr:
						e = x.X
					case *ast.IndexListExpr:
						e = x.X
					case *ast.ParenExpr:
						e = x.X
					default:
						return true
					}
				}
				fv, _ := l.Info.ObjectOf(id).(*types.Var)
				if fv == nil {
					continue
				}
				q := EmbQuery{St: intern(sty), U: -1, TypeName: tn.Name(), TypePos: l.Fset.PositionFor(tn.Pos(), false),
					FieldName: fv.Name(), FieldPos: l.Fset.PositionFor(fv.Pos(), false), Exported: token.IsExported(fv.Name()), HostLayout: host}
				if u := under(fv.Type()); u != nil {
					q.U = intern(u)
				}
				ft := fv.Type()
				if p, ok := ft.Underlying().(*types.Pointer); ok {
					ft = p.Elem()
				}
				q.Methods = types.NewMethodSet(ft).Len() > 0 || types.NewMethodSet(types.NewPointer(ft)).Len() > 0
				queries = append(queries, q)
			}
			return true
		})
	}
	for i := 0; i < len(order); i++ {
		s := order[i]
		row := ""
		for j := 0; j < s.NumFields(); j++ {
			f := s.Field(j)
			c := "p"
			if f.Exported() {
				c = "e"
			} else if f.Embedded() {
				if u := under(f.Type()); u != nil {
					c = fmt.Sprintf("m%d", intern(u))
				}
			}
			if row != "" {
				row += ","
			}
			row += c
		}
		if row == "" {
			row = "-"
		}
		table = append(table, row)
	}
	return table, queries
}
