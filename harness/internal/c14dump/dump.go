// Package c14dump dumps, through the EXPORTED go/ir API only, what property C14
// (dominance queries exact) talks about: per built function the CFG (Preds/Succs),
// the Recover block, Idom, Dominees, the positions in DomPreorder()/DomPostorder() and
// rows of the Dominates(a,b) relation.
//
// The format is the shared IR dump of DESIGN.md Appendix A restricted to the records
// C14 needs; one record per line, first token = record kind, so later tools (C02: T/V/I
// records) can add record kinds without disturbing readers that skip unknown kinds.
//
//	P <pid> <hex pkgpath> <hex source file|->
//	X <pid> <hex error text>                       load/type error: package not built
//	F <fid> <pid> <hex name> nblocks=<n> recover=<bid|-> dom=<full|rows> syn=<0|1>   (syn=1: synthetic function)
//	B <fid> <bid> preds=<csv|-> succs=<csv|-> idom=<bid|-> pre=<k> post=<k> dominees=<csv|->
//	      pre/post = index of the block in Function.DomPreorder()/DomPostorder()
//	D <fid> <a> <bits>                             bits[b] = Dominates(Blocks[a], Blocks[b]), b = 0..n-1
//	E <fid>
//
// Deviation from Appendix A: D carries one row per line instead of one pair per line
// (64 blocks would otherwise cost 4096 lines per function). dom=full: a D row for every
// block. dom=rows: more than `Full` blocks; rows for a seeded sample of blocks plus,
// for those, every block of their idom chain (so every (block, idom-chain) query of the
// sampled blocks is present as a row entry).
package c14dump

import (
	"bufio"
	"encoding/hex"
	"fmt"
	"sort"
	"strconv"
	"strings"

	"honnef.co/go/tools/go/ir"
)

// Options controls how much of the Dominates relation is dumped.
type Options struct {
	Full int    // functions with at most Full blocks get the complete matrix
	Rows int    // number of sampled rows otherwise
	Seed uint64 // seed of the row sample
}

// Hex encodes a string for the line protocol ("-" = empty).
func Hex(s string) string {
	if s == "" {
		return "-"
	}
	return hex.EncodeToString([]byte(s))
}

func csv(bs []*ir.BasicBlock) string {
	if len(bs) == 0 {
		return "-"
	}
	var sb strings.Builder
	for i, b := range bs {
		if i > 0 {
			sb.WriteByte(',')
		}
		sb.WriteString(strconv.Itoa(b.Index))
	}
	return sb.String()
}

type splitmix struct{ s uint64 }

func (r *splitmix) next() uint64 {
	r.s += 0x9E3779B97F4A7C15
	z := r.s
	z = (z ^ (z >> 30)) * 0xBF58476D1CE4E5B9
	z = (z ^ (z >> 27)) * 0x94D049BB133111EB
	return z ^ (z >> 31)
}

// SrcFuncs returns the source functions of a built package including function
// literals, in a deterministic order (same as internal/passes/buildir).
func SrcFuncs(pkg *ir.Package) []*ir.Function {
	funcs := append([]*ir.Function(nil), pkg.Functions...)
	var addAnons func(f *ir.Function)
	addAnons = func(f *ir.Function) {
		for _, anon := range f.AnonFuncs {
			funcs = append(funcs, anon)
			addAnons(anon)
		}
	}
	for _, fn := range pkg.Functions {
		addAnons(fn)
	}
	return funcs
}

// Dumper writes records; fids are consecutive over the lifetime of the Dumper.
type Dumper struct {
	W    *bufio.Writer
	Opt  Options
	fid  int
	pid  int
	Hook func(w *bufio.Writer, fid int, fn *ir.Function) // extension point: extra records before E
}

// Package writes a P record and returns its id.
func (d *Dumper) Package(path, file string) int {
	d.pid++
	fmt.Fprintf(d.W, "P %d %s %s\n", d.pid, Hex(path), Hex(file))
	return d.pid
}

// Error writes an X record.
func (d *Dumper) Error(pid int, err string) {
	fmt.Fprintf(d.W, "X %d %s\n", pid, Hex(err))
}

// Function dumps one function (no-op for functions without blocks).
func (d *Dumper) Function(pid int, fn *ir.Function) {
	name := fn.String()
	if fn.Synthetic != "" {
		name += " [" + string(fn.Synthetic) + "]"
	}
	d.FunctionNamed(pid, fn, name, fn.Synthetic != "")
}

// FunctionNamed dumps one function under the given name.
func (d *Dumper) FunctionNamed(pid int, fn *ir.Function, name string, synthetic bool) {
	n := len(fn.Blocks)
	if n == 0 {
		return
	}
	d.fid++
	fid := d.fid
	w := d.W
	rec := "-"
	if fn.Recover != nil {
		rec = strconv.Itoa(fn.Recover.Index)
	}
	full := n <= d.Opt.Full
	mode := "rows"
	if full {
		mode = "full"
	}
	syn := 0
	if synthetic {
		syn = 1
	}
	fmt.Fprintf(w, "F %d %d %s nblocks=%d recover=%s dom=%s syn=%d\n", fid, pid, Hex(name), n, rec, mode, syn)

	pre := make(map[*ir.BasicBlock]int, n)
	post := make(map[*ir.BasicBlock]int, n)
	for i, b := range fn.DomPreorder() {
		pre[b] = i
	}
	for i, b := range fn.DomPostorder() {
		post[b] = i
	}
	for _, b := range fn.Blocks {
		idom := "-"
		if b.Idom() != nil {
			idom = strconv.Itoa(b.Idom().Index)
		}
		fmt.Fprintf(w, "B %d %d preds=%s succs=%s idom=%s pre=%d post=%d dominees=%s\n",
			fid, b.Index, csv(b.Preds), csv(b.Succs), idom, pre[b], post[b], csv(b.Dominees()))
	}

	var rows []int
	if full {
		for i := 0; i < n; i++ {
			rows = append(rows, i)
		}
	} else {
		r := splitmix{d.Opt.Seed ^ uint64(fid)*0x9E3779B97F4A7C15 ^ uint64(n)}
		want := map[int]bool{0: true}
		if fn.Recover != nil {
			want[fn.Recover.Index] = true
		}
		for k := 0; k < d.Opt.Rows; k++ {
			b := fn.Blocks[int(r.next()%uint64(n))]
			// the sampled block and its whole idom chain
			for c, steps := b, 0; c != nil && steps <= n; c, steps = c.Idom(), steps+1 {
				want[c.Index] = true
			}
			if len(want) >= 3*d.Opt.Rows {
				break
			}
		}
		for i := range want {
			rows = append(rows, i)
		}
		sort.Ints(rows)
	}
	buf := make([]byte, n)
	for _, a := range rows {
		ba := fn.Blocks[a]
		for j, bb := range fn.Blocks {
			if ba.Dominates(bb) {
				buf[j] = '1'
			} else {
				buf[j] = '0'
			}
		}
		fmt.Fprintf(w, "D %d %d %s\n", fid, a, buf)
	}
	if d.Hook != nil {
		d.Hook(w, fid, fn)
	}
	fmt.Fprintf(w, "E %d\n", fid)
}
