// c07run runs the REAL honnef.co/go/tools/unused analyzer in-process on the packages
// named by job lines (JSON, one per line on stdin) and prints one JSON line per job:
// the dumped use/own graph (through unused.Debug), the Result, and the C07 oracles
// evaluated with go/types as the judge (deletion safety, zero-reference completeness,
// the independently computed reference relation).  It is also the runner of C17: jobs
// can ask for another file order, a permutation of the top-level declarations, and
// repeated runs.
package main

import (
	"bufio"
	"encoding/json"
	"fmt"
	"go/ast"
	"go/token"
	"os"
	"path/filepath"
	"sort"
	"strings"

	"honnef.co/go/tools/unused"

	"verif/harness/internal/c07pkg"
)

type Job struct {
	ID       string   `json:"id"`
	Files    []string `json:"files"`    // absolute paths, in the order they are handed to the analyzer
	PkgPath  string   `json:"pkgpath"`  // import path to type-check as
	Want     []string `json:"want"`     // subset of: graph, objs, edges, del, zeroref, refs
	DeclPerm uint64   `json:"declperm"` // != 0: permute the top-level declarations of every file (seeded)
	Register bool     `json:"register"` // make the type-checked package importable by later jobs
	// BinSet: BinRep holds what the REAL staticcheck binary reported for this package
	// (kind, display name, absolute file, line, column of each "… is unused (U1000)" line);
	// both oracles are then also evaluated against that set (bdel, bzero).
	BinSet bool        `json:"binset"`
	BinRep [][5]string `json:"binrep"`
}

type Out struct {
	ID        string            `json:"id"`
	Err       string            `json:"err,omitempty"`       // harness-level failure (package does not load, unused panicked…)
	TypeErrs  []string          `json:"type_errs,omitempty"` // the input package itself does not type-check
	Pkg       string            `json:"pkg,omitempty"`
	N         int               `json:"n,omitempty"`
	Uses      string            `json:"uses,omitempty"`
	Owns      string            `json:"owns,omitempty"`
	Colors    string            `json:"colors,omitempty"` // U/Q/X for nodes 1..N-1 as coloured by the real code
	DotVsRes  string            `json:"dot_vs_result,omitempty"`
	Objs      [][4]string       `json:"objs,omitempty"`  // kind, name, base:line:col, verdict — node order
	Edges     []string          `json:"edges,omitempty"` // sorted "U|O from-label -> to-label"
	Ambig     int               `json:"ambiguous_labels,omitempty"`
	Del       *c07pkg.DelResult `json:"del,omitempty"`
	ZeroRef   *c07pkg.ZeroRef   `json:"zeroref,omitempty"`
	Refs      string            `json:"refs,omitempty"`
	RefDesc   []string          `json:"ref_desc,omitempty"`
	RefStats  *c07pkg.RefStats  `json:"ref_stats,omitempty"`
	Counts    map[string]int    `json:"counts,omitempty"`
	Generated int               `json:"generated_files,omitempty"`
	NodeNames []string          `json:"node_names,omitempty"` // "<kind> <name>" per node id
	Facts     []c07pkg.TypeFact `json:"facts,omitempty"`      // method sets from go/types
	BDel      *c07pkg.DelResult `json:"bdel,omitempty"`       // deletion oracle on what the BINARY reported
	BZero     *c07pkg.ZeroRef   `json:"bzero,omitempty"`      // zero-reference oracle against what the BINARY reported
	UsedIn    []string          `json:"used_inside_reported,omitempty"`
}

type splitmix struct{ s uint64 }

func (r *splitmix) next() uint64 {
	r.s += 0x9E3779B97F4A7C15
	z := r.s
	z = (z ^ (z >> 30)) * 0xBF58476D1CE4E5B9
	z = (z ^ (z >> 27)) * 0x94D049BB133111EB
	return z ^ (z >> 31)
}

func shortPos(p token.Position) string {
	return fmt.Sprintf("%s:%d:%d", filepath.Base(p.Filename), p.Line, p.Column)
}

func shortLabel(s string) string {
	i := strings.LastIndex(s, "\n")
	if i < 0 {
		return s
	}
	pos := s[i+1:]
	if j := strings.LastIndex(pos, "/"); j >= 0 {
		pos = pos[j+1:]
	}
	return s[:i] + " @" + pos
}

func main() {
	imp := c07pkg.NewImporter()
	in := bufio.NewReaderSize(os.Stdin, 1<<20)
	out := bufio.NewWriter(os.Stdout)
	defer out.Flush()
	dec := json.NewDecoder(in)
	enc := json.NewEncoder(out)
	for dec.More() {
		var job Job
		if err := dec.Decode(&job); err != nil {
			fmt.Fprintln(os.Stderr, "bad job:", err)
			os.Exit(2)
		}
		o := runJob(&job, imp)
		if err := enc.Encode(o); err != nil {
			fmt.Fprintln(os.Stderr, err)
			os.Exit(2)
		}
		out.Flush()
	}
}

func runJob(job *Job, imp *c07pkg.Importer) (o *Out) {
	o = &Out{ID: job.ID}
	defer func() {
		if r := recover(); r != nil {
			o.Err = fmt.Sprintf("harness panic: %v", r)
		}
	}()
	want := map[string]bool{}
	for _, w := range job.Want {
		want[w] = true
	}
	var srcs []c07pkg.Source
	for _, f := range job.Files {
		srcs = append(srcs, c07pkg.Source{Path: f})
	}
	l, errs := c07pkg.Load(srcs, job.PkgPath, imp)
	if len(errs) > 0 {
		for i, e := range errs {
			if i < 8 {
				o.TypeErrs = append(o.TypeErrs, e.Error())
			}
		}
		return o
	}
	o.Pkg = l.Pkg.Name()
	if job.Register {
		imp.Registered[job.PkgPath] = l.Pkg
	}
	if job.DeclPerm != 0 {
		// Permute the order in which the top-level declarations are presented (imports stay
		// first).  Positions are untouched, so verdicts stay comparable object by object.
		// The package is type-checked again in the new order.
		r := &splitmix{job.DeclPerm}
		for _, f := range l.Files {
			var imports, rest []ast.Decl
			for _, d := range f.Decls {
				if gd, ok := d.(*ast.GenDecl); ok && gd.Tok == token.IMPORT {
					imports = append(imports, d)
				} else {
					rest = append(rest, d)
				}
			}
			for i := len(rest) - 1; i > 0; i-- {
				j := int(r.next() % uint64(i+1))
				rest[i], rest[j] = rest[j], rest[i]
			}
			f.Decls = append(imports, rest...)
		}
		l2, errs := c07pkg.Recheck(l, job.PkgPath, imp)
		if len(errs) > 0 {
			o.Err = "package no longer type-checks after permuting declarations: " + errs[0].Error()
			return o
		}
		l = l2
	}
	run, err := c07pkg.RunUnused(l)
	if err != nil {
		o.Err = err.Error()
		return o
	}
	g := &run.Graph
	if err := c07pkg.CheckResultAgainstDot(run); err != nil {
		o.DotVsRes = err.Error()
	} else {
		o.DotVsRes = "ok"
	}
	o.N = g.N
	o.Counts = map[string]int{"used": len(run.Result.Used), "unused": len(run.Result.Unused), "quiet": len(run.Result.Quiet),
		"uses": len(g.Uses), "owns": len(g.Owns)}
	if want["graph"] {
		o.Uses = c07pkg.EdgeString(g.Uses)
		o.Owns = c07pkg.EdgeString(g.Owns)
		if g.N > 1 {
			o.Colors = string(g.Colors[1:])
		}
	}
	if want["objs"] {
		add := func(objs []unused.Object, v string) {
			for _, ob := range objs {
				o.Objs = append(o.Objs, [4]string{ob.Kind, ob.Name, shortPos(ob.Position), v})
			}
		}
		add(run.Result.Used, "U")
		add(run.Result.Unused, "X")
		add(run.Result.Quiet, "Q")
	}
	if want["edges"] {
		cnt := map[string]int{}
		for i := 1; i < g.N; i++ {
			cnt[g.Labels[i]]++
		}
		lab := func(i int) (string, bool) {
			if i == 0 {
				return "ROOT", true
			}
			return shortLabel(g.Labels[i]), cnt[g.Labels[i]] == 1
		}
		set := map[string]bool{}
		for _, e := range g.Uses {
			a, oka := lab(e[0])
			b, okb := lab(e[1])
			if oka && okb {
				set["U "+a+" -> "+b] = true
			}
		}
		for _, e := range g.Owns {
			a, oka := lab(e[0])
			b, okb := lab(e[1])
			if oka && okb {
				set["O "+a+" -> "+b] = true
			}
		}
		for l, c := range cnt {
			if c > 1 {
				o.Ambig += c
				_ = l
			}
		}
		for k := range set {
			o.Edges = append(o.Edges, k)
		}
		sort.Strings(o.Edges)
	}
	genFiles := map[string]bool{}
	for _, p := range l.Paths {
		if c07pkg.IsGenerated(p) {
			genFiles[p] = true
		}
	}
	o.Generated = len(genFiles)
	if want["zeroref"] {
		o.ZeroRef = c07pkg.ZeroRefOracle(l, run.Result, genFiles)
	}
	if want["refs"] {
		s, desc, st := c07pkg.Refs(l, g)
		o.Refs, o.RefDesc, o.RefStats = s, desc, &st
	}
	if want["nodes"] {
		o.NodeNames = c07pkg.NodeKindNames(g)
	}
	if want["facts"] {
		o.Facts = c07pkg.TypeFacts(l)
	}
	if want["usedin"] {
		o.UsedIn = c07pkg.UsedInsideReported(l, run.Result)
	}
	if job.BinSet {
		bobjs := c07pkg.BinaryReported(job.BinRep)
		o.BZero = c07pkg.ZeroRefOracle(l, unused.Result{Unused: bobjs}, genFiles)
		// the deletion changes the syntax trees: work on a fresh copy of the package
		l2, errs := c07pkg.Load(srcs, job.PkgPath, imp)
		if len(errs) > 0 {
			o.Err = "package does not load a second time: " + errs[0].Error()
			return o
		}
		rep, unmapped := l2.ReportedObjects(bobjs)
		d := c07pkg.DeleteAndCheck(l2, job.PkgPath, rep, imp)
		d.Unmapped = unmapped
		o.BDel = d
	}
	if want["del"] {
		rep, unmapped := l.ReportedObjects(run.Result.Unused)
		d := c07pkg.DeleteAndCheck(l, job.PkgPath, rep, imp)
		d.Unmapped = unmapped
		o.Del = d
	}
	return o
}
