// c06gob crafts and decodes `staticcheck -f binary` run files for the C06 check.
//
// The binary run format of lintcmd is a sequence of gob streams, one per run, each holding
// one value of the unexported type lintcmd.lintResult. gob matches struct fields by name,
// so structurally identical local types (embedding the real, exported runner.Diagnostic)
// produce byte streams the real `staticcheck -merge` decodes, and decode what the real
// `-f binary` writes. No hook in /repo is needed.
//
//	c06gob run -bin <staticcheck> -dir <scratch> [-j N] < jobs.jsonl > results.jsonl
//	    job:    {"id":"…", "runs":[{"checked":[…], "diags":[…]}, …]}
//	    result: {"id":"…", "rc":…, "stdout":…, "stderr":…}
//	    The runs are written, in order, into one file (one fresh gob encoder per run, as
//	    lintcmd does); the real binary is run as `staticcheck -merge -f json <file>`.
//	c06gob dump <file>…   decodes run files, prints {"runs":[run,…]} (one line per file);
//	    "rest" is a digest of SuggestedFixes and Related (empty when there are none).
package main

import (
	"bufio"
	"bytes"
	"crypto/sha1"
	"encoding/gob"
	"encoding/json"
	"flag"
	"fmt"
	"go/token"
	"io"
	"os"
	"os/exec"
	"path/filepath"
	"sync"

	"honnef.co/go/tools/analysis/lint"
	"honnef.co/go/tools/lintcmd/runner"
)

// mirror of lintcmd.diagnostic / lintcmd.lintResult (field names and types)
type severity uint8

type diagnostic struct {
	runner.Diagnostic

	Severity  severity
	MergeIf   lint.MergeStrategy
	BuildName string
}

type lintResult struct {
	CheckedFiles []string
	Diagnostics  []diagnostic
	Warnings     []string
}

type jdiag struct {
	File    string `json:"file"`
	Off     int    `json:"off"`
	Line    int    `json:"line"`
	Col     int    `json:"col"`
	EFile   string `json:"efile"`
	EOff    int    `json:"eoff"`
	ELine   int    `json:"eline"`
	ECol    int    `json:"ecol"`
	Cat     string `json:"cat"`
	Msg     string `json:"msg"`
	Sev     int    `json:"sev"`
	MergeIf int    `json:"mergeif"`
	Build   string `json:"build"`
	Rest    string `json:"rest"`
}

type jrun struct {
	Checked []string `json:"checked"`
	Diags   []jdiag  `json:"diags"`
}

type job struct {
	ID   string `json:"id"`
	Runs []jrun `json:"runs"`
}

type result struct {
	ID     string `json:"id"`
	RC     int    `json:"rc"`
	Stdout string `json:"stdout"`
	Stderr string `json:"stderr"`
	Err    string `json:"err,omitempty"`
}

func toResult(r jrun) lintResult {
	res := lintResult{CheckedFiles: append([]string(nil), r.Checked...)}
	for _, d := range r.Diags {
		res.Diagnostics = append(res.Diagnostics, diagnostic{
			Diagnostic: runner.Diagnostic{
				Position: token.Position{Filename: d.File, Offset: d.Off, Line: d.Line, Column: d.Col},
				End:      token.Position{Filename: d.EFile, Offset: d.EOff, Line: d.ELine, Column: d.ECol},
				Category: d.Cat,
				Message:  d.Msg,
			},
			Severity:  severity(d.Sev),
			MergeIf:   lint.MergeStrategy(d.MergeIf),
			BuildName: d.Build,
		})
	}
	return res
}

func fromResult(res lintResult) jrun {
	r := jrun{Checked: append([]string{}, res.CheckedFiles...), Diags: []jdiag{}}
	for _, d := range res.Diagnostics {
		rest := ""
		if len(d.SuggestedFixes) > 0 || len(d.Related) > 0 {
			b, _ := json.Marshal([]any{d.SuggestedFixes, d.Related})
			rest = fmt.Sprintf("%x", sha1.Sum(b))
		}
		r.Diags = append(r.Diags, jdiag{
			File: d.Position.Filename, Off: d.Position.Offset, Line: d.Position.Line, Col: d.Position.Column,
			EFile: d.End.Filename, EOff: d.End.Offset, ELine: d.End.Line, ECol: d.End.Column,
			Cat: d.Category, Msg: d.Message, Sev: int(d.Severity), MergeIf: int(d.MergeIf), Build: d.BuildName,
			Rest: rest,
		})
	}
	return r
}

func doJob(bin, dir string, n int, j job) result {
	res := result{ID: j.ID}
	jd := filepath.Join(dir, fmt.Sprintf("job%d", n))
	if err := os.MkdirAll(jd, 0o755); err != nil {
		res.Err = err.Error()
		return res
	}
	defer os.RemoveAll(jd)
	var buf bytes.Buffer
	for _, r := range j.Runs {
		// one encoder per run: lintcmd writes each run with gob.NewEncoder(os.Stdout).Encode(res)
		if err := gob.NewEncoder(&buf).Encode(toResult(r)); err != nil {
			res.Err = err.Error()
			return res
		}
	}
	p := filepath.Join(jd, "run.bin")
	if err := os.WriteFile(p, buf.Bytes(), 0o644); err != nil {
		res.Err = err.Error()
		return res
	}
	cmd := exec.Command(bin, "-merge", "-f", "json", p)
	cmd.Dir = jd
	var so, se bytes.Buffer
	cmd.Stdout = &so
	cmd.Stderr = &se
	if err := cmd.Run(); err != nil {
		if ee, ok := err.(*exec.ExitError); ok {
			res.RC = ee.ExitCode()
		} else {
			res.Err = err.Error()
			return res
		}
	}
	res.Stdout, res.Stderr = so.String(), se.String()
	return res
}

func cmdRun(args []string) int {
	fs := flag.NewFlagSet("run", flag.ExitOnError)
	bin := fs.String("bin", "", "staticcheck binary built from the tree under test")
	dir := fs.String("dir", "", "scratch directory")
	par := fs.Int("j", 4, "parallel jobs")
	fs.Parse(args)
	if *bin == "" || *dir == "" {
		fmt.Fprintln(os.Stderr, "c06gob run: -bin and -dir are required")
		return 2
	}
	in := bufio.NewReaderSize(os.Stdin, 1<<20)
	var jobs []job
	for {
		line, err := in.ReadBytes('\n')
		if len(bytes.TrimSpace(line)) > 0 {
			var j job
			dec := json.NewDecoder(bytes.NewReader(line))
			dec.DisallowUnknownFields()
			if err := dec.Decode(&j); err != nil {
				fmt.Fprintf(os.Stderr, "c06gob run: bad job line: %v\n", err)
				return 2
			}
			jobs = append(jobs, j)
		}
		if err == io.EOF {
			break
		}
		if err != nil {
			fmt.Fprintln(os.Stderr, err)
			return 2
		}
	}
	results := make([]result, len(jobs))
	var wg sync.WaitGroup
	sem := make(chan struct{}, *par)
	for i := range jobs {
		wg.Add(1)
		sem <- struct{}{}
		go func(i int) {
			defer wg.Done()
			defer func() { <-sem }()
			results[i] = doJob(*bin, *dir, i, jobs[i])
		}(i)
	}
	wg.Wait()
	w := bufio.NewWriter(os.Stdout)
	defer w.Flush()
	enc := json.NewEncoder(w)
	for _, r := range results {
		if r.Err != "" {
			fmt.Fprintf(os.Stderr, "c06gob run: job %s: %s\n", r.ID, r.Err)
			return 2
		}
		if err := enc.Encode(r); err != nil {
			fmt.Fprintln(os.Stderr, err)
			return 2
		}
	}
	return 0
}

func cmdDump(paths []string) int {
	w := bufio.NewWriter(os.Stdout)
	defer w.Flush()
	enc := json.NewEncoder(w)
	for _, p := range paths {
		f, err := os.Open(p)
		if err != nil {
			fmt.Fprintln(os.Stderr, err)
			return 2
		}
		br := bufio.NewReader(f)
		out := struct {
			Runs []jrun `json:"runs"`
		}{Runs: []jrun{}}
		for {
			var res lintResult
			// same framing as lintcmd.decodeGob: a fresh decoder per run on one byte reader
			if err := gob.NewDecoder(br).Decode(&res); err != nil {
				if err == io.EOF {
					break
				}
				fmt.Fprintf(os.Stderr, "c06gob dump: %s: %v\n", p, err)
				f.Close()
				return 2
			}
			out.Runs = append(out.Runs, fromResult(res))
		}
		f.Close()
		if err := enc.Encode(out); err != nil {
			fmt.Fprintln(os.Stderr, err)
			return 2
		}
	}
	return 0
}

func main() {
	if len(os.Args) < 2 {
		fmt.Fprintln(os.Stderr, "usage: c06gob run|dump …")
		os.Exit(2)
	}
	switch os.Args[1] {
	case "run":
		os.Exit(cmdRun(os.Args[2:]))
	case "dump":
		os.Exit(cmdDump(os.Args[2:]))
	default:
		fmt.Fprintln(os.Stderr, "usage: c06gob run|dump …")
		os.Exit(2)
	}
}
