// c02dump builds IR with the real go/ir builder of the repository under test, once per
// requested builder mode, and dumps every function of the program (source functions,
// function literals, wrappers, thunks, bound methods, instantiations: everything
// irutil.AllFunctions finds) in the record format of harness/internal/c02ir.
//
//	c02dump -modes -,N,D,G,L,ND,... -src a.go b.go ...
//	    every file is type-checked as its own package (imports through the "source"
//	    importer); all packages of one run form one ir.Program built with Program.Build
//	    (so BuildSerially matters)
//	c02dump -modes ... -srclist file         like -src, file names read one per line
//	c02dump -modes ... -funcs a.go b.go ...
//	    like -src, but every top-level function declaration is a CANDIDATE: each file is
//	    type-checked in-process with an error handler, the function declarations that contain
//	    a type error are removed (record `D <pid> <hex func name> <hex first error>`), and the
//	    rest is checked again until the file is clean; the surviving package is built.  Used
//	    for the exhaustive statement x expression grid of checks/c02.py, whose non-compiling
//	    combinations are discarded and counted rather than avoided by the generator.
//	c02dump -modes ... -dir D -pkgs pattern ...
//	    packages are loaded once with go/packages (LoadSyntax) from directory D
//	c02dump ... -print <substring>            additionally write Function.WriteTo text of
//	    functions whose name contains the substring to stderr (for replays)
//
// Mode letters are those of ir.BuilderMode.Set (N naive, D global debug, G instantiate
// generics, L build serially, C sanity check); "-" is the empty mode.
//
// A panic while building is caught where the goroutine structure of go/ir allows it and
// reported as an X record; a panic inside a builder goroutine kills the process (exit
// status 2, stack on stderr) and is attributed by the caller.
package main

import (
	"bufio"
	"flag"
	"fmt"
	"go/ast"
	"go/importer"
	"go/parser"
	"go/token"
	"go/types"
	"hash/fnv"
	"os"
	"path/filepath"
	"runtime/debug"
	"strings"

	"golang.org/x/tools/go/packages"
	"honnef.co/go/tools/go/ir"
	"honnef.co/go/tools/go/ir/irutil"
	"verif/harness/internal/c02ir"
)

var printSub = flag.String("print", "", "write the text form of functions whose name contains this to stderr")

func main() {
	modes := flag.String("modes", "-", "comma separated builder modes")
	src := flag.Bool("src", false, "arguments are single-file packages")
	funcs := flag.Bool("funcs", false, "arguments are single-file packages of candidate functions; ill-typed ones are dropped")
	srclist := flag.String("srclist", "", "file with one source file name per line")
	pkgs := flag.Bool("pkgs", false, "arguments are go/packages patterns")
	dir := flag.String("dir", ".", "directory for -pkgs")
	tests := flag.Bool("tests", false, "include test variants for -pkgs")
	kinds := flag.Bool("kinds", false, "list the types of package go/ir that implement ir.Instruction (K <name> <value|effect>) and exit")
	flag.Parse()
	if *kinds {
		listKinds(*dir)
		return
	}

	w := bufio.NewWriterSize(os.Stdout, 1<<20)
	defer w.Flush()
	d := &c02ir.Dumper{W: w}

	var ms []string
	for _, m := range strings.Split(*modes, ",") {
		m = strings.TrimSpace(m)
		if m == "" {
			continue
		}
		ms = append(ms, m)
	}

	files := flag.Args()
	if *srclist != "" {
		data, err := os.ReadFile(*srclist)
		if err != nil {
			fmt.Fprintln(os.Stderr, err)
			os.Exit(3)
		}
		files = nil
		for _, l := range strings.Split(string(data), "\n") {
			if l = strings.TrimSpace(l); l != "" {
				files = append(files, l)
			}
		}
		*src = true
	}
	switch {
	case *funcs:
		dumpFiles(d, files, ms, true)
	case *src:
		dumpFiles(d, files, ms, false)
	case *pkgs:
		dumpPkgs(d, *dir, flag.Args(), ms, *tests)
	default:
		fmt.Fprintln(os.Stderr, "need -src, -srclist or -pkgs")
		os.Exit(3)
	}
}

func parseMode(s string) ir.BuilderMode {
	var m ir.BuilderMode
	if s == "-" {
		return 0
	}
	if err := m.Set(s); err != nil {
		fmt.Fprintln(os.Stderr, err)
		os.Exit(3)
	}
	return m
}

type srcPkg struct {
	file  string
	pid   int
	tpkg  *types.Package
	files []*ast.File
	info  *types.Info
	err   string
	// -funcs: candidate functions removed because they do not type-check (name, first error)
	dropped [][2]string
}

func newInfo() *types.Info {
	return &types.Info{
		Types:        make(map[ast.Expr]types.TypeAndValue),
		Defs:         make(map[*ast.Ident]types.Object),
		Uses:         make(map[*ast.Ident]types.Object),
		Implicits:    make(map[ast.Node]types.Object),
		Scopes:       make(map[ast.Node]*types.Scope),
		Selections:   make(map[*ast.SelectorExpr]*types.Selection),
		Instances:    make(map[*ast.Ident]types.Instance),
		FileVersions: make(map[*ast.File]string),
	}
}

// checkDropping type-checks f as package path; while there are type errors it removes the
// top-level function declarations that contain an error position and tries again.  It
// returns the names of the dropped functions with the first error of each.
func checkDropping(fset *token.FileSet, imp types.Importer, f *ast.File, path string) (*types.Package, *types.Info, [][2]string, error) {
	var dropped [][2]string
	for round := 0; ; round++ {
		var errs []types.Error
		info := newInfo()
		pkg := types.NewPackage(path, f.Name.Name)
		tc := &types.Config{Importer: imp, Error: func(err error) {
			if te, ok := err.(types.Error); ok {
				errs = append(errs, te)
			}
		}}
		err := types.NewChecker(tc, fset, pkg, info).Files([]*ast.File{f})
		if len(errs) == 0 {
			return pkg, info, dropped, err
		}
		if round > 8 {
			return nil, nil, dropped, fmt.Errorf("still ill-typed after %d rounds: %v", round, errs[0])
		}
		bad := map[*ast.FuncDecl]string{}
		for _, te := range errs {
			found := false
			for _, decl := range f.Decls {
				fd, ok := decl.(*ast.FuncDecl)
				if ok && fd.Pos() <= te.Pos && te.Pos <= fd.End() {
					if _, seen := bad[fd]; !seen {
						bad[fd] = te.Msg
					}
					found = true
				}
			}
			if !found {
				return nil, nil, dropped, fmt.Errorf("type error outside of a function declaration: %v", te)
			}
		}
		var keep []ast.Decl
		for _, decl := range f.Decls {
			if fd, ok := decl.(*ast.FuncDecl); ok {
				if msg, isBad := bad[fd]; isBad {
					dropped = append(dropped, [2]string{fd.Name.Name, msg})
					continue
				}
			}
			keep = append(keep, decl)
		}
		f.Decls = keep
	}
}

func dumpFiles(d *c02ir.Dumper, files []string, modes []string, dropIllTyped bool) {
	fset := token.NewFileSet()
	imp := importer.ForCompiler(fset, "source", nil)
	var sps []*srcPkg
	for _, file := range files {
		sp := &srcPkg{file: file}
		sps = append(sps, sp)
		f, err := parser.ParseFile(fset, file, nil, parser.ParseComments|parser.SkipObjectResolution)
		if err != nil {
			sp.err = "parse: " + err.Error()
			continue
		}
		sp.files = []*ast.File{f}
		base := strings.TrimSuffix(filepath.Base(file), ".go")
		// the package path must not depend on the position of the file in the argument list
		// (a replay re-dumps one file alone and looks functions up by name)
		h := fnv.New32a()
		h.Write([]byte(file))
		path := fmt.Sprintf("c02/%s_%08x/%s", base, h.Sum32(), f.Name.Name)
		if dropIllTyped {
			pkg, info, dropped, err := checkDropping(fset, imp, f, path)
			sp.dropped = dropped
			if err != nil {
				sp.err = "types: " + err.Error()
			}
			sp.tpkg, sp.info = pkg, info
			continue
		}
		sp.info = newInfo()
		sp.tpkg = types.NewPackage(path, f.Name.Name)
		tc := &types.Config{Importer: imp}
		if err := types.NewChecker(tc, fset, sp.tpkg, sp.info).Files(sp.files); err != nil {
			sp.err = "types: " + err.Error()
		}
	}
	for _, ms := range modes {
		mode := parseMode(ms)
		for _, sp := range sps {
			sp.pid = d.Package("src/"+sp.file, sp.file)
			if sp.err != "" {
				d.Error(sp.pid, ms, sp.err)
			}
			for _, dr := range sp.dropped {
				fmt.Fprintf(d.W, "D %d %s %s\n", sp.pid, c02ir.Hex(dr[0]), c02ir.Hex(dr[1]))
			}
		}
		func() {
			defer func() {
				if r := recover(); r != nil {
					d.Error(0, ms, fmt.Sprintf("builder panic: %v\n%s", r, debug.Stack()))
				}
			}()
			prog := ir.NewProgram(fset, mode)
			created := map[*types.Package]bool{}
			var createAll func(ps []*types.Package)
			createAll = func(ps []*types.Package) {
				for _, p := range ps {
					if !created[p] {
						created[p] = true
						prog.CreatePackage(p, nil, nil, true)
						createAll(p.Imports())
					}
				}
			}
			pidOf := map[*ir.Package]int{}
			for _, sp := range sps {
				if sp.err != "" {
					continue
				}
				createAll(sp.tpkg.Imports())
				created[sp.tpkg] = true
				ip := prog.CreatePackage(sp.tpkg, sp.files, sp.info, false)
				pidOf[ip] = sp.pid
			}
			prog.Build()
			dumpProgram(d, prog, ms, func(fn *ir.Function) (int, bool) {
				return pidFor(fn, pidOf)
			})
		}()
	}
}

// pidFor attributes a function to one of the dumped packages (0 = shared / synthetic
// function without package).
func pidFor(fn *ir.Function, pidOf map[*ir.Package]int) (int, bool) {
	for f := fn; f != nil; f = f.Parent() {
		if f.Pkg != nil {
			pid, ok := pidOf[f.Pkg]
			return pid, ok
		}
		if o := f.Origin(); o != nil && o != f && o.Pkg != nil {
			pid, ok := pidOf[o.Pkg]
			return pid, ok
		}
	}
	return 0, true
}

func dumpProgram(d *c02ir.Dumper, prog *ir.Program, ms string, pid func(*ir.Function) (int, bool)) {
	all := irutil.AllFunctions(prog)
	var fns []*ir.Function
	seen := map[*ir.Function]bool{}
	var add func(fn *ir.Function)
	add = func(fn *ir.Function) {
		if fn == nil || seen[fn] {
			return
		}
		seen[fn] = true
		fns = append(fns, fn)
		for _, a := range fn.AnonFuncs {
			add(a)
		}
	}
	for fn := range all {
		add(fn)
	}
	c02ir.SortFuncs(fns)
	for _, fn := range fns {
		if len(fn.Blocks) == 0 {
			continue
		}
		p, ok := pid(fn)
		if !ok {
			continue // body belongs to a package that was not requested
		}
		if *printSub != "" && strings.Contains(fn.String(), *printSub) {
			fmt.Fprintf(os.Stderr, "=== mode %s\n", ms)
			fn.WriteTo(os.Stderr)
		}
		d.Function(p, fn, ms)
	}
}

func dumpPkgs(d *c02ir.Dumper, dir string, patterns []string, modes []string, tests bool) {
	cfg := &packages.Config{Dir: dir, Mode: packages.LoadSyntax, Tests: tests}
	initial, err := packages.Load(cfg, patterns...)
	if err != nil {
		fmt.Fprintln(os.Stderr, "packages.Load:", err)
		os.Exit(3)
	}
	var good []*packages.Package
	type bad struct{ path, msg string }
	var bads []bad
	for _, p := range initial {
		if len(p.Errors) > 0 || p.Types == nil || p.IllTyped {
			msg := "ill-typed"
			if len(p.Errors) > 0 {
				msg = p.Errors[0].Error()
			}
			bads = append(bads, bad{p.ID, "load: " + msg})
			continue
		}
		good = append(good, p)
	}
	for _, ms := range modes {
		mode := parseMode(ms)
		for _, b := range bads {
			d.Error(d.Package(b.path, ""), ms, b.msg)
		}
		func() {
			defer func() {
				if r := recover(); r != nil {
					d.Error(0, ms, fmt.Sprintf("builder panic: %v\n%s", r, debug.Stack()))
				}
			}()
			prog, irpkgs := irutil.Packages(good, mode)
			pidOf := map[*ir.Package]int{}
			for i, ip := range irpkgs {
				pid := d.Package(good[i].ID, "")
				if ip == nil {
					d.Error(pid, ms, "load: no ir package")
					continue
				}
				pidOf[ip] = pid
			}
			prog.Build()
			dumpProgram(d, prog, ms, func(fn *ir.Function) (int, bool) {
				return pidFor(fn, pidOf)
			})
		}()
	}
}

// listKinds prints every named struct type of package go/ir (of the tree under test) whose
// pointer type implements ir.Instruction, and whether it also implements ir.Value.
func listKinds(dir string) {
	cfg := &packages.Config{Dir: dir, Mode: packages.NeedTypes | packages.NeedName | packages.NeedImports | packages.NeedDeps}
	ps, err := packages.Load(cfg, "honnef.co/go/tools/go/ir")
	if err != nil || len(ps) != 1 || ps[0].Types == nil || len(ps[0].Errors) > 0 {
		fmt.Fprintln(os.Stderr, "cannot load honnef.co/go/tools/go/ir:", err)
		os.Exit(3)
	}
	scope := ps[0].Types.Scope()
	iface := func(name string) *types.Interface {
		o := scope.Lookup(name)
		if o == nil {
			fmt.Fprintln(os.Stderr, "go/ir has no type", name)
			os.Exit(3)
		}
		return o.Type().Underlying().(*types.Interface)
	}
	instr, value := iface("Instruction"), iface("Value")
	for _, name := range scope.Names() {
		tn, ok := scope.Lookup(name).(*types.TypeName)
		if !ok {
			continue
		}
		if _, ok := tn.Type().Underlying().(*types.Struct); !ok {
			continue
		}
		p := types.NewPointer(tn.Type())
		if types.Implements(p, instr) {
			k := "effect"
			if types.Implements(p, value) {
				k = "value"
			}
			fmt.Printf("K %s %s\n", name, k)
		}
	}
}
